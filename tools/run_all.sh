#!/bin/bash
# run_all.sh [tier] : every check once, one summary line each
tier=${1:-quick}
cd /verif
for i in $(seq -w 1 20); do
  s=$(date +%s)
  out=$(./check C$i --tier $tier 2>&1 | grep -E "^(VIOLATION|OK|TOOL-ERROR|KNOWN-FINDING|DRIFT)" | cut -c1-160 | tr '\n' '|')
  echo "C$i $(( $(date +%s) - s ))s $out"
done
