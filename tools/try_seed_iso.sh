#!/bin/bash
# try_seed_iso.sh <patch.diff> <check ids...> : like try_seed.sh but without touching /repo: the patch is applied to a scratch
# worktree (/tmp/seedrepo), the harness is copied to /tmp/seedh with its path dependencies pointing there, output goes to
# /tmp/seedout.  The harness build output is kept between calls (incremental); `try_seed_iso.sh --clean` removes everything.
if [ "$1" = "--clean" ]; then
  git -C /repo worktree remove --force /tmp/seedrepo 2>/dev/null; git -C /repo worktree prune
  rm -rf /tmp/seedh /tmp/seedout /tmp/seedrepo
  exit 0
fi
patch=$(realpath $1); shift
git -C /repo worktree remove --force /tmp/seedrepo 2>/dev/null; git -C /repo worktree prune
git -C /repo worktree add -q --detach /tmp/seedrepo HEAD || exit 2
git -C /tmp/seedrepo apply "$patch" || exit 2
mkdir -p /tmp/seedh/harness /tmp/seedout
rsync -a --delete --exclude target /verif/harness/ /tmp/seedh/harness/
sed -i 's|path = "/repo/|path = "/tmp/seedrepo/|' /tmp/seedh/harness/Cargo.toml
for c in "$@"; do
  echo "---- $c"
  (cd /verif && VERIF_OUT=/tmp/seedout VERIF_HARNESS_DIR=/tmp/seedh/harness ./check $c --tier ${TIER:-quick} 2>&1 | grep -E "^(VIOLATION|OK|TOOL-ERROR|KNOWN-FINDING|  violation)" | cut -c1-400 | head -8)
done
git -C /repo worktree remove --force /tmp/seedrepo; git -C /repo worktree prune
