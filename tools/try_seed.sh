#!/bin/bash
# try_seed.sh <patch.diff> <check ids...> : applies a seeded change to /repo, runs the given checks (quick), undoes it.
patch=$(realpath $1); shift
cd /repo && git diff --quiet || { echo "/repo not clean"; exit 2; }
git -C /repo apply "$patch" || exit 2
for c in "$@"; do
  echo "---- $c"
  (cd /verif && ./check $c --tier ${TIER:-quick} 2>&1 | grep -E "^(VIOLATION|OK|TOOL-ERROR|KNOWN-FINDING|  violation)" | cut -c1-400 | head -8)
done
git -C /repo checkout -- .
git -C /repo status --short | head -3
