#!/bin/bash
# save_seed.sh <Cxx> <n> : copies a confirmed seeded change from its scratch worktree /tmp/wt_<Cxx> to seeded/<Cxx>-<n>/
p=$1; n=$2; wt=/tmp/wt_${3:-$p}; d=/verif/seeded/$p-$n
mkdir -p $d
cp $wt/seed/patch.diff $d/patch.diff
cp $wt/seed/notes.md $d/notes.md 2>/dev/null
for f in $wt/seed/seed_demo*.rs; do cp $f $d/; done
grep -v "^     Running\|^--\|called .Result::unwrap" /tmp/confirm_${3:-$p}.log > $d/confirm.log
ls $d
