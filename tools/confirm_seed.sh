#!/bin/bash
# confirm_seed.sh <worktree> <crate> : confirms (in the scratch worktree) that the seeded change compiles, the crate's
# existing tests pass with it, and the demo (tests/seed_demo.rs) fails with it and passes without it.
wt=$1; crate=$2
export CARGO_TARGET_DIR=$wt/target
cd $wt || exit 2
git apply --check -R seed/patch.diff 2>/dev/null || { echo "patch not applied in $wt"; exit 2; }
echo "== with change: existing tests of $crate (excluding seed_demo)"
cargo test -p $crate --offline --no-fail-fast 2>&1 | grep -E "^test result|Running|error(\[|:)" | grep -B1 -E "FAILED|error" | head -20
echo "== with change: demo"
cargo test -p $crate --offline --test seed_demo 2>&1 | grep -E "^test result"
git apply -R seed/patch.diff
echo "== without change: demo"
cargo test -p $crate --offline --test seed_demo 2>&1 | grep -E "^test result"
git apply seed/patch.diff
