#!/bin/bash
# baseline_compare.sh : runs the repository's own test suite (guard off) in a scratch copy of /repo's working tree and compares the
# passing tests with the 808 stable tests of /root/.vp/BASELINE.json.  Scratch copy and its build output are removed afterwards.
set -u
S=/tmp/baseline_scratch
rm -rf $S; mkdir -p $S
rsync -a --exclude target --exclude .git /repo/ $S/
cd $S
CARGO_TARGET_DIR=$S/target cargo test --workspace --no-fail-fast --offline > /tmp/baseline_run.log 2>&1
python3 - <<'PY'
import json, re
d = json.load(open('/root/.vp/BASELINE.json'))
stable = set(d['stable_pass'])
binr = None; passed = set(); failed = set()
for line in open('/tmp/baseline_run.log'):
    m = re.match(r"\s+Running (?:unittests )?(\S+) \((\S+)/deps/([a-zA-Z0-9_]+)-[0-9a-f]+\)", line)
    if m:
        binr = m.group(3); continue
    m = re.match(r"\s+Doc-tests (\S+)", line)
    if m:
        binr = "doc:" + m.group(1); continue
    m = re.match(r"test (.+?) \.\.\. (ok|FAILED|ignored)", line)
    if m and binr:
        (passed if m.group(2) == "ok" else failed).add(f"{binr}::{m.group(1)}")
key = lambda s: s.split("::", 1)[1]     # baseline ids are package::binary::test; binaries are unique in this workspace
missing = sorted(s for s in stable if key(s) not in passed)
print("stable tests:", len(stable), " passing now:", len(stable) - len(missing), " not passing:", len(missing))
for s in missing[:40]:
    print("  NOT PASSING:", s, "(FAILED)" if key(s) in failed else "(not seen)")
PY
rm -rf $S
