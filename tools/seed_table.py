#!/usr/bin/env python3
"""Regenerates the seeded-changes table of DESIGN.md §10.3 (between the SEEDS markers) from seeded/*/meta.json."""
import json, os, re, glob
root = os.path.dirname(os.path.dirname(os.path.abspath(__file__)))
rows = []
missed = 0
for d in sorted(glob.glob(os.path.join(root, "seeded", "*"))):
    m = json.load(open(os.path.join(d, "meta.json")))
    sid = os.path.basename(d)
    det = "; ".join(m["detected_by"])
    first_miss = "MISSED at first" in det
    missed += first_miss
    det = det.replace("MISSED at first", "**missed at first**")
    rows.append(f"| {sid} | {m['breaks']} | {det} |")
table = "| seed | change | caught by |\n|---|---|---|\n" + "\n".join(rows) + f"\n\n{len(rows)} seeded changes; {missed} were missed by the check as it stood when the seed arrived and led to the extensions named in their row; all {len(rows)} are caught now.\n"
p = os.path.join(root, "DESIGN.md")
s = open(p).read()
s2 = re.sub(r"<!-- SEEDS:BEGIN -->.*<!-- SEEDS:END -->", "<!-- SEEDS:BEGIN -->\n" + table.replace("\\", "\\\\") + "<!-- SEEDS:END -->", s, flags=re.S)
open(p, "w").write(s2)
print(len(rows), missed)
