//! C05: MessageDeframer::read_framed under a scripted AsyncRead (chunk schedule from
//! spec/Framing.tla) and MessageFramer::write_framed under a scripted AsyncWrite.
use crate::alloc;
use crate::io::{NdWriter, catch, quiet_panics, read_ndjson};
use crate::term_json::{bytes_json, bytes_of};
use edp_client::framing::{FrameMode, MessageDeframer, MessageFramer};
use serde_json::{Value, json};
use std::future::Future;
use std::pin::Pin;
use std::task::{Context, Poll, Waker};
use tokio::io::{AsyncRead, AsyncWrite, ReadBuf};

/// schedule items: k > 0 = k more bytes become available, 0 = answer Pending once, -1 = end of stream
struct ScriptedRead {
    wire: Vec<u8>,
    pos: usize,
    chunk: usize,
    sched: Vec<i64>,
    next: usize,
    closed: bool,
    stuck: bool,
    polls: usize,
}

impl AsyncRead for ScriptedRead {
    fn poll_read(mut self: Pin<&mut Self>, cx: &mut Context<'_>, buf: &mut ReadBuf<'_>) -> Poll<std::io::Result<()>> {
        self.polls += 1;
        loop {
            if self.closed {
                return Poll::Ready(Ok(()));
            }
            if self.chunk > 0 {
                let n = self.chunk.min(buf.remaining()).min(self.wire.len() - self.pos);
                if n == 0 {
                    return Poll::Ready(Ok(()));
                }
                let start = self.pos;
                buf.put_slice(&self.wire[start..start + n]);
                self.pos += n;
                self.chunk -= n;
                return Poll::Ready(Ok(()));
            }
            if self.next >= self.sched.len() {
                self.stuck = true;
                POLL_STUCK.with(|s| s.set(true));
                return Poll::Pending;
            }
            let item = self.sched[self.next];
            self.next += 1;
            if item > 0 {
                self.chunk = item as usize;
            } else if item == 0 {
                cx.waker().wake_by_ref();
                return Poll::Pending;
            } else {
                self.closed = true;
            }
        }
    }
}

fn mode_of(prefix: u64) -> FrameMode {
    if prefix == 2 { FrameMode::Handshake } else { FrameMode::Distribution }
}

fn run_read(wire: Vec<u8>, sched: Vec<i64>, prefix: u64) -> Value {
    let mut reader = ScriptedRead { wire, pos: 0, chunk: 0, sched, next: 0, closed: false, stuck: false, polls: 0 };
    let deframer = MessageDeframer::new(mode_of(prefix));
    let mut out: Vec<Vec<u8>> = Vec::new();
    let mut err: Option<String> = None;
    let mut largest = 0usize;
    {
        let out_ref = &mut out;
        let err_ref = &mut err;
        let reader_ref = &mut reader;
        let mut fut = Box::pin(async move {
            loop {
                match deframer.read_framed(reader_ref).await {
                    Ok(m) => out_ref.push(m),
                    Err(e) => {
                        *err_ref = Some(format!("{:?}", e.kind()));
                        break;
                    }
                }
            }
        });
        let waker = Waker::noop();
        let mut cx = Context::from_waker(&waker);
        POLL_STUCK.with(|s| s.set(false));
        alloc::start();
        for _ in 0..100_000 {
            match fut.as_mut().poll(&mut cx) {
                Poll::Ready(()) => break,
                Poll::Pending => {}
            }
            // stop once the script is exhausted and the reader is waiting for more
            if POLL_STUCK.with(|s| s.get()) {
                break;
            }
        }
        largest = alloc::stop().0;
    }
    json!({"out": out.iter().map(|m| bytes_json(m)).collect::<Vec<_>>(), "err": err, "consumed": reader.pos, "stuck": reader.stuck, "largest_alloc": largest})
}

thread_local! {
    static POLL_STUCK: std::cell::Cell<bool> = const { std::cell::Cell::new(false) };
}

struct ScriptedWrite {
    got: Vec<u8>,
    sched: Vec<i64>,
    next: usize,
    flushes: usize,
    vectored: bool,   // the writer gathers: a vectored write takes bytes across the buffers offered
}

impl AsyncWrite for ScriptedWrite {
    fn poll_write(mut self: Pin<&mut Self>, cx: &mut Context<'_>, buf: &[u8]) -> Poll<std::io::Result<usize>> {
        let item = if self.next < self.sched.len() { self.sched[self.next] } else { i64::MAX };
        self.next += 1;
        if item == 0 {
            cx.waker().wake_by_ref();
            return Poll::Pending;
        }
        let n = (item.max(1) as usize).min(buf.len());
        self.got.extend_from_slice(&buf[..n]);
        Poll::Ready(Ok(n))
    }
    fn poll_write_vectored(mut self: Pin<&mut Self>, cx: &mut Context<'_>, bufs: &[std::io::IoSlice<'_>]) -> Poll<std::io::Result<usize>> {
        if !self.vectored {
            // like the default: the first non-empty buffer through poll_write
            let first = bufs.iter().find(|b| !b.is_empty()).map(|b| &**b).unwrap_or(&[]);
            return self.poll_write(cx, first);
        }
        let item = if self.next < self.sched.len() { self.sched[self.next] } else { i64::MAX };
        self.next += 1;
        if item == 0 {
            cx.waker().wake_by_ref();
            return Poll::Pending;
        }
        let total: usize = bufs.iter().map(|b| b.len()).sum();
        let mut n = (item.max(1) as usize).min(total);
        let taken = n;
        for b in bufs {
            let k = n.min(b.len());
            self.got.extend_from_slice(&b[..k]);
            n -= k;
            if n == 0 {
                break;
            }
        }
        Poll::Ready(Ok(taken))
    }
    fn is_write_vectored(&self) -> bool {
        self.vectored
    }
    fn poll_flush(mut self: Pin<&mut Self>, _cx: &mut Context<'_>) -> Poll<std::io::Result<()>> {
        self.flushes += 1;
        Poll::Ready(Ok(()))
    }
    fn poll_shutdown(self: Pin<&mut Self>, _cx: &mut Context<'_>) -> Poll<std::io::Result<()>> {
        Poll::Ready(Ok(()))
    }
}

fn run_write(msgs: &[Vec<u8>], sched: Vec<i64>, prefix: u64, vectored: bool) -> Value {
    let framer = MessageFramer::new(mode_of(prefix));
    let mut w = ScriptedWrite { got: Vec::new(), sched, next: 0, flushes: 0, vectored };
    let mut one_shot: Vec<u8> = Vec::new();
    for m in msgs {
        one_shot.extend_from_slice(&framer.frame_message(m));
    }
    let mut err = None;
    {
        let wref = &mut w;
        let mut fut = Box::pin(async move {
            for m in msgs {
                if let Err(e) = framer.write_framed(wref, m).await {
                    return Some(format!("{:?}", e.kind()));
                }
            }
            None
        });
        let waker = Waker::noop();
        let mut cx = Context::from_waker(&waker);
        for _ in 0..100_000 {
            if let Poll::Ready(r) = fut.as_mut().poll(&mut cx) {
                err = r;
                break;
            }
        }
    }
    json!({"streamed": bytes_json(&w.got), "one_shot": bytes_json(&one_shot), "err": err, "flushes": w.flushes})
}

pub fn run(args: &[String]) -> i32 {
    // framing-run <schedules.ndjson> <out.ndjson>
    quiet_panics();
    let recs = read_ndjson(&args[0]);
    let mut w = NdWriter::create(&args[1]);
    for r in recs.iter() {
        let prefix = r["prefix"].as_u64().unwrap_or(4);
        let sched: Vec<i64> = r["sched"].as_array().map(|a| a.iter().map(|x| x.as_i64().unwrap_or(0)).collect()).unwrap_or_default();
        let o = if r["kind"].as_str() == Some("write") {
            let msgs: Vec<Vec<u8>> = r["sent"].as_array().map(|a| a.iter().map(bytes_of).collect()).unwrap_or_default();
            match catch(|| run_write(&msgs, sched, prefix, r["vectored"].as_bool().unwrap_or(false))) {
                Ok(v) => v,
                Err(p) => json!({"panic": p}),
            }
        } else {
            let wire = if let Some(t) = r.get("wire_template") {
                // big streams: a 4-byte length followed by `body` filler bytes
                let mut b = bytes_of(&t["head"]);
                let n = t["body"].as_u64().unwrap_or(0) as usize;
                b.extend(std::iter::repeat(0xAB).take(n));
                b.extend(bytes_of(&t["tail"]));
                b
            } else {
                bytes_of(&r["wire"])
            };
            match catch(|| run_read(wire, sched, prefix)) {
                Ok(v) => v,
                Err(p) => json!({"panic": p}),
            }
        };
        let mut m = o;
        m["id"] = r["id"].clone();
        w.put(&m);
    }
    w.finish();
    0
}

// ---------------------------------------------------------------- C05 over real sockets: FramedTransport
/// transport-run <scenarios.ndjson> <out.ndjson>
/// scenario: {id, hs: [[bytes]], dist: [[bytes]], chunk: n (0 = one write), handover: "mode" | "read_half"}
/// The peer writes the spec's framing of `hs` (2-byte prefixes) followed by `dist` (4-byte prefixes); the client reads the
/// handshake part through FramedTransport::read, then either switches the transport's frame mode or takes the read half and
/// reads the rest with a MessageDeframer (what Connection / Node do).  The other direction: the client writes all messages through
/// FramedTransport::write (mode switched in between) and the peer records the raw bytes.
pub fn run_transport(args: &[String]) -> i32 {
    use edp_client::framing::{FrameMode, MessageDeframer};
    use edp_client::transport::FramedTransport;
    use std::time::Duration;
    use tokio::io::{AsyncReadExt, AsyncWriteExt};
    use tokio::net::{TcpListener, TcpStream};
    let scen = read_ndjson(&args[0]);
    let rt = tokio::runtime::Builder::new_multi_thread().worker_threads(2).enable_all().build().expect("rt");
    let mut w = NdWriter::create(&args[1]);
    rt.block_on(async {
        let listener = std::sync::Arc::new(TcpListener::bind("127.0.0.1:0").await.expect("bind"));
        let addr = listener.local_addr().unwrap();
        for sc in scen.iter() {
            let hs: Vec<Vec<u8>> = sc["hs"].as_array().map(|a| a.iter().map(bytes_of).collect()).unwrap_or_default();
            let dist: Vec<Vec<u8>> = sc["dist"].as_array().map(|a| a.iter().map(bytes_of).collect()).unwrap_or_default();
            let chunk = sc["chunk"].as_u64().unwrap_or(0) as usize;
            let read_half = sc["handover"].as_str() == Some("read_half");
            let mut wire = Vec::new();
            for m in &hs {
                wire.extend_from_slice(&(m.len() as u16).to_be_bytes());
                wire.extend_from_slice(m);
            }
            for m in &dist {
                wire.extend_from_slice(&(m.len() as u32).to_be_bytes());
                wire.extend_from_slice(m);
            }
            let expected_out = wire.clone();
            let peer = tokio::spawn({
                let wire = wire.clone();
                let listener = listener.clone();
                async move {
                    let (mut s, _) = listener.accept().await.ok()?;
                    if chunk == 0 {
                        s.write_all(&wire).await.ok()?;
                    } else {
                        for c in wire.chunks(chunk) {
                            s.write_all(c).await.ok()?;
                            s.flush().await.ok()?;
                            tokio::time::sleep(Duration::from_micros(200)).await;
                        }
                    }
                    s.flush().await.ok()?;
                    // now collect what the client writes, until it closes
                    let mut got = Vec::new();
                    let mut buf = [0u8; 4096];
                    loop {
                        match tokio::time::timeout(Duration::from_millis(400), s.read(&mut buf)).await {
                            Ok(Ok(0)) | Ok(Err(_)) | Err(_) => break,
                            Ok(Ok(n)) => got.extend_from_slice(&buf[..n]),
                        }
                    }
                    Some(got)
                }
            });
            let client = async {
                let stream = TcpStream::connect(addr).await.ok()?;
                let mut t = FramedTransport::new(Duration::from_millis(400));
                t.connect(stream);
                let mut read_hs = Vec::new();
                let mut errs = Vec::new();
                for _ in 0..hs.len() {
                    match t.read().await {
                        Ok(m) => read_hs.push(m),
                        Err(e) => {
                            errs.push(format!("{e:?}"));
                            break;
                        }
                    }
                }
                let mut read_dist = Vec::new();
                if read_half {
                    if let Some(mut rh) = t.take_read_half() {
                        let d = MessageDeframer::new(FrameMode::Distribution);
                        for _ in 0..dist.len() {
                            match tokio::time::timeout(Duration::from_millis(400), d.read_framed(&mut rh)).await {
                                Ok(Ok(m)) => read_dist.push(m),
                                Ok(Err(e)) => {
                                    errs.push(format!("{e:?}"));
                                    break;
                                }
                                Err(_) => {
                                    errs.push("timeout".into());
                                    break;
                                }
                            }
                        }
                        // writing still goes through the transport
                    } else {
                        errs.push("no read half".into());
                    }
                } else {
                    t.set_frame_mode(FrameMode::Distribution);
                    for _ in 0..dist.len() {
                        match t.read().await {
                            Ok(m) => read_dist.push(m),
                            Err(e) => {
                                errs.push(format!("{e:?}"));
                                break;
                            }
                        }
                    }
                }
                // the other direction
                t.set_frame_mode(FrameMode::Handshake);
                for m in &hs {
                    if let Err(e) = t.write(m).await {
                        errs.push(format!("write: {e:?}"));
                    }
                }
                t.set_frame_mode(FrameMode::Distribution);
                for m in &dist {
                    if let Err(e) = t.write(m).await {
                        errs.push(format!("write: {e:?}"));
                    }
                }
                t.close();
                Some((read_hs, read_dist, errs))
            };
            let (cl, pr) = tokio::join!(client, peer);
            let written = pr.ok().flatten();
            match cl {
                Some((rh, rd, errs)) => w.put(&json!({"id": sc["id"], "read_hs": rh, "read_dist": rd, "errors": errs, "written_matches_framing": written.as_ref() == Some(&expected_out),
                                                      "written_len": written.as_ref().map(|x| x.len()), "expected_len": expected_out.len()})),
                None => w.put(&json!({"id": sc["id"], "tool_error": "client could not connect"})),
            }
        }
    });
    w.finish();
    0
}
