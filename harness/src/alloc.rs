//! Counting global allocator: per-thread largest single request while tracking is on.
//! Requests above 1 GiB are refused (the process then aborts through handle_alloc_error, which
//! the parent observes as a crash of the code under test).
use std::alloc::{GlobalAlloc, Layout, System};
use std::cell::Cell;

pub struct Counting;

thread_local! {
    static TRACK: Cell<bool> = const { Cell::new(false) };
    static MAX_REQ: Cell<usize> = const { Cell::new(0) };
    static TOTAL: Cell<usize> = const { Cell::new(0) };
}

const REFUSE_ABOVE: usize = 1 << 30;

#[inline]
fn note(size: usize) {
    let _ = TRACK.try_with(|t| {
        if t.get() {
            let _ = MAX_REQ.try_with(|m| {
                if size > m.get() {
                    m.set(size)
                }
            });
            let _ = TOTAL.try_with(|m| m.set(m.get().saturating_add(size)));
        }
    });
}

unsafe impl GlobalAlloc for Counting {
    unsafe fn alloc(&self, layout: Layout) -> *mut u8 {
        note(layout.size());
        if layout.size() > REFUSE_ABOVE {
            return std::ptr::null_mut();
        }
        unsafe { System.alloc(layout) }
    }
    unsafe fn dealloc(&self, ptr: *mut u8, layout: Layout) {
        unsafe { System.dealloc(ptr, layout) }
    }
    unsafe fn alloc_zeroed(&self, layout: Layout) -> *mut u8 {
        note(layout.size());
        if layout.size() > REFUSE_ABOVE {
            return std::ptr::null_mut();
        }
        unsafe { System.alloc_zeroed(layout) }
    }
    unsafe fn realloc(&self, ptr: *mut u8, layout: Layout, new_size: usize) -> *mut u8 {
        note(new_size);
        if new_size > REFUSE_ABOVE {
            return std::ptr::null_mut();
        }
        unsafe { System.realloc(ptr, layout, new_size) }
    }
}

pub fn start() {
    MAX_REQ.with(|m| m.set(0));
    TOTAL.with(|m| m.set(0));
    TRACK.with(|t| t.set(true));
}

/// returns (largest single request, total requested) since start()
pub fn stop() -> (usize, usize) {
    TRACK.with(|t| t.set(false));
    (MAX_REQ.with(|m| m.get()), TOTAL.with(|m| m.get()))
}
