//! Beyond the listed properties (spec/KeepAlive.tla): does the node ever write a tick on an idle connection on which the
//! peer keeps ticking?
use crate::io::NdWriter;
use crate::nodeenv::*;
use crate::rpc::connect_peer;
use edp_client::verif;
use edp_node::Node;
use serde_json::json;
use std::sync::Arc;
use std::time::Duration;
use tokio::net::TcpListener;

pub fn run(args: &[String]) -> i32 {
    // keepalive-run <seconds> <out.ndjson>
    let secs: u64 = args[0].parse().unwrap_or(3);
    let rt = tokio::runtime::Builder::new_multi_thread().worker_threads(2).enable_all().build().expect("rt");
    let mut w = NdWriter::create(&args[1]);
    rt.block_on(async {
        let listener = TcpListener::bind("127.0.0.1:0").await.expect("bind");
        let (epmd_port, _e) = fake_epmd(listener.local_addr().unwrap().port()).await;
        verif::set_epmd_port(epmd_port);
        let mut node = Node::new("n1@127.0.0.1", COOKIE);
        if node.start(0).await.is_err() {
            w.put(&json!({"tool_error": "node start failed"}));
            return;
        }
        let node = Arc::new(node);
        let Some(mut peer) = connect_peer(&node, &listener).await else {
            w.put(&json!({"tool_error": "could not connect"}));
            return;
        };
        let mut ticks_sent = 0;
        for _ in 0..(secs * 5) {
            if write_dist_frame(&mut peer.wr, &[]).await {
                ticks_sent += 1;
            }
            tokio::time::sleep(Duration::from_millis(200)).await;
        }
        let frames = peer.frames.lock().unwrap().clone();
        let node_ticks = frames.iter().filter(|f| f.is_empty()).count();
        w.put(&json!({"seconds": secs, "peer_ticks_sent": ticks_sent, "frames_from_node": frames.len(), "ticks_from_node": node_ticks,
                      "still_registered": node.connections().contains_key("peer@127.0.0.1")}));
    });
    w.finish();
    0
}
