use serde_json::Value;
use std::fs::File;
use std::io::{BufRead, BufReader, BufWriter, Write};

pub fn read_ndjson(path: &str) -> Vec<Value> {
    let f = File::open(path).unwrap_or_else(|e| panic!("open {path}: {e}"));
    BufReader::new(f)
        .lines()
        .map(|l| l.expect("read line"))
        .filter(|l| !l.trim().is_empty())
        .map(|l| serde_json::from_str(&l).unwrap_or_else(|e| panic!("bad json line: {e}: {}", &l[..l.len().min(200)])))
        .collect()
}

pub struct NdWriter {
    w: BufWriter<File>,
}

impl NdWriter {
    pub fn create(path: &str) -> Self {
        NdWriter { w: BufWriter::new(File::create(path).unwrap_or_else(|e| panic!("create {path}: {e}"))) }
    }
    pub fn put(&mut self, v: &Value) {
        serde_json::to_writer(&mut self.w, v).expect("write");
        self.w.write_all(b"\n").expect("write");
    }
    pub fn flush(&mut self) {
        self.w.flush().expect("flush");
    }
    pub fn finish(mut self) {
        self.w.flush().expect("flush");
    }
}

/// Run `f`, turning a panic of the code under test into data.
pub fn catch<T>(f: impl FnOnce() -> T) -> Result<T, String> {
    let r = std::panic::catch_unwind(std::panic::AssertUnwindSafe(f));
    r.map_err(|e| {
        if let Some(s) = e.downcast_ref::<&str>() {
            s.to_string()
        } else if let Some(s) = e.downcast_ref::<String>() {
            s.clone()
        } else {
            "panic".to_string()
        }
    })
}

pub fn quiet_panics() {
    std::panic::set_hook(Box::new(|_| {}));
}
