//! Beyond the listed properties (spec/NodeConn.tla): two concurrent Node::connect calls to one peer that accepts
//! both handshakes; the replaced connection's stream goes down; does the node still know the surviving connection?
use crate::io::NdWriter;
use crate::nodeenv::*;
use edp_client::verif;
use edp_node::Node;
use serde_json::json;
use std::sync::Arc;
use std::time::Duration;
use tokio::io::AsyncReadExt;
use tokio::net::TcpListener;

const NODE: &str = "n1@127.0.0.1";
const PEER: &str = "peer@127.0.0.1";

pub fn run(args: &[String]) -> i32 {
    // nodeconn-run <out.ndjson>
    let rt = tokio::runtime::Builder::new_multi_thread().worker_threads(4).enable_all().build().expect("rt");
    let mut w = NdWriter::create(&args[0]);
    rt.block_on(async {
        let listener = TcpListener::bind("127.0.0.1:0").await.expect("bind");
        let (epmd_port, _epmd) = fake_epmd(listener.local_addr().unwrap().port()).await;
        verif::set_epmd_port(epmd_port);
        let mut node = Node::new(NODE, COOKIE);
        if node.start(0).await.is_err() {
            w.put(&json!({"tool_error": "node start failed"}));
            return;
        }
        let node = Arc::new(node);
        // the peer accepts two handshakes
        let acc = tokio::spawn(async move {
            let mut conns = Vec::new();
            for _ in 0..2 {
                let Ok(Ok((s, _))) = tokio::time::timeout(Duration::from_secs(3), listener.accept()).await else { break };
                if let Some(pc) = accept_handshake(s, PEER, PEER_FLAGS).await {
                    conns.push(pc);
                }
            }
            conns
        });
        let (n1, n2) = (node.clone(), node.clone());
        let (r1, r2) = tokio::join!(tokio::spawn(async move { n1.connect(PEER).await.is_ok() }), tokio::spawn(async move { n2.connect(PEER).await.is_ok() }));
        let mut conns = acc.await.unwrap_or_default();
        let both = conns.len() == 2;
        let mut replaced_seen_closed = false;
        let mut registered_after = node.connections().contains_key(PEER);
        let registered_before = registered_after;
        if both {
            // the replaced connection's write half was dropped by the node: the peer reads end-of-stream on it and closes it
            let mut closed_idx = None;
            for (i, c) in conns.iter_mut().enumerate() {
                let mut b = [0u8; 1];
                if let Ok(Ok(0)) = tokio::time::timeout(Duration::from_millis(400), c.rd.read(&mut b)).await {
                    closed_idx = Some(i);
                    break;
                }
            }
            if let Some(i) = closed_idx {
                replaced_seen_closed = true;
                let c = conns.remove(i);
                drop(c);
                tokio::time::sleep(Duration::from_millis(500)).await;
                registered_after = node.connections().contains_key(PEER);
            }
        }
        // is the surviving connection healthy? the peer can still write a tick on it
        let survivor_writable = match conns.first_mut() {
            Some(c) => write_dist_frame(&mut c.wr, &[]).await,
            None => false,
        };
        w.put(&json!({"connect_results": [r1.unwrap_or(false), r2.unwrap_or(false)], "peer_accepted_both": both, "replaced_connection_closed_by_node": replaced_seen_closed,
                      "registered_before": registered_before, "registered_after_replaced_stream_ended": registered_after, "survivor_writable": survivor_writable}));
    });
    w.finish();
    0
}
