//! Codec observations for C01 / C03 / C10 / C13: the real encoder and both decoders are run on
//! the vectors TLC generated from spec/Etf.tla; everything observed is projected with `denote`
//! and written out.  No judging here.
use crate::io::{NdWriter, catch, quiet_panics, read_ndjson};
use crate::term_json::{build, bytes_json, bytes_of, denote};
use erltf::{BorrowedTerm, OwnedTerm};
use rand::rngs::StdRng;
use rand::{Rng, SeedableRng};
use serde_json::{Value, json};

fn obs_owned(bytes: &[u8]) -> Value {
    match catch(|| erltf::decode(bytes)) {
        Err(p) => json!({"ok": false, "panic": p}),
        Ok(Err(e)) => json!({"ok": false, "err": format!("{e:?}")}),
        Ok(Ok(t)) => {
            let re = catch(|| erltf::encode(&t));
            let reenc = match re {
                Ok(Ok(b)) => json!({"same": b == bytes, "bytes": if b == bytes { Value::Null } else { bytes_json(&b[..b.len().min(4096)]) }}),
                Ok(Err(e)) => json!({"same": false, "err": format!("{e:?}")}),
                Err(p) => json!({"same": false, "panic": p}),
            };
            json!({"ok": true, "den": denote(&t), "reenc": reenc})
        }
    }
}

/// owned vs zero-copy decoder on the same input
fn obs_borrowed(bytes: &[u8]) -> Value {
    let owned = catch(|| erltf::decode(bytes));
    let bor = catch(|| erltf::decode_borrowed(bytes).map(|t| t.to_owned()).map_err(|e| (format!("{:?}", e.error), e.context.byte_offset)));
    let owned_ok = matches!(owned, Ok(Ok(_)));
    match bor {
        Err(p) => json!({"owned_ok": owned_ok, "bor_ok": false, "bor_panic": p}),
        Ok(Err((e, off))) => json!({"owned_ok": owned_ok, "bor_ok": false, "bor_err": e, "offset": off, "len": bytes.len()}),
        Ok(Ok(bt)) => match owned {
            Ok(Ok(ot)) => {
                let d1 = denote(&bt);
                let d2 = denote(&ot);
                let same_den = d1 == d2;
                let same_variant = format!("{:?}", bt) == format!("{:?}", ot);
                let e1 = catch(|| erltf::encode(&bt)).ok().and_then(|r| r.ok());
                let e2 = catch(|| erltf::encode(&ot)).ok().and_then(|r| r.ok());
                json!({"owned_ok": true, "bor_ok": true, "same_den": same_den, "same_repr": same_variant, "same_reenc": e1 == e2,
                       "bor_den": if same_den { Value::Null } else { d1 }, "own_den": if same_den { Value::Null } else { d2 }})
            }
            _ => json!({"owned_ok": false, "bor_ok": true, "bor_den": denote(&bt)}),
        },
    }
}

fn clone_into_slot(t: &OwnedTerm, how: char) -> OwnedTerm {
    use erltf::types::{ExternalPid, ExternalPort, ExternalReference};
    let other = erltf::Atom::new("other@host");
    let loc = how == 'F';
    // some other identifier's preserved bytes: a LOCAL_EXT body (hash, then the identifier in its plain encoding)
    let body = |plain: &OwnedTerm| -> Vec<u8> {
        let mut b = vec![9u8, 9, 9, 9, 9, 9, 9, 9];
        b.extend_from_slice(&erltf::encode(plain).map(|e| e[1..].to_vec()).unwrap_or_default());
        b
    };
    match t {
        OwnedTerm::Pid(p) => {
            let plain = ExternalPid::new(other.clone(), 4242, 1, 9);
            let mut slot = if loc { ExternalPid::with_local_ext_bytes(other, 4242, 1, 9, body(&OwnedTerm::Pid(plain.clone()))) } else { plain };
            if how == 'v' {
                let mut sv = vec![slot];
                sv.clone_from(&vec![p.clone()]);
                return OwnedTerm::Pid(sv.pop().unwrap());
            }
            slot.clone_from(p);
            OwnedTerm::Pid(slot)
        }
        OwnedTerm::Port(p) => {
            let plain = ExternalPort::new(other.clone(), 4242, 9);
            let mut slot = if loc { ExternalPort::with_local_ext_bytes(other, 4242, 9, body(&OwnedTerm::Port(plain.clone()))) } else { plain };
            if how == 'v' {
                let mut sv = vec![slot];
                sv.clone_from(&vec![p.clone()]);
                return OwnedTerm::Port(sv.pop().unwrap());
            }
            slot.clone_from(p);
            OwnedTerm::Port(slot)
        }
        OwnedTerm::Reference(r) => {
            let plain = ExternalReference::new(other.clone(), 9, vec![1, 2, 3, 4, 5]);
            let mut slot = if loc { ExternalReference::with_local_ext_bytes(other, 9, vec![1, 2, 3, 4, 5], body(&OwnedTerm::Reference(plain.clone()))) } else { plain };
            if how == 'v' {
                let mut sv = vec![slot];
                sv.clone_from(&vec![r.clone()]);
                return OwnedTerm::Reference(sv.pop().unwrap());
            }
            slot.clone_from(r);
            OwnedTerm::Reference(slot)
        }
        OwnedTerm::Tuple(e) => OwnedTerm::Tuple(e.iter().map(|x| if matches!(x, OwnedTerm::Pid(_) | OwnedTerm::Port(_) | OwnedTerm::Reference(_)) { clone_into_slot(x, how) } else { x.clone() }).collect()),
        OwnedTerm::List(e) => OwnedTerm::List(e.iter().map(|x| if matches!(x, OwnedTerm::Pid(_) | OwnedTerm::Port(_) | OwnedTerm::Reference(_)) { clone_into_slot(x, how) } else { x.clone() }).collect()),
        other_term => {
            let mut slot = OwnedTerm::Pid(ExternalPid::new(other, 4242, 1, 9));
            slot.clone_from(other_term);
            slot
        }
    }
}

/// conversion scripts of C10: c = clone, b = to-borrowed-and-back, m = move through a Vec
fn convert(t: OwnedTerm, script: &str) -> OwnedTerm {
    let mut cur = t;
    for ch in script.chars() {
        cur = match ch {
            'c' => cur.clone(),
            'b' => {
                let b: BorrowedTerm = BorrowedTerm::from(&cur);
                b.to_owned()
            }
            'B' => {
                let b: BorrowedTerm = BorrowedTerm::from(&cur);
                let b2 = b.clone();
                b2.to_owned()
            }
            'm' => {
                let v = vec![cur];
                let mut it = v.into_iter();
                it.next().unwrap()
            }
            // Clone::clone_from into a value that already holds another identifier: f = a plain one, F = a node-local one, v = the same through
            // Vec::clone_from (identifiers at the top and one level down in tuples and lists; anything else through OwnedTerm::clone_from)
            'f' | 'F' | 'v' => clone_into_slot(&cur, ch),
            _ => cur,
        };
    }
    cur
}

pub fn run_obs(args: &[String]) -> i32 {
    // etf-obs <vectors.ndjson> <out.ndjson> <opts-json>
    quiet_panics();
    let opts: Value = serde_json::from_str(&args[2]).expect("opts");
    let do_trunc = opts["trunc"].as_bool().unwrap_or(false);
    let do_mut = opts["mutate"].as_u64().unwrap_or(0);
    let do_borrowed = opts["borrowed"].as_bool().unwrap_or(false);
    let scripts: Vec<String> = opts["scripts"].as_array().map(|a| a.iter().map(|s| s.as_str().unwrap().to_string()).collect()).unwrap_or_default();
    let seed = opts["seed"].as_u64().unwrap_or(1);
    let mut rng = StdRng::seed_from_u64(seed);
    let vectors = read_ndjson(&args[0]);
    let mut w = NdWriter::create(&args[1]);
    for rec in vectors.iter() {
        let id = rec["id"].clone();
        let v = &rec["v"];
        let spec_enc = bytes_of(&rec["enc"]);
        let mut o = serde_json::Map::new();
        o.insert("id".into(), id);
        // --- encoder on the term an application would build
        let built = catch(|| build(v));
        match built {
            Err(p) => {
                o.insert("build_panic".into(), json!(p));
            }
            Ok(t) => {
                match catch(|| erltf::encode(&t)) {
                    Err(p) => {
                        o.insert("enc".into(), json!({"ok": false, "panic": p}));
                    }
                    Ok(Err(e)) => {
                        o.insert("enc".into(), json!({"ok": false, "err": format!("{e:?}")}));
                    }
                    Ok(Ok(b)) => {
                        let mut wbuf: Vec<u8> = Vec::new();
                        let wr = catch(|| erltf::encode_to_writer(&t, &mut wbuf));
                        let mut writer_same = matches!(wr, Ok(Ok(()))) && wbuf == b;
                        // writers that take what they like (the io::Write contract: write may accept any non-empty prefix):
                        // everything must still arrive, and a writer that is full must surface as an error
                        for per_call in [1usize, 7] {
                            let mut sw = ShortWriter { got: Vec::new(), per_call, cap: usize::MAX };
                            let r = catch(|| erltf::encode_to_writer(&t, &mut sw));
                            writer_same &= matches!(r, Ok(Ok(()))) && sw.got == b;
                        }
                        if b.len() > 3 {
                            let mut sw = ShortWriter { got: Vec::new(), per_call: 2, cap: b.len() - 1 };
                            let r = catch(|| erltf::encode_to_writer(&t, &mut sw));
                            writer_same &= matches!(r, Ok(Err(_)));
                        }
                        o.insert("enc".into(), json!({"ok": true, "bytes": bytes_json(&b), "canonical": b == spec_enc, "writer_same": writer_same}));
                        o.insert("dec_lib".into(), obs_owned(&b));
                        if do_borrowed {
                            o.insert("bor_lib".into(), obs_borrowed(&b));
                        }
                    }
                }
                // C10 conversion scripts: decode the spec's bytes, convert, encode again
                if !scripts.is_empty() {
                    let mut so = Vec::new();
                    if let Ok(Ok(dt)) = catch(|| erltf::decode(&spec_enc)) {
                        for s in &scripts {
                            let r = catch(|| {
                                let c = convert(dt.clone(), s);
                                erltf::encode(&c)
                            });
                            so.push(match r {
                                Ok(Ok(b)) => json!({"script": s, "same": b == spec_enc, "bytes": if b == spec_enc { Value::Null } else { bytes_json(&b[..b.len().min(2048)]) }}),
                                Ok(Err(e)) => json!({"script": s, "same": false, "err": format!("{e:?}")}),
                                Err(p) => json!({"script": s, "same": false, "panic": p}),
                            });
                        }
                    } else {
                        so.push(json!({"script": "", "same": false, "err": "spec encoding not decodable"}));
                    }
                    o.insert("scripts".into(), Value::Array(so));
                }
            }
        }
        // --- decoder on the spec's canonical bytes
        o.insert("dec_spec".into(), obs_owned(&spec_enc));
        if do_borrowed {
            o.insert("bor_spec".into(), obs_borrowed(&spec_enc));
        }
        // trailing byte must be rejected by decode, reported by decode_with_trailing
        {
            let mut tb = spec_enc.clone();
            tb.push(0);
            let r = catch(|| erltf::decode(&tb).is_ok());
            let r2 = catch(|| erltf::decoder::decode_with_trailing(&tb).map(|(t, rest)| (denote(&t), rest.len())));
            o.insert("trailing".into(), json!({
                "accepted": r.clone().unwrap_or(false), "panic": r.is_err(),
                "with_trailing": match r2 { Ok(Ok((d, n))) => json!({"ok": true, "den": d, "rest": n}), Ok(Err(e)) => json!({"ok": false, "err": format!("{e:?}")}), Err(p) => json!({"ok": false, "panic": p}) }
            }));
        }
        // --- alternative encodings
        let mut alts = Vec::new();
        if let Some(a) = rec["alts"].as_array() {
            for alt in a {
                let ab = bytes_of(&alt["bytes"]);
                let mut ao = serde_json::Map::new();
                ao.insert("why".into(), alt["why"].clone());
                ao.insert("dec".into(), obs_owned(&ab));
                {
                    // the same alternative followed by one more byte
                    let mut tb = ab.clone();
                    tb.push(0);
                    let r = catch(|| erltf::decode(&tb).is_ok());
                    let r2 = catch(|| erltf::decoder::decode_with_trailing(&tb).map(|(_, rest)| rest.len()));
                    ao.insert("trail_accepted".into(), json!(r.clone().unwrap_or(false) || r.is_err()));
                    ao.insert("trail_rest".into(), match r2 { Ok(Ok(n)) => json!(n), _ => Value::Null });
                }
                if do_borrowed {
                    ao.insert("bor".into(), obs_borrowed(&ab));
                }
                alts.push(Value::Object(ao));
            }
        }
        o.insert("alts".into(), Value::Array(alts));
        // --- truncations and mutations (C13: owned vs borrowed on invalid / arbitrary inputs)
        if do_trunc || do_mut > 0 {
            let mut disag = Vec::new();
            let mut n_inputs = 0u64;
            let mut n_bor_ok = 0u64;
            let mut inputs: Vec<Vec<u8>> = Vec::new();
            if do_trunc && spec_enc.len() <= 400 {
                for k in 0..spec_enc.len() {
                    inputs.push(spec_enc[..k].to_vec());
                }
            }
            for _ in 0..do_mut {
                if spec_enc.len() < 2 || spec_enc.len() > 5000 {
                    break;
                }
                let mut m = spec_enc.clone();
                let pos = rng.random_range(1..m.len());
                match rng.random_range(0..4) {
                    0 => m[pos] ^= 1 << rng.random_range(0..8),
                    1 => m[pos] = rng.random(),
                    2 => {
                        m.remove(pos);
                    }
                    _ => m.insert(pos, rng.random()),
                }
                inputs.push(m);
            }
            for inp in inputs {
                n_inputs += 1;
                let ob = obs_borrowed(&inp);
                if ob["bor_ok"].as_bool() == Some(true) {
                    n_bor_ok += 1;
                }
                let bad = ob.get("bor_panic").is_some()
                    || (ob["bor_ok"].as_bool() == Some(true) && (ob["owned_ok"].as_bool() != Some(true) || ob["same_den"].as_bool() != Some(true) || ob["same_reenc"].as_bool() != Some(true)))
                    || (ob["bor_ok"].as_bool() == Some(false) && ob.get("offset").and_then(|x| x.as_u64()).unwrap_or(0) > inp.len() as u64);
                if bad {
                    disag.push(json!({"input": bytes_json(&inp), "obs": ob}));
                }
            }
            o.insert("fuzz".into(), json!({"inputs": n_inputs, "bor_ok": n_bor_ok, "disagreements": disag}));
        }
        w.put(&Value::Object(o));
    }
    // --- decoding is a function of the bytes (Etf!Parse has no state): after a history of rejected inputs on this very
    // thread -- too deeply nested terms of every container kind, truncations of every vector, size fields that promise
    // more than there is -- every vector must decode to what it decoded to before
    if opts["history"].as_bool().unwrap_or(false) {
        // probes near the accepted nesting depth (whatever their outcome is before, it must be the same after)
        let probes: Vec<Vec<u8>> = [200usize, 250, 254, 255, 256].iter().flat_map(|&d| {
            let mut l = vec![131u8];
            for _ in 0..d { l.extend_from_slice(&[108, 0, 0, 0, 1]); }
            l.push(106);
            for _ in 0..d { l.push(106); }
            let mut t = vec![131u8];
            for _ in 0..d { t.extend_from_slice(&[104, 1]); }
            t.push(106);
            vec![l, t]
        }).collect();
        let probe_first: Vec<(Value, Value)> = probes.iter().map(|b| (obs_owned(b), if do_borrowed { obs_borrowed(b) } else { Value::Null })).collect();
        let first: Vec<(Value, Value)> = vectors.iter().map(|rec| { let b = bytes_of(&rec["enc"]); (obs_owned(&b), if do_borrowed { obs_borrowed(&b) } else { Value::Null }) }).collect();
        let mut rejected = 0u64;
        let mut feed = |inp: &[u8]| {
            let a = catch(|| erltf::decode(inp).is_ok());
            let b = catch(|| erltf::decode_borrowed(inp).is_ok());
            if !matches!(a, Ok(true)) { rejected += 1; }
            let _ = b;
        };
        for round in 0..3 {
            for depth in [257usize, 300, 1000] {
                for kind in 0..4 {
                    let mut inp = vec![131u8];
                    for _ in 0..depth {
                        match kind {
                            0 => inp.extend_from_slice(&[108, 0, 0, 0, 1]),          // LIST_EXT, one element
                            1 => inp.extend_from_slice(&[104, 1]),                   // SMALL_TUPLE_EXT, one element
                            2 => inp.extend_from_slice(&[116, 0, 0, 0, 1, 97, 1]),   // MAP_EXT, one pair, the value nests
                            _ => inp.extend_from_slice(&[105, 0, 0, 0, 1]),          // LARGE_TUPLE_EXT
                        }
                    }
                    inp.push(106);
                    if kind == 0 { for _ in 0..depth { inp.push(106); } }
                    for _ in 0..(if round == 0 { 90 } else { 5 }) {
                        feed(&inp);
                    }
                }
            }
            for rec in vectors.iter().take(400) {
                let b = bytes_of(&rec["enc"]);
                if b.len() > 2 && b.len() < 4000 {
                    feed(&b[..b.len() / 2]);
                    feed(&b[..b.len() - 1]);
                    let mut m = b.clone();
                    m[1] = 0xFF;
                    feed(&m);
                }
            }
            // input that ends right after a tag, after a tag and one byte, ...: at the top and one level down, for every tag byte
            for t in 0..=255u8 {
                for tail in [&[][..], &[0][..], &[0, 0][..], &[0, 0, 0, 1][..]] {
                    let mut x = vec![131, t];
                    x.extend_from_slice(tail);
                    feed(&x);
                    let mut y = vec![131, 104, 2, 97, 1, t];
                    y.extend_from_slice(tail);
                    feed(&y);
                }
            }
            feed(&[131, 109, 255, 255, 255, 255, 1]);
            feed(&[131, 108, 255, 255, 255, 255]);
            feed(&[131, 80, 0, 0, 0, 9, 1, 2, 3]);
        }
        let mut changed = Vec::new();
        for (rec, (o1, b1)) in vectors.iter().zip(first.iter()) {
            let b = bytes_of(&rec["enc"]);
            let o2 = obs_owned(&b);
            let b2 = if do_borrowed { obs_borrowed(&b) } else { Value::Null };
            if (o2 != *o1 || b2 != *b1) && changed.len() < 20 {
                changed.push(json!({"id": rec["id"], "bytes": bytes_json(&b[..b.len().min(64)]), "before": o1, "after": o2, "borrowed_before": b1, "borrowed_after": b2}));
            }
        }
        for (b, (o1, b1)) in probes.iter().zip(probe_first.iter()) {
            let o2 = obs_owned(b);
            let b2 = if do_borrowed { obs_borrowed(b) } else { Value::Null };
            if (o2 != *o1 || b2 != *b1) && changed.len() < 25 {
                changed.push(json!({"id": "nesting probe", "bytes": bytes_json(&b[..b.len().min(24)]), "input_len": b.len(), "before": o1["ok"], "after": o2["ok"], "borrowed_before": b1.get("bor_ok"), "borrowed_after": b2.get("bor_ok")}));
            }
        }
        // the same for the encoder: after encodes that fail (an atom too long, more atoms than a header can list) and encodes of
        // other terms, every value must be encoded to the bytes it was encoded to before (all three encoder entry points)
        let enc3 = |t: &OwnedTerm| -> Value {
            let a = catch(|| erltf::encode(t).ok());
            let mut wb: Vec<u8> = Vec::new();
            let b_ = catch(|| erltf::encode_to_writer(t, &mut wb).is_ok());
            // (the header form lists its atoms in an order that is not fixed from call to call: only whether it succeeds is compared)
            let c = catch(|| erltf::encode_with_dist_header(t).is_ok());
            json!([a.ok().flatten().map(|b| bytes_json(&b)), b_.ok().map(|ok| if ok { bytes_json(&wb) } else { Value::Null }), c.ok()])
        };
        let with_enc = opts["history_enc"].as_bool().unwrap_or(false);
        let terms: Vec<Option<OwnedTerm>> = if with_enc { vectors.iter().map(|rec| catch(|| build(&rec["v"])).ok()).collect() } else { Vec::new() };
        let enc_first: Vec<Value> = terms.iter().map(|t| t.as_ref().map(|t| enc3(t)).unwrap_or(Value::Null)).collect();
        let mut failed_encodes = 0u64;
        for round in 0..(if with_enc { 3 } else { 0 }) {
            let long_atom = OwnedTerm::Atom(erltf::Atom::new(&"a".repeat(70_000 + round)));
            for wrap in 0..4 {
                let t = match wrap {
                    0 => long_atom.clone(),
                    1 => OwnedTerm::Tuple(vec![OwnedTerm::Integer(1), long_atom.clone()]),
                    2 => OwnedTerm::List(vec![OwnedTerm::Tuple(vec![long_atom.clone()])]),
                    _ => OwnedTerm::Map([(OwnedTerm::Integer(1), long_atom.clone())].into_iter().collect()),
                };
                for _ in 0..40 {
                    if !matches!(catch(|| erltf::encode(&t).is_ok()), Ok(true)) { failed_encodes += 1; }
                    let mut wb: Vec<u8> = Vec::new();
                    let _ = catch(|| erltf::encode_to_writer(&t, &mut wb).is_ok());
                    let _ = catch(|| erltf::encode_with_dist_header(&t).is_ok());
                }
            }
            let many = OwnedTerm::Tuple((0..300).map(|i| OwnedTerm::Atom(erltf::Atom::new(&format!("atom{i}")))).collect());
            for _ in 0..40 {
                if !matches!(catch(|| erltf::encode_with_dist_header(&many).is_ok()), Ok(true)) { failed_encodes += 1; }
            }
        }
        let mut changed_enc = Vec::new();
        for ((rec, t), e1) in vectors.iter().zip(terms.iter()).zip(enc_first.iter()) {
            if let Some(t) = t {
                let e2 = enc3(t);
                if e2 != *e1 && changed_enc.len() < 20 {
                    changed_enc.push(json!({"id": rec["id"], "value": rec["v"], "which_differ": (0..3).filter(|&i| e1[i] != e2[i]).map(|i| ["encode", "encode_to_writer", "encode_with_dist_header"][i]).collect::<Vec<_>>()}));
                }
            }
        }
        // ... nor on what other threads decode at the same time: eight threads decode a 100-level term (and encode it again) at once
        let conc_failures = {
            let mut b100 = vec![131u8];
            for _ in 0..100 { b100.extend_from_slice(&[104, 1]); }
            b100.push(106);
            let start = std::sync::Arc::new(std::sync::Barrier::new(8));
            let hs: Vec<_> = (0..8).map(|_| {
                let (b, st) = (b100.clone(), start.clone());
                std::thread::spawn(move || {
                    st.wait();
                    let mut bad = 0u64;
                    for _ in 0..300 {
                        let ok = catch(|| erltf::decode(&b).ok().and_then(|t| erltf::encode(&t).ok()) == Some(b.clone())).unwrap_or(false);
                        let okb = catch(|| erltf::decode_borrowed(&b).is_ok()).unwrap_or(false);
                        if !ok || !okb { bad += 1; }
                    }
                    bad
                })
            }).collect();
            hs.into_iter().map(|h| h.join().unwrap_or(300)).sum::<u64>()
        };
        w.put(&json!({"id": "__history__", "vectors": vectors.len(), "rejected_inputs_fed": rejected, "changed": changed, "failed_encodes": failed_encodes, "changed_enc": changed_enc,
                      "concurrent_failures": conc_failures}));
    }
    w.finish();
    0
}

// ---------------------------------------------------------------- random terms (B1')
pub fn gen_term(rng: &mut StdRng, depth: u32, budget: &mut i64) -> OwnedTerm {
    use erltf::types::{ExternalFun, InternalFun};
    use erltf::{Atom, BigInt, ExternalPid, ExternalPort, ExternalReference};
    *budget -= 1;
    let leaf_only = depth == 0 || *budget <= 0;
    let pick = if leaf_only { rng.random_range(0..11) } else { rng.random_range(0..17) };
    let atom = |rng: &mut StdRng| -> Atom {
        let n = match rng.random_range(0..10) { 0 => 0, 1 => 255, 2 => 256, 3 => 300, _ => rng.random_range(1..12) };
        let mut s = String::new();
        while s.len() < n {
            let c = match rng.random_range(0..8) { 0 => 'é', 1 => '€', 2 => '😀', _ => (b'a' + rng.random_range(0..26)) as char };
            if s.len() + c.len_utf8() > n { s.push('x'); } else { s.push(c); }
        }
        Atom::new(s)
    };
    let pid = |rng: &mut StdRng| ExternalPid::new(atom(rng), rng.random(), rng.random(), rng.random());
    match pick {
        0 => OwnedTerm::Integer(match rng.random_range(0..8) {
            0 => rng.random_range(0..256), 1 => rng.random_range(-300..300), 2 => i32::MAX as i64 + rng.random_range(-2..3),
            3 => i32::MIN as i64 + rng.random_range(-2..3), 4 => i64::MAX - rng.random_range(0..3), 5 => i64::MIN + rng.random_range(0..3),
            _ => rng.random() }),
        1 => {
            let n = match rng.random_range(0..6) { 0 => 9, 1 => 255, 2 => 256, 3 => 300, _ => rng.random_range(9..40) };
            let mut d: Vec<u8> = (0..n).map(|_| rng.random()).collect();
            if *d.last().unwrap() == 0 { *d.last_mut().unwrap() = 1; }
            OwnedTerm::BigInt(BigInt::new(rng.random::<bool>(), d))
        }
        2 => {
            let mut f = f64::from_bits(rng.random());
            if !f.is_finite() { f = -0.0; }
            OwnedTerm::Float(f)
        }
        3 => OwnedTerm::Atom(atom(rng)),
        4 => OwnedTerm::Binary((0..rng.random_range(0..40)).map(|_| rng.random()).collect()),
        5 => {
            let n = rng.random_range(1..10);
            let bits = rng.random_range(1..8u8);
            let mut b: Vec<u8> = (0..n).map(|_| rng.random()).collect();
            let last = b.len() - 1;
            b[last] &= 0xFFu8 << (8 - bits);
            OwnedTerm::BitBinary { bytes: b, bits }
        }
        6 => OwnedTerm::Nil,
        7 => OwnedTerm::Pid(pid(rng)),
        8 => OwnedTerm::Port(ExternalPort::new(atom(rng), rng.random(), rng.random())),
        9 => OwnedTerm::Reference(ExternalReference::new(atom(rng), rng.random(), (0..rng.random_range(0..6)).map(|_| rng.random()).collect())),
        10 => {
            if rng.random::<bool>() {
                OwnedTerm::ExternalFun(ExternalFun::new(atom(rng), atom(rng), rng.random()))
            } else {
                OwnedTerm::String("héllo wörld".chars().take(rng.random_range(0..11)).collect())
            }
        }
        11 | 12 => {
            let n = rng.random_range(0..6);
            OwnedTerm::Tuple((0..n).map(|_| gen_term(rng, depth - 1, budget)).collect())
        }
        13 => {
            let n = rng.random_range(1..6);
            OwnedTerm::List((0..n).map(|_| gen_term(rng, depth - 1, budget)).collect())
        }
        14 => {
            let n = rng.random_range(1..4);
            let tail = loop {
                let t = gen_term(rng, 0, budget);
                if !matches!(t, OwnedTerm::Nil) { break t; }
            };
            OwnedTerm::ImproperList { elements: (0..n).map(|_| gen_term(rng, depth - 1, budget)).collect(), tail: Box::new(tail) }
        }
        15 => {
            // keys: atoms and binaries with distinct content only (keeps the map free of the
            // order-dependent key merging that C11/C12 are about)
            let n = rng.random_range(0..5);
            let mut m = std::collections::BTreeMap::new();
            for i in 0..n {
                let k = if i % 2 == 0 { OwnedTerm::Atom(Atom::new(format!("k{i}"))) } else { OwnedTerm::Binary(vec![i as u8, 1]) };
                m.insert(k, gen_term(rng, depth - 1, budget));
            }
            OwnedTerm::Map(m)
        }
        _ => {
            let n = rng.random_range(0..3);
            let free: Vec<OwnedTerm> = (0..n).map(|_| gen_term(rng, depth - 1, budget)).collect();
            OwnedTerm::InternalFun(Box::new(InternalFun::new(rng.random(), rng.random(), rng.random(), n as u32, atom(rng), rng.random(), rng.random(), pid(rng), free)))
        }
    }
}

/// both decoders on raw inputs given by the driver
pub fn run_raw(args: &[String]) -> i32 {
    // etf-raw <in.ndjson {id, bytes}> <out.ndjson>
    quiet_panics();
    let recs = read_ndjson(&args[0]);
    let mut w = NdWriter::create(&args[1]);
    for r in recs.iter() {
        let b = bytes_of(&r["bytes"]);
        w.put(&json!({"id": r["id"], "own": obs_owned(&b), "bor": obs_borrowed(&b)}));
    }
    w.finish();
    0
}

pub fn run_random(args: &[String]) -> i32 {
    // etf-random <out.ndjson> <count> <seed> <max_depth> <budget>
    quiet_panics();
    let count: usize = args[1].parse().unwrap();
    let seed: u64 = args[2].parse().unwrap();
    let max_depth: u32 = args[3].parse().unwrap();
    let budget0: i64 = args[4].parse().unwrap();
    let mut rng = StdRng::seed_from_u64(seed);
    let mut w = NdWriter::create(&args[0]);
    for id in 0..count {
        let mut budget = budget0;
        let d = rng.random_range(1..=max_depth);
        let t = gen_term(&mut rng, d, &mut budget);
        let den = denote(&t);
        let mut o = serde_json::Map::new();
        o.insert("id".into(), json!(id));
        o.insert("den".into(), den);
        match catch(|| erltf::encode(&t)) {
            Ok(Ok(b)) => {
                o.insert("bytes".into(), bytes_json(&b));
                o.insert("dec_lib".into(), obs_owned(&b));
                o.insert("bor_lib".into(), obs_borrowed(&b));
            }
            Ok(Err(e)) => {
                o.insert("enc_err".into(), json!(format!("{e:?}")));
            }
            Err(p) => {
                o.insert("enc_panic".into(), json!(p));
            }
        }
        w.put(&Value::Object(o));
    }
    w.finish();
    0
}

// ---------------------------------------------------------------- C10: identifier identity
pub fn run_id_twins(args: &[String]) -> i32 {
    // id-twins <in.ndjson> <out.ndjson>
    use std::collections::hash_map::DefaultHasher;
    use std::collections::{BTreeSet, HashSet};
    use std::hash::{Hash, Hasher};
    quiet_panics();
    let recs = read_ndjson(&args[0]);
    let mut w = NdWriter::create(&args[1]);
    let h = |t: &OwnedTerm| -> u64 {
        let mut s = DefaultHasher::new();
        t.hash(&mut s);
        s.finish()
    };
    for rec in recs.iter() {
        let id = rec["id"].clone();
        let r = catch(|| {
            let mut out = Vec::new();
            // pairs: (decoded from the wire, decoded twin), (application-built, built twin), (decoded, built twin)
            let a_dec = erltf::decode(&bytes_of(&rec["enc"]));
            let b_dec = erltf::decode(&bytes_of(&rec["twin_enc"]));
            let a_built = build(&rec["v"]);
            let b_built = build(&rec["twin"]);
            let mut pairs: Vec<(&str, OwnedTerm, OwnedTerm)> = vec![("built/built", a_built.clone(), b_built.clone())];
            if let (Ok(a), Ok(b)) = (&a_dec, &b_dec) {
                pairs.push(("decoded/decoded", a.clone(), b.clone()));
                pairs.push(("decoded/built", a.clone(), b_built.clone()));
            } else {
                out.push(json!({"pair": "decoded/decoded", "decode_failed": true}));
            }
            // a map keyed by both identifiers, from the spec's bytes: how many entries survive each decoder
            let map_enc = bytes_of(&rec["map_enc"]);
            if !map_enc.is_empty() {
                let owned_len = erltf::decode(&map_enc).ok().and_then(|t| if let OwnedTerm::Map(m) = t { Some(m.len()) } else { None });
                let bor_len = erltf::decode_borrowed(&map_enc).ok().map(|t| t.to_owned()).and_then(|t| if let OwnedTerm::Map(m) = t { Some(m.len()) } else { None });
                out.push(json!({"pair": "map", "owned_entries": owned_len, "borrowed_entries": bor_len}));
            }
            for (name, a, b) in pairs {
                let ba = BorrowedTerm::from(&a);
                let bb = BorrowedTerm::from(&b);
                let mut hs = HashSet::new();
                hs.insert(a.clone());
                let mut bs = BTreeSet::new();
                bs.insert(a.clone());
                out.push(json!({
                    "pair": name,
                    "eq": a == b, "eq_rev": b == a,
                    "hash_eq": h(&a) == h(&b),
                    "cmp": format!("{:?}", a.cmp(&b)), "cmp_rev": format!("{:?}", b.cmp(&a)),
                    "bor_eq": ba == bb, "bor_cmp": format!("{:?}", ba.cmp(&bb)),
                    "hashset_finds": hs.contains(&b), "btreeset_finds": bs.contains(&b),
                }));
            }
            out
        });
        match r {
            Ok(o) => w.put(&json!({"id": id, "obs": o})),
            Err(p) => w.put(&json!({"id": id, "panic": p})),
        }
    }
    w.finish();
    0
}

/// an io::Write that accepts at most `per_call` bytes per call and `cap` bytes in all (then reports 0 bytes written)
struct ShortWriter { got: Vec<u8>, per_call: usize, cap: usize }
impl std::io::Write for ShortWriter {
    fn write(&mut self, buf: &[u8]) -> std::io::Result<usize> {
        let n = buf.len().min(self.per_call).min(self.cap - self.got.len());
        self.got.extend_from_slice(&buf[..n]);
        Ok(n)
    }
    fn flush(&mut self) -> std::io::Result<()> { Ok(()) }
}
