//! C07 / C06 at Connection level: a real Connection handshakes with the scripted peer; (send) every
//! operation of spec/gen/Gen_Conn is issued and the raw frames seen by the peer are recorded; concurrent
//! senders through one Node with a task parked between the partial writes of its frame; (receive) frame
//! sequences from the peer are read with Connection::receive_message.
use crate::io::{NdWriter, read_ndjson};
use crate::nodeenv::*;
use crate::rpc::connect_peer;
use crate::term_json::{build, bytes_json, bytes_of, denote};
use edp_client::flags::DistributionFlags;
use edp_client::{Connection, ConnectionConfig, verif};
use edp_node::Node;
use erltf::{Atom, ExternalPid, OwnedTerm};
use serde_json::{Value, json};
use std::sync::{Arc, Mutex};
use std::time::Duration;
use tokio::io::AsyncWriteExt;
use tokio::net::TcpListener;

const LOCAL: &str = "n1@127.0.0.1";
const PEER: &str = "peer@127.0.0.1";
const HDR_FLAG: u64 = 0x2000;

pub struct ConnPeer {
    pub conn: Connection,
    pub peer: PeerConn,
}

pub async fn connected_pair(listener: &TcpListener, header_mode: bool) -> Option<ConnPeer> {
    connected_pair_flags(listener, header_mode, header_mode).await
}

/// each side offers the distribution-header capability or not; the negotiated mode is header mode only if both do
pub async fn connected_pair_flags(listener: &TcpListener, ours_hdr: bool, peer_hdr: bool) -> Option<ConnPeer> {
    let flags = if ours_hdr { PEER_FLAGS | HDR_FLAG } else { PEER_FLAGS };
    let peer_flags = if peer_hdr { PEER_FLAGS | HDR_FLAG } else { PEER_FLAGS };
    let cfg = ConnectionConfig::new(LOCAL, PEER, COOKIE).with_flags(DistributionFlags::new(flags)).with_epmd_host("127.0.0.1").with_timeout(Duration::from_millis(1500));
    let mut conn = Connection::new(cfg);
    let acc = async {
        let (s, _) = listener.accept().await.ok()?;
        accept_handshake(s, PEER, peer_flags).await
    };
    let (pc, r) = tokio::join!(acc, conn.connect());
    r.ok()?;
    Some(ConnPeer { conn, peer: pc? })
}

/// a connection whose handshake was refused by the peer (status "not_allowed", or a wrong digest in the acknowledgement) while
/// the socket stays open: returns the connection, what connect() said, and the peer's socket to watch for stray bytes
pub async fn refused_pair(listener: &TcpListener, how: &str) -> Option<(Connection, bool, tokio::net::TcpStream)> {
    use tokio::io::{AsyncReadExt, AsyncWriteExt};
    let cfg = ConnectionConfig::new(LOCAL, PEER, COOKIE).with_epmd_host("127.0.0.1").with_timeout(Duration::from_millis(1500));
    let mut conn = Connection::new(cfg);
    let how = how.to_string();
    let acc = async {
        let (mut s, _) = listener.accept().await.ok()?;
        let mut l = [0u8; 2];
        s.read_exact(&mut l).await.ok()?;
        let mut name = vec![0u8; u16::from_be_bytes(l) as usize];
        s.read_exact(&mut name).await.ok()?;
        if how == "not_allowed" {
            let st = b"snot_allowed";
            let mut f = (st.len() as u16).to_be_bytes().to_vec();
            f.extend_from_slice(st);
            s.write_all(&f).await.ok()?;
        } else {
            // ok + challenge, then an acknowledgement with a wrong digest
            s.write_all(&[0, 3, b's', b'o', b'k']).await.ok()?;
            let mut c = vec![b'N'];
            c.extend_from_slice(&PEER_FLAGS.to_be_bytes());
            c.extend_from_slice(&0x01020304u32.to_be_bytes());
            c.extend_from_slice(&1u32.to_be_bytes());
            c.extend_from_slice(&(PEER.len() as u16).to_be_bytes());
            c.extend_from_slice(PEER.as_bytes());
            let mut f = (c.len() as u16).to_be_bytes().to_vec();
            f.extend_from_slice(&c);
            s.write_all(&f).await.ok()?;
            // the initiator's reply (possibly preceded by a complement message)
            for _ in 0..2 {
                s.read_exact(&mut l).await.ok()?;
                let mut b = vec![0u8; u16::from_be_bytes(l) as usize];
                s.read_exact(&mut b).await.ok()?;
                if b.first() == Some(&b'r') {
                    break;
                }
            }
            let mut a = vec![b'a'];
            a.extend_from_slice(&[0u8; 16]);
            let mut f = (a.len() as u16).to_be_bytes().to_vec();
            f.extend_from_slice(&a);
            s.write_all(&f).await.ok()?;
        }
        s.flush().await.ok()?;
        Some(s)
    };
    let (s, r) = tokio::join!(acc, conn.connect());
    Some((conn, r.is_ok(), s?))
}

fn pid_of(v: &Value) -> ExternalPid {
    match build(v) {
        OwnedTerm::Pid(p) => p,
        _ => ExternalPid::new(Atom::new("x@y"), 0, 0, 0),
    }
}

async fn issue(conn: &mut Connection, op: &Value) -> Result<(), String> {
    let a = pid_of(&op["a"]);
    let r = match op["op"].as_str().unwrap_or("") {
        "send" => conn.send_message(a, pid_of(&op["b"]), payload_of(op)).await,
        "send_to_name" => match build(&op["b"]) {
            OwnedTerm::Atom(n) => conn.send_to_name(a, n, payload_of(op)).await,
            _ => return Err("bad name".into()),
        },
        "link" => conn.link(&a, &pid_of(&op["b"])).await,
        "unlink" => {
            let mag = bytes_of(&op["c"]["mag"]);
            let mut id: u64 = 0;
            for (i, d) in mag.iter().enumerate() {
                id |= (*d as u64) << (8 * i);
            }
            conn.unlink(&a, &pid_of(&op["b"]), id).await
        }
        "monitor" | "demonitor" => {
            let r = match build(&op["c"]) {
                OwnedTerm::Reference(r) => r,
                _ => return Err("bad ref".into()),
            };
            if op["op"] == "monitor" { conn.monitor(&a, &pid_of(&op["b"]), &r).await } else { conn.demonitor(&a, &pid_of(&op["b"]), &r).await }
        }
        _ => return Err("unknown op".into()),
    };
    r.map_err(|e| format!("{e:?}"))
}

/// the payload of an operation; "inflate": n stands for a binary of n bytes of value 7 (frames larger than the socket buffers)
fn payload_of(op: &Value) -> OwnedTerm {
    match op["inflate"].as_u64() {
        Some(n) => OwnedTerm::Binary(vec![7u8; n as usize]),
        None => build(&op["c"]),
    }
}

/// a frame as JSON; frames beyond 64 KiB are summarised: head, total length and the length of the trailing run of 7s
fn frame_json(f: &[u8]) -> Value {
    if f.len() <= 65536 {
        return bytes_json(f);
    }
    let run = f.iter().rev().take_while(|b| **b == 7).count();
    json!({"big": true, "len": f.len(), "head": bytes_json(&f[..f.len().min(f.len() - run + 8).min(400)]), "run_of_7": run})
}

pub fn run_send(args: &[String]) -> i32 {
    // conn-send <ops.ndjson> <out.ndjson>
    let ops = read_ndjson(&args[0]);
    let rt = tokio::runtime::Builder::new_multi_thread().worker_threads(4).enable_all().build().expect("rt");
    let mut w = NdWriter::create(&args[1]);
    rt.block_on(async {
        let listener = TcpListener::bind("127.0.0.1:0").await.expect("bind");
        let (epmd_port, _epmd) = fake_epmd(listener.local_addr().unwrap().port()).await;
        verif::set_epmd_port(epmd_port);
        // operations before the handshake completes fail without writing (there is no socket to write to)
        for op in ops.iter().take(12) {
            let mut c = Connection::new(ConnectionConfig::new(LOCAL, PEER, COOKIE).with_epmd_host("127.0.0.1"));
            let r = issue(&mut c, op).await;
            w.put(&json!({"id": op["id"], "mode": "unconnected", "result_ok": r.is_ok(), "frames": []}));
        }
        // operations after a handshake the peer refused, on the still open socket: must fail and write nothing
        for how in ["not_allowed", "bad_ack"] {
            use tokio::io::AsyncReadExt;
            let Some((mut c, connected, mut sock)) = refused_pair(&listener, how).await else {
                w.put(&json!({"tool_error": "refused handshake scenario did not run"}));
                return;
            };
            for op in ops.iter().take(12) {
                let r = issue(&mut c, op).await;
                let mut buf = [0u8; 256];
                let stray = match tokio::time::timeout(Duration::from_millis(25), sock.read(&mut buf)).await {
                    Ok(Ok(n)) if n > 0 => n,
                    _ => 0,
                };
                w.put(&json!({"id": op["id"], "mode": format!("refused:{how}"), "connect_ok": connected, "result_ok": r.is_ok(), "stray_bytes_on_the_wire": stray, "frames": []}));
            }
        }
        // the capability offered by one side only: the negotiated mode is pass-through
        for (ours, theirs) in [(true, false), (false, true)] {
            let Some(mut cp) = connected_pair_flags(&listener, ours, theirs).await else {
                w.put(&json!({"tool_error": "could not connect (one-sided offer)"}));
                return;
            };
            for op in ops.iter().filter(|o| o["inflate"].is_null()).step_by(9) {
                let r = issue(&mut cp.conn, op).await;
                let mut frames: Vec<Value> = Vec::new();
                loop {
                    match tokio::time::timeout(Duration::from_millis(if frames.is_empty() && r.is_ok() { 500 } else { 8 }), read_dist_frame(&mut cp.peer.rd)).await {
                        Ok(Some(f)) => frames.push(frame_json(&f)),
                        _ => break,
                    }
                }
                w.put(&json!({"id": op["id"], "mode": "pass_through", "offer": if ours { "ours_only" } else { "peer_only" }, "result_ok": r.is_ok(), "err": r.err(), "frames": frames}));
            }
        }
        for header_mode in [false, true] {
            let Some(mut cp) = connected_pair(&listener, header_mode).await else {
                w.put(&json!({"tool_error": "could not connect"}));
                return;
            };
            let mut failed_before = 0usize;
            for (oi, op) in ops.iter().enumerate() {
                let big = op["inflate"].as_u64().is_some();
                let mut frames: Vec<Value> = Vec::new();
                // every third operation comes after operations that fail (or may fail) in the encoder: a payload holding an atom that
                // is too long, and one with more distinct atoms than a distribution header can list.  Whatever those wrote is read and
                // set aside; the operation proper must then put exactly its own frame on the wire
                if oi % 3 == 1 && !big {
                    let a = pid_of(&op["a"]);
                    let long_atom = OwnedTerm::Tuple(vec![OwnedTerm::Atom(Atom::new(&"x".repeat(70_000)))]);
                    let many = OwnedTerm::Tuple((0..300).map(|i| OwnedTerm::Atom(Atom::new(&format!("atom_{i}")))).collect());
                    for bad in [long_atom, many] {
                        let rb = cp.conn.send_message(a.clone(), a.clone(), bad).await;
                        if rb.is_err() {
                            failed_before += 1;
                        }
                        while let Ok(Some(_)) = tokio::time::timeout(Duration::from_millis(if rb.is_ok() { 300 } else { 8 }), read_dist_frame(&mut cp.peer.rd)).await {
                            if rb.is_ok() {
                                break;
                            }
                        }
                    }
                }
                let r;
                if big {
                    // the frame is larger than the socket buffers: the peer starts reading only after they have filled,
                    // while the operation is still in progress
                    let conn = &mut cp.conn;
                    let rd = &mut cp.peer.rd;
                    let (r0, fs) = tokio::join!(issue(conn, op), async {
                        tokio::time::sleep(Duration::from_millis(150)).await;
                        let mut fs = Vec::new();
                        loop {
                            match tokio::time::timeout(Duration::from_millis(1500), read_dist_frame(rd)).await {
                                Ok(Some(f)) => fs.push(frame_json(&f)),
                                _ => break,
                            }
                        }
                        fs
                    });
                    r = r0;
                    frames = fs;
                } else {
                    r = issue(&mut cp.conn, op).await;
                    // everything the operation wrote: read frames until the line stays quiet
                    loop {
                        match tokio::time::timeout(Duration::from_millis(if frames.is_empty() && r.is_ok() { 500 } else { 8 }), read_dist_frame(&mut cp.peer.rd)).await {
                            Ok(Some(f)) => frames.push(frame_json(&f)),
                            _ => break,
                        }
                    }
                }
                w.put(&json!({"id": op["id"], "mode": if header_mode { "header" } else { "pass_through" }, "result_ok": r.is_ok(), "err": r.err(), "frames": frames,
                              "after_failed_operations": oi % 3 == 1 && !big}));
            }
            w.put(&json!({"id": -1, "mode": if header_mode { "header" } else { "pass_through" }, "failed_operations_injected": failed_before}));
        }
        // a peer that stops reading for longer than the connection's timeout while a frame larger than the socket buffers is being
        // written, then reads again: whatever the operations returned, what the peer reads must be whole frames, one per operation that
        // reported success (Connection.tla: FramesIntact -- an operation does not return, with or without an error, between two writes
        // of its frame while the connection stays usable)
        for header_mode in [false, true] {
            let Some(mut cp) = connected_pair(&listener, header_mode).await else {
                w.put(&json!({"tool_error": "could not connect (stalled peer)"}));
                return;
            };
            let a = ExternalPid::new(Atom::new(LOCAL), 1, 0, 1);
            let b = ExternalPid::new(Atom::new(PEER), 2, 0, 1);
            let big = OwnedTerm::Binary(vec![7u8; 24 * 1024 * 1024]);
            let conn = &mut cp.conn;
            let rd = &mut cp.peer.rd;
            let (rs, frames) = tokio::join!(
                async {
                    let r1 = conn.send_message(a.clone(), b.clone(), big).await.map_err(|e| format!("{e:?}").chars().take(60).collect::<String>());
                    let r2 = conn.link(&a, &b).await.map_err(|e| format!("{e:?}").chars().take(60).collect::<String>());
                    let r3 = conn.send_message(a.clone(), b.clone(), OwnedTerm::Integer(5)).await.map_err(|e| format!("{e:?}").chars().take(60).collect::<String>());
                    vec![r1, r2, r3]
                },
                async {
                    tokio::time::sleep(Duration::from_millis(2600)).await;
                    let mut fs: Vec<Value> = Vec::new();
                    let mut torn = Value::Null;
                    loop {
                        use tokio::io::AsyncReadExt;
                        let mut l = [0u8; 4];
                        match tokio::time::timeout(Duration::from_millis(2500), rd.read_exact(&mut l)).await {
                            Ok(Ok(_)) => {}
                            _ => break,
                        }
                        let n = u32::from_be_bytes(l) as usize;
                        let mut body = vec![0u8; n.min(64 * 1024 * 1024)];
                        let mut got = 0usize;
                        let t0 = std::time::Instant::now();
                        while got < body.len() && t0.elapsed() < Duration::from_millis(4000) {
                            match tokio::time::timeout(Duration::from_millis(1500), rd.read(&mut body[got..])).await {
                                Ok(Ok(k)) if k > 0 => got += k,
                                _ => break,
                            }
                        }
                        if got < body.len() || n > 64 * 1024 * 1024 {
                            torn = json!({"announced": n, "arrived": got});
                            break;
                        }
                        fs.push(frame_json(&body));
                    }
                    (fs, torn)
                }
            );
            let (fs, torn) = frames;
            w.put(&json!({"id": -2, "mode": if header_mode { "header" } else { "pass_through" }, "stalled_peer": true,
                          "results": rs.iter().map(|r| match r { Ok(()) => json!("ok"), Err(e) => json!(e) }).collect::<Vec<_>>(),
                          "frames": fs, "stream_ends_inside_a_frame": torn, "state_after": format!("{:?}", cp.conn.state())}));
        }
    });
    w.finish();
    0
}

/// concurrent senders through one Node; optionally one task is parked between the partial writes of its frame
pub fn run_conc(args: &[String]) -> i32 {
    // conn-conc <scenarios.ndjson> <out.ndjson>
    let scenarios = read_ndjson(&args[0]);
    let rt = tokio::runtime::Builder::new_multi_thread().worker_threads(4).enable_all().build().expect("rt");
    let mut w = NdWriter::create(&args[1]);
    rt.block_on(async {
        let sched = AsyncSched::install();
        sched.only(&["send."]);
        sched.set_free_run(true);
        let listener = TcpListener::bind("127.0.0.1:0").await.expect("bind");
        let (epmd_port, _epmd) = fake_epmd(listener.local_addr().unwrap().port()).await;
        verif::set_epmd_port(epmd_port);
        let mut node = Node::new(LOCAL, COOKIE);
        if node.start(0).await.is_err() {
            return;
        }
        let node = Arc::new(node);
        let Some(mut peer) = connect_peer(&node, &listener).await else { return };
        let remote = ExternalPid::new(Atom::new(PEER), 5, 0, 1);
        for sc in scenarios.iter() {
            peer.frames.lock().unwrap().clear();
            let tasks = sc["tasks"].as_u64().unwrap_or(2);
            let per = sc["per_task"].as_u64().unwrap_or(3);
            let gate = sc["gate"].as_str().unwrap_or("").to_string();
            // callers that never give way between their sends (nothing in the statement lets a caller's order depend on that)
            let yields = sc["yield"].as_bool().unwrap_or(true);
            let mut notes: Vec<String> = Vec::new();
            let mk_msg = |t: u64, k: u64| -> OwnedTerm {
                let size = ((t * 37 + k * 101) % 5) * 300;
                OwnedTerm::Tuple(vec![OwnedTerm::Integer(t as i64), OwnedTerm::Integer(k as i64), OwnedTerm::Binary(vec![(t * 16 + k) as u8; size as usize])])
            };
            let mut blocked_ok = Value::Null;
            if !gate.is_empty() {
                // task 1 is parked inside its frame; task 2 must not be able to put a single byte on the wire meanwhile
                sched.set_free_run(false);
                let n1 = node.clone();
                let r1 = remote.clone();
                let m1 = mk_msg(1, 1);
                let h1 = tokio::spawn(ACTOR.scope("t1".to_string(), async move { n1.send(&r1, m1).await.is_ok() }));
                let mut reached = false;
                for _ in 0..4 {
                    match sched.wait_parked("t1", Duration::from_millis(800)).await {
                        Some((l, _)) if l == gate => {
                            reached = true;
                            break;
                        }
                        Some(_) => {
                            sched.release("t1");
                        }
                        None => break,
                    }
                }
                if !reached {
                    notes.push(format!("task 1 did not reach {gate}"));
                }
                let n2 = node.clone();
                let r2 = remote.clone();
                let m2 = mk_msg(2, 1);
                let h2 = tokio::spawn(ACTOR.scope("t2".to_string(), async move { n2.send(&r2, m2).await.is_ok() }));
                tokio::time::sleep(Duration::from_millis(40)).await;
                let t2_parked = sched.parked_at("t2").is_some();
                let t2_done = h2.is_finished();
                let frames_meanwhile = peer.frames.lock().unwrap().len();
                blocked_ok = json!({"t2_reached_a_write_point": t2_parked, "t2_finished": t2_done, "complete_frames_seen_meanwhile": frames_meanwhile});
                sched.set_free_run(true);
                let _ = h1.await;
                let _ = h2.await;
            }
            // free-running concurrent senders
            let mut hs = Vec::new();
            for t in 1..=tasks {
                let n = node.clone();
                let r = remote.clone();
                let first = if gate.is_empty() { 1 } else { 2 };
                let msgs: Vec<OwnedTerm> = (first..=per).map(|k| mk_msg(t, k)).collect();
                hs.push(tokio::spawn(async move {
                    let mut ok = 0;
                    for m in msgs {
                        if n.send(&r, m).await.is_ok() {
                            ok += 1;
                        }
                        if yields {
                            tokio::task::yield_now().await;
                        }
                    }
                    ok
                }));
            }
            let mut sent_ok = 0;
            for h in hs {
                sent_ok += h.await.unwrap_or(0);
            }
            let want = (tasks * per) as usize;
            let f2 = peer.frames.clone();
            let t0 = std::time::Instant::now();
            while f2.lock().unwrap().len() < want && t0.elapsed() < Duration::from_millis(if want > 200 { 15_000 } else { 1500 }) {
                tokio::time::sleep(Duration::from_millis(2)).await;
            }
            let frames: Vec<Value> = peer.frames.lock().unwrap().iter().map(|f| bytes_json(f)).collect();
            w.put(&json!({"id": sc["id"], "tasks": tasks, "per_task": per, "gate": gate, "sent_ok": sent_ok, "frames": frames, "blocked": blocked_ok, "notes": notes,
                          "connection_alive": node.connections().contains_key(PEER)}));
        }
        sched.uninstall();
    });
    w.finish();
    0
}

/// C06: the peer writes frame bodies (with the given segmentation); receive_message is called until nothing more comes
pub fn run_recv(args: &[String]) -> i32 {
    // conn-recv <scenarios.ndjson> <out.ndjson>
    let scenarios = read_ndjson(&args[0]);
    let rt = tokio::runtime::Builder::new_multi_thread().worker_threads(4).enable_all().build().expect("rt");
    let mut w = NdWriter::create(&args[1]);
    rt.block_on(async {
        let listener = TcpListener::bind("127.0.0.1:0").await.expect("bind");
        let (epmd_port, _epmd) = fake_epmd(listener.local_addr().unwrap().port()).await;
        verif::set_epmd_port(epmd_port);
        for sc in scenarios.iter() {
            let header_mode = sc["header_mode"].as_bool().unwrap_or(false);
            let Some(mut cp) = connected_pair(&listener, header_mode).await else {
                w.put(&json!({"id": sc["id"], "tool_error": "could not connect"}));
                continue;
            };
            let mut frames: Vec<Vec<u8>> = sc["frames"].as_array().map(|a| a.iter().map(|f| bytes_of(&f["bytes"])).collect()).unwrap_or_default();
            // "big": n -- the scenario is a SEND whose payload is a binary of n bytes, a tick, and a small SEND (pass-through form)
            let big_n = sc["big"].as_u64().unwrap_or(0) as usize;
            let big_payload = OwnedTerm::Binary((0..big_n).map(|i| (i % 251) as u8).collect());
            if big_n > 0 {
                let ctl = OwnedTerm::Tuple(vec![OwnedTerm::Integer(2), OwnedTerm::Atom(Atom::new("")), OwnedTerm::Pid(ExternalPid::new(Atom::new("n1@127.0.0.1"), 9, 0, 77))]);
                frames = vec![pass_through(&ctl, Some(&big_payload)), Vec::new(), pass_through(&ctl, Some(&OwnedTerm::Integer(42)))];
            }
            let cut = sc["cut"].as_u64().unwrap_or(0) as usize;
            let via_read_half = sc["via_read_half"].as_bool().unwrap_or(false);
            // the whole byte stream, written in pieces of `cut` bytes (0 = frame by frame)
            let mut stream: Vec<u8> = Vec::new();
            // "soak": before the scenario's frames the peer sends, `soak` times over, every proper prefix of every one of them as
            // a frame of its own (malformed frames of every shape the messages can be cut into); what those yield is not recorded
            let soak = sc["soak"].as_u64().unwrap_or(0);
            let mut n_junk = 0usize;
            // (prefixes of fragment frames would leave pieces in the assembler under the sequence ids the scenario uses: those come
            // from the frames of another scenario, "junk_from", whose sequences the scenario proper does not use)
            let junk_from: Vec<Vec<u8>> = sc["junk_from"].as_array().map(|a| a.iter().map(|f| bytes_of(&f["bytes"])).collect()).unwrap_or_default();
            // ... and, once, the scenario's first frame with every other value in its first byte (the frame kind) and, where that byte
            // stays, in its second (69 / 70 would open fragment sequences: left to the fragment scenarios)
            if soak > 0 {
                if let Some(f) = frames.iter().find(|f| f.len() > 2) {
                    for pos in 0..2usize {
                        for b in 0..=255u8 {
                            if b == f[pos] || (pos == 1 && header_mode && (b == 69 || b == 70)) {
                                continue;
                            }
                            let mut g = f.clone();
                            g[pos] = b;
                            stream.extend_from_slice(&(g.len() as u32).to_be_bytes());
                            stream.extend_from_slice(&g);
                            n_junk += 1;
                        }
                    }
                }
            }
            for _ in 0..soak {
                for f in frames.iter().chain(junk_from.iter()) {
                    for k in 1..f.len() {
                        stream.extend_from_slice(&(k as u32).to_be_bytes());
                        stream.extend_from_slice(&f[..k]);
                        n_junk += 1;
                    }
                }
            }
            for f in frames.iter() {
                stream.extend_from_slice(&(f.len() as u32).to_be_bytes());
                stream.extend_from_slice(f);
            }
            // after a soak one more well-formed message: a SEND whose payload nests 250 lists deep (within what the decoder accepts)
            let deep_payload = {
                let mut t = OwnedTerm::Nil;
                for _ in 0..250 {
                    t = OwnedTerm::List(vec![t]);
                }
                t
            };
            if soak > 0 {
                let ctl = OwnedTerm::Tuple(vec![OwnedTerm::Integer(2), OwnedTerm::Atom(Atom::new("")),
                                                OwnedTerm::Pid(erltf::types::ExternalPid::new(Atom::new("n1@127.0.0.1"), 9, 0, 77))]);
                let f = if header_mode { erltf::encode_with_dist_header_multi(&[&ctl, &deep_payload]).unwrap_or_default() } else { pass_through(&ctl, Some(&deep_payload)) };
                stream.extend_from_slice(&(f.len() as u32).to_be_bytes());
                stream.extend_from_slice(&f);
            }
            let mut wr = cp.peer.wr;
            // "slow": the peer idles for 60 % of the receiver's read timeout, sends the length prefix of the first frame alone,
            // pauses for another 60 %, then sends the rest: no single wait exceeds the timeout
            let slow = sc["slow"].as_bool().unwrap_or(false);
            let writer = tokio::spawn(async move {
                if slow && stream.len() > 4 {
                    // read timeout 1000 ms in these scenarios: 400 ms of slack for a loaded machine
                    tokio::time::sleep(Duration::from_millis(600)).await;
                    let _ = wr.write_all(&stream[..4]).await;
                    let _ = wr.flush().await;
                    tokio::time::sleep(Duration::from_millis(600)).await;
                    let _ = wr.write_all(&stream[4..]).await;
                    let _ = wr.flush().await;
                } else if cut == 0 {
                    let _ = wr.write_all(&stream).await;
                    let _ = wr.flush().await;
                } else {
                    for c in stream.chunks(cut) {
                        let _ = wr.write_all(c).await;
                        let _ = wr.flush().await;
                        tokio::time::sleep(Duration::from_micros(300)).await;
                    }
                }
                // keep the stream open a little, then close it
                tokio::time::sleep(Duration::from_millis(15)).await;
                let _ = wr.shutdown().await;
            });
            let results: Arc<Mutex<Vec<Value>>> = Arc::new(Mutex::new(Vec::new()));
            let r2 = results.clone();
            let mut conn = cp.conn;
            let n_frames = frames.len();
            let reader = tokio::spawn(async move {
                let mut rh = if via_read_half { conn.take_read_half() } else { None };
                for call in 0..(n_junk + n_frames + 3) {
                    let r = match rh.as_mut() {
                        Some(h) => Connection::receive_message_from_read_half(h, Duration::from_millis(if slow { 1000 } else { 2000 })).await,
                        // (the outer limit is the harness' own patience, not a read timeout of the library)
                        None => match tokio::time::timeout(Duration::from_millis(if slow { 3000 } else { 2500 }), conn.receive_message()).await {
                            Ok(r) => r,
                            Err(_) => {
                                r2.lock().unwrap().push(json!({"k": "quiet"}));
                                break;
                            }
                        },
                    };
                    if n_junk > 0 {
                        // soak: how many results the malformed frames yield is not fixed (a prefix may be a complete message, a
                        // tick, a fragment); everything is read to the end of the stream and only the tail is kept
                        let _ = call;
                        let mut g = r2.lock().unwrap();
                        if g.len() > n_frames + 8 {
                            g.remove(0);
                        }
                    }
                    match r {
                        Ok((ctl, msg)) => r2.lock().unwrap().push(json!({"k": "msg", "control": denote(&ctl.to_term()), "payload": msg.as_ref().map(denote)})),
                        Err(e) => {
                            let s = format!("{e:?}");
                            let end = s.starts_with("Io(") || s.starts_with("Timeout") || s.starts_with("ConnectionClosed") || s.starts_with("UnexpectedEof") || s.starts_with("MessageTooLarge");
                            r2.lock().unwrap().push(json!({"k": if end { "end" } else { "err" }, "detail": s.chars().take(120).collect::<String>()}));
                            if end {
                                break;
                            }
                        }
                    }
                }
            });
            let joined = reader.await;
            writer.abort();
            let panicked = joined.is_err();
            let mut res = results.lock().unwrap().clone();
            if big_n > 0 {
                // report the outcome, not the 200 kB
                let msgs: Vec<&Value> = res.iter().filter(|r| r["k"] == "msg").collect();
                let big_ok = msgs.first().map(|m| m["payload"] == denote(&big_payload)).unwrap_or(false);
                let small_ok = msgs.get(1).map(|m| m["payload"] == denote(&OwnedTerm::Integer(42))).unwrap_or(false);
                let kinds: Vec<Value> = res.iter().map(|r| if r["k"] == "msg" { json!("msg") } else { json!([r["k"], r["detail"]]) }).collect();
                w.put(&json!({"id": sc["id"], "big": big_n, "big_delivered_intact": big_ok, "following_message_delivered_intact": small_ok, "messages_returned": msgs.len(), "results": kinds, "panicked": panicked}));
                continue;
            }
            let mut deep_delivered = Value::Null;
            if soak > 0 {
                // the last message-or-error result belongs to the deep message
                let last = res.iter().rposition(|r| r["k"] == "msg" || r["k"] == "err");
                deep_delivered = json!(last.map(|i| res[i]["k"] == "msg" && res[i]["payload"] == denote(&deep_payload)).unwrap_or(false));
                if let Some(i) = last {
                    res.remove(i);
                }
            }
            w.put(&json!({"id": sc["id"], "results": res, "panicked": panicked, "deep_delivered": deep_delivered}));
        }
    });
    w.finish();
    0
}
