//! C15: serde round trips (to_term/from_term and to_bytes/from_bytes) over the typed universe of
//! spec/Serde.tla.  Each record carries a type name of the family below and a plain JSON rendering
//! of the value (made by the driver from the spec's tagged tree); the value is materialised with
//! serde_json, sent through erltf_serde, and compared with itself.
use crate::io::{NdWriter, catch, quiet_panics, read_ndjson};
use erltf_serde::ElixirStruct;
use serde::de::DeserializeOwned;
use serde::{Deserialize, Serialize};
use serde_json::{Value, json};
use std::collections::{BTreeMap, HashMap};
use std::fmt::Debug;

#[derive(Debug, Clone, PartialEq, Serialize, Deserialize)]
struct Plain {
    a: i64,
    b: String,
    c: Option<u8>,
    d: Vec<i32>,
}

#[derive(Debug, Clone, PartialEq, Serialize, Deserialize)]
enum Shape {
    Unit,
    Newtype(i64),
    Tuple(i32, String),
    Struct { x: u64, y: f64 },
}

#[derive(Debug, Clone, PartialEq, Serialize, Deserialize)]
struct Nested {
    inner: Plain,
    list: Vec<Plain>,
    tag: Shape,
}

/// variants whose payload is itself tuple-, list-, map- or atom-shaped once serialised
#[derive(Debug, Clone, PartialEq, Serialize, Deserialize)]
enum Outer {
    Leaf,
    Wrap(Shape),
    Coords((i64, i64)),
    Single((i64,)),
    Maybe(Option<Shape>),
    Items(Vec<i64>),
    Rec(Plain),
    Table(BTreeMap<String, i64>),
    Boxed(Box<Outer>),
    Pair(Shape, Shape),
    Named { inner: Shape, next: Option<Box<Outer>> },
}

/// options around values whose serialised form is empty or atom-like
#[derive(Debug, Clone, PartialEq, Serialize, Deserialize)]
struct WithOpts {
    list: Option<Vec<i64>>,
    text: Option<String>,
    map: Option<BTreeMap<String, i64>>,
    tag: Option<Shape>,
    bytes: Option<Vec<u8>>,
}

#[derive(Debug, Clone, PartialEq, Deserialize)]
struct ElixirUserPlain {
    name: String,
    age: i32,
    active: bool,
    score: i64,
}

#[derive(Debug, Clone, PartialEq, ElixirStruct)]
#[elixir_module = "Verif.User"]
struct ElixirUser {
    name: String,
    age: i32,
    active: bool,
    score: i64,
}

fn rt<T: Serialize + DeserializeOwned + PartialEq + Debug>(v: &T) -> Value {
    let via_term = catch(|| erltf_serde::to_term(v).map_err(|e| format!("ser: {e:?}")).and_then(|t| erltf_serde::from_term::<T>(&t).map_err(|e| format!("de: {e:?}"))));
    let via_bytes = catch(|| erltf_serde::to_bytes(v).map_err(|e| format!("ser: {e:?}")).and_then(|b| erltf_serde::from_bytes::<T>(&b).map_err(|e| format!("de: {e:?}"))));
    let judge = |r: Result<Result<T, String>, String>| -> Value {
        match r {
            Err(p) => json!({"k": "panic", "detail": p}),
            Ok(Err(e)) => json!({"k": if e.starts_with("ser") { "ser_error" } else { "de_error" }, "detail": e.chars().take(200).collect::<String>()}),
            Ok(Ok(back)) => {
                let same = &back == v && format!("{back:?}") == format!("{v:?}");
                json!({"k": if same { "same" } else { "different" }, "back": if same { Value::Null } else { json!(format!("{back:?}").chars().take(300).collect::<String>()) }})
            }
        }
    };
    json!({"term": judge(via_term), "bytes": judge(via_bytes), "value": format!("{v:?}").chars().take(200).collect::<String>()})
}

fn go<T: Serialize + DeserializeOwned + PartialEq + Debug>(j: &Value) -> Value {
    match serde_json::from_value::<T>(j.clone()) {
        Ok(v) => rt(&v),
        Err(e) => json!({"harness_error": format!("cannot materialise the value: {e}")}),
    }
}

#[derive(Debug, Clone, PartialEq, Serialize, Deserialize)]
struct UnitS;

#[derive(Debug, Clone, PartialEq, Serialize, Deserialize)]
struct FloatPair {
    x: f32,
    y: f64,
}

// floats given by their bits (the spec's tagged tree: {"f32": [4 bytes]} / {"f64": [8 bytes]}), so that values JSON cannot
// write (the infinities) can be materialised
fn f32_of(v: &Value) -> f32 {
    let b: Vec<u8> = v["f32"].as_array().map(|a| a.iter().map(|x| x.as_u64().unwrap_or(0) as u8).collect()).unwrap_or_default();
    f32::from_bits(u32::from_be_bytes([b[0], b[1], b[2], b[3]]))
}
fn f64_of(v: &Value) -> f64 {
    let b: Vec<u8> = v["f64"].as_array().map(|a| a.iter().map(|x| x.as_u64().unwrap_or(0) as u8).collect()).unwrap_or_default();
    f64::from_bits(u64::from_be_bytes([b[0], b[1], b[2], b[3], b[4], b[5], b[6], b[7]]))
}
/// NaN-free float types compare with == but the infinities and -0.0 need the bits to be looked at
fn rt_bits<T: Serialize + DeserializeOwned + PartialEq + Debug>(v: &T) -> Value {
    rt(v)
}

fn dispatch_tagged(ty: &str, t: &Value) -> Option<Value> {
    Some(match ty {
        "F32B" => rt_bits(&f32_of(t)),
        "F64B" => rt_bits(&f64_of(t)),
        "OptF32" => rt_bits(&(if t.get("none").is_some() { None } else { Some(f32_of(&t["some"])) })),
        "VecF32" => rt_bits(&t["seq"].as_array().map(|a| a.iter().map(f32_of).collect::<Vec<f32>>()).unwrap_or_default()),
        "TupF32F64" => rt_bits(&(f32_of(&t["seq"][0]), f64_of(&t["seq"][1]))),
        "FloatPair" => rt_bits(&FloatPair { x: f32_of(&t["struct"][0][1]), y: f64_of(&t["struct"][1][1]) }),
        _ => return None,
    })
}

fn dispatch(ty: &str, j: &Value) -> Value {
    match ty {
        "I8" => go::<i8>(j),
        "I16" => go::<i16>(j),
        "I32" => go::<i32>(j),
        "I64" => go::<i64>(j),
        "U8" => go::<u8>(j),
        "U16" => go::<u16>(j),
        "U32" => go::<u32>(j),
        "U64" => go::<u64>(j),
        "F32" => go::<f32>(j),
        "F64" => go::<f64>(j),
        "Bool" => go::<bool>(j),
        "Char" => go::<char>(j),
        "Str" => go::<String>(j),
        "Unit" => go::<()>(j),
        "OptI64" => go::<Option<i64>>(j),
        "OptStr" => go::<Option<String>>(j),
        "OptU8" => go::<Option<u8>>(j),
        "OptBool" => go::<Option<bool>>(j),
        "OptChar" => go::<Option<char>>(j),
        "VecI64" => go::<Vec<i64>>(j),
        "VecStr" => go::<Vec<String>>(j),
        "VecU8" => go::<Vec<u8>>(j),
        "VecVecI32" => go::<Vec<Vec<i32>>>(j),
        "VecOptI64" => go::<Vec<Option<i64>>>(j),
        "TupI64Str" => go::<(i64, String)>(j),
        "TupU8BoolF64" => go::<(u8, bool, f64)>(j),
        "MapStrI64" => go::<BTreeMap<String, i64>>(j),
        "MapI64Str" => go::<BTreeMap<i64, String>>(j),
        "HMapStrU64" => go::<HashMap<String, u64>>(j),
        "Plain" => go::<Plain>(j),
        "Nested" => go::<Nested>(j),
        "Shape" => go::<Shape>(j),
        "Outer" => go::<Outer>(j),
        "OptOuter" => go::<Option<Outer>>(j),
        "VecOuter" => go::<Vec<Outer>>(j),
        "ResI64Str" => go::<Result<i64, String>>(j),
        "ResTupShape" => go::<Result<(i64, i64), Shape>>(j),
        "VecShape" => go::<Vec<Shape>>(j),
        "OptPlain" => go::<Option<Plain>>(j),
        "MapAtomish" => go::<BTreeMap<String, String>>(j),
        "VecAtomish" => go::<Vec<String>>(j),
        "UnitStruct" => rt(&UnitS),
        "BigStr" => go::<String>(j),
        "BigBytes" => go::<Vec<u8>>(j),
        "TupI64I64" => go::<(i64, i64)>(j),
        "ArrI64x2" => go::<[i64; 2]>(j),
        "OptVecI64" => go::<Option<Vec<i64>>>(j),
        "OptVecStr" => go::<Option<Vec<String>>>(j),
        "OptVecU8" => go::<Option<Vec<u8>>>(j),
        "OptMapStrI64" => go::<Option<BTreeMap<String, i64>>>(j),
        "OptShape" => go::<Option<Shape>>(j),
        "OptTupI64Str" => go::<Option<(i64, String)>>(j),
        "VecOptVecI64" => go::<Vec<Option<Vec<i64>>>>(j),
        "MapStrOptVecI64" => go::<BTreeMap<String, Option<Vec<i64>>>>(j),
        "TupOptVecOptStr" => go::<(Option<Vec<i64>>, Option<String>)>(j),
        "WithOpts" => go::<WithOpts>(j),
        "MapStrPlain" => go::<BTreeMap<String, Plain>>(j),
        "ElixirUser" => match serde_json::from_value::<ElixirUserPlain>(j.clone()) {
            Ok(p) => rt(&ElixirUser { name: p.name, age: p.age, active: p.active, score: p.score }),
            Err(e) => json!({"harness_error": format!("{e}")}),
        },
        other => json!({"harness_error": format!("unknown type {other}")}),
    }
}

/// thorough tier: seeded random values of the scalar and collection types through both paths; only failures are written
pub fn run_random(args: &[String]) -> i32 {
    // serde-rt-random <seed> <n> <out.ndjson>
    use rand::rngs::StdRng;
    use rand::{Rng, SeedableRng};
    quiet_panics();
    let seed: u64 = args[0].parse().unwrap_or(1);
    let n: usize = args[1].parse().unwrap_or(100);
    let mut rng = StdRng::seed_from_u64(seed);
    let mut w = NdWriter::create(&args[2]);
    let mut total = 0usize;
    let mut bad = 0usize;
    let mut note = |ty: &str, o: Value, w: &mut NdWriter, total: &mut usize, bad: &mut usize| {
        *total += 1;
        if o["term"]["k"] != "same" || o["bytes"]["k"] != "same" {
            *bad += 1;
            let mut o = o;
            o["ty"] = json!(ty);
            w.put(&o);
        }
    };
    fn rstr(rng: &mut StdRng) -> String {
        let n = rng.random_range(0..12);
        (0..n).map(|_| char::from_u32(match rng.random_range(0..4) { 0 => rng.random_range(0x20..0x7f), 1 => rng.random_range(0xa0..0x800), 2 => rng.random_range(0x800..0xd800), _ => rng.random_range(0x10000..0x110000) }).unwrap_or('x')).collect()
    }
    fn rf64(rng: &mut StdRng) -> f64 {
        loop {
            let f = f64::from_bits(rng.random::<u64>());
            if !f.is_nan() {
                return f;
            }
        }
    }
    fn ri64(rng: &mut StdRng) -> i64 {
        match rng.random_range(0..4) { 0 => rng.random::<i64>(), 1 => rng.random_range(-300..300), 2 => (1i64 << rng.random_range(0..63)) + rng.random_range(-2..3), _ => -(1i64 << rng.random_range(0..63)) + rng.random_range(-2..3) }
    }
    for _ in 0..n {
        note("i64", rt(&ri64(&mut rng)), &mut w, &mut total, &mut bad);
        note("u64", rt(&rng.random::<u64>()), &mut w, &mut total, &mut bad);
        note("i32", rt(&rng.random::<i32>()), &mut w, &mut total, &mut bad);
        note("u16", rt(&rng.random::<u16>()), &mut w, &mut total, &mut bad);
        note("i8", rt(&rng.random::<i8>()), &mut w, &mut total, &mut bad);
        note("f64", rt(&rf64(&mut rng)), &mut w, &mut total, &mut bad);
        note("f32", rt(&(loop { let f = f32::from_bits(rng.random::<u32>()); if !f.is_nan() { break f; } })), &mut w, &mut total, &mut bad);
        note("char", rt(&char::from_u32(rng.random_range(0..0xd800)).unwrap_or('a')), &mut w, &mut total, &mut bad);
        note("String", rt(&rstr(&mut rng)), &mut w, &mut total, &mut bad);
        note("Option<i64>", rt(&(if rng.random::<bool>() { Some(ri64(&mut rng)) } else { None })), &mut w, &mut total, &mut bad);
        note("Vec<i64>", rt(&(0..rng.random_range(0..6)).map(|_| ri64(&mut rng)).collect::<Vec<i64>>()), &mut w, &mut total, &mut bad);
        note("Vec<String>", rt(&(0..rng.random_range(0..4)).map(|_| rstr(&mut rng)).collect::<Vec<String>>()), &mut w, &mut total, &mut bad);
        note("Vec<u8>", rt(&(0..rng.random_range(0..40)).map(|_| rng.random::<u8>()).collect::<Vec<u8>>()), &mut w, &mut total, &mut bad);
        note("(i64, String, f64)", rt(&(ri64(&mut rng), rstr(&mut rng), rf64(&mut rng))), &mut w, &mut total, &mut bad);
        note("BTreeMap<String, i64>", rt(&(0..rng.random_range(0..4)).map(|_| (rstr(&mut rng), ri64(&mut rng))).collect::<BTreeMap<String, i64>>()), &mut w, &mut total, &mut bad);
        note("BTreeMap<i64, String>", rt(&(0..rng.random_range(0..4)).map(|_| (ri64(&mut rng), rstr(&mut rng))).collect::<BTreeMap<i64, String>>()), &mut w, &mut total, &mut bad);
        note("Plain", rt(&Plain { a: ri64(&mut rng), b: rstr(&mut rng), c: if rng.random::<bool>() { Some(rng.random::<u8>()) } else { None }, d: (0..rng.random_range(0..4)).map(|_| rng.random::<i32>()).collect() }), &mut w, &mut total, &mut bad);
        let shape = match rng.random_range(0..4) { 0 => Shape::Unit, 1 => Shape::Newtype(ri64(&mut rng)), 2 => Shape::Tuple(rng.random::<i32>(), rstr(&mut rng)), _ => Shape::Struct { x: rng.random::<u64>(), y: rf64(&mut rng) } };
        note("Shape", rt(&shape), &mut w, &mut total, &mut bad);
        note("Option<Vec<String>>", rt(&(if rng.random::<bool>() { Some((0..rng.random_range(0..3)).map(|_| rstr(&mut rng)).collect::<Vec<String>>()) } else { None })), &mut w, &mut total, &mut bad);
    }
    w.put(&json!({"summary": true, "values": total, "failures": bad}));
    w.finish();
    0
}

pub fn run(args: &[String]) -> i32 {
    // serde-rt <values.ndjson> <out.ndjson>
    quiet_panics();
    let recs = read_ndjson(&args[0]);
    let mut w = NdWriter::create(&args[1]);
    for r in recs.iter() {
        let ty = r["ty"].as_str().unwrap_or("");
        let mut o = match (r.get("tagged"), catch(|| dispatch_tagged(ty, &r["tagged"]))) {
            (Some(t), Ok(Some(v))) if !t.is_null() => v,
            _ => dispatch(ty, &r["json"]),
        };
        o["id"] = r["id"].clone();
        w.put(&o);
    }
    w.put(&concurrent_round_trips());
    w.put(&well_known_names());
    w.finish();
    0
}

#[derive(Debug, Clone, PartialEq, Serialize, Deserialize)]
struct Nest {
    v: u8,
    next: Option<Box<Nest>>,
}

/// the round trip of a value does not depend on what other threads convert at the same time: eight threads take a 60-level
/// value (and a flat one) through to_bytes / from_bytes 300 times each, all at once; alone, the same value round-trips
fn concurrent_round_trips() -> Value {
    let mut deep = Nest { v: 0, next: None };
    for i in 1..60u8 {
        deep = Nest { v: i, next: Some(Box::new(deep)) };
    }
    let flat: Vec<i64> = (0..50).collect();
    let alone = catch(|| erltf_serde::to_bytes(&deep).ok().and_then(|b| erltf_serde::from_bytes::<Nest>(&b).ok()) == Some(deep.clone())).unwrap_or(false);
    let bytes_deep = erltf_serde::to_bytes(&deep).unwrap_or_default();
    let bytes_flat = erltf_serde::to_bytes(&flat).unwrap_or_default();
    let start = std::sync::Arc::new(std::sync::Barrier::new(8));
    let hs: Vec<_> = (0..8).map(|_| {
        let (bd, bf, d, f, st) = (bytes_deep.clone(), bytes_flat.clone(), deep.clone(), flat.clone(), start.clone());
        std::thread::spawn(move || {
            st.wait();
            let mut bad = Vec::new();
            for i in 0..300 {
                match catch(|| erltf_serde::from_bytes::<Nest>(&bd)) {
                    Ok(Ok(x)) if x == d => {}
                    Ok(Ok(_)) => bad.push(format!("deep value came back different (iteration {i})")),
                    Ok(Err(e)) => bad.push(format!("deep value: {e:?}")),
                    Err(p) => bad.push(format!("deep value: panic {p}")),
                }
                match catch(|| erltf_serde::from_bytes::<Vec<i64>>(&bf)) {
                    Ok(Ok(x)) if x == f => {}
                    Ok(Ok(_)) => bad.push(format!("flat value came back different (iteration {i})")),
                    Ok(Err(e)) => bad.push(format!("flat value: {e:?}")),
                    Err(p) => bad.push(format!("flat value: panic {p}")),
                }
                if catch(|| erltf_serde::to_bytes(&d).ok() == Some(bd.clone())).unwrap_or(false) == false {
                    bad.push(format!("to_bytes of the deep value gave other bytes (iteration {i})"));
                }
            }
            bad
        })
    }).collect();
    let mut failures: Vec<String> = Vec::new();
    let mut n = 0usize;
    for h in hs {
        let b = h.join().unwrap_or_else(|_| vec!["thread panicked".into()]);
        n += b.len();
        failures.extend(b.into_iter().take(3));
    }
    json!({"id": "__concurrent__", "round_trips_alone": alone, "threads": 8, "conversions_per_thread": 900, "failures": n, "examples": failures.into_iter().take(6).collect::<Vec<_>>()})
}

#[allow(non_camel_case_types)]
#[derive(Debug, Clone, Copy, PartialEq, Serialize, Deserialize)]
enum WellKnown { ok, error, r#true, r#false, nil, undefined, normal, shutdown, infinity, badarg, badarith, badmatch, noproc, timeout, noconnection, other_name }

/// unit variants named like the atoms the library keeps pre-built: the term of each is the atom of that very name, the bytes a peer
/// writes for that name come back as that variant, and both round trips return the variant
fn well_known_names() -> Value {
    use WellKnown::*;
    let all = [(ok, "ok"), (error, "error"), (r#true, "true"), (r#false, "false"), (nil, "nil"), (undefined, "undefined"), (normal, "normal"), (shutdown, "shutdown"),
               (infinity, "infinity"), (badarg, "badarg"), (badarith, "badarith"), (badmatch, "badmatch"), (noproc, "noproc"), (timeout, "timeout"), (noconnection, "noconnection"),
               (other_name, "other_name")];
    let mut bad = Vec::new();
    for (v, name) in all {
        let r = catch(|| {
            let mut why = Vec::new();
            match erltf_serde::to_term(&v) {
                Ok(t) => {
                    if t.atom_name() != Some(name) {
                        why.push(format!("to_term gives {:?}", t));
                    }
                    if erltf_serde::from_term::<WellKnown>(&t).ok() != Some(v) {
                        why.push("to_term / from_term does not return the variant".to_string());
                    }
                }
                Err(e) => why.push(format!("to_term: {e:?}")),
            }
            let mut peer = vec![131u8, 119, name.len() as u8];
            peer.extend_from_slice(name.as_bytes());
            if erltf_serde::from_bytes::<WellKnown>(&peer).ok() != Some(v) {
                why.push("the bytes a peer writes for this atom do not come back as the variant".to_string());
            }
            match erltf_serde::to_bytes(&v) {
                Ok(b) if b == peer => {}
                Ok(b) => why.push(format!("to_bytes writes {:?}", b)),
                Err(e) => why.push(format!("to_bytes: {e:?}")),
            }
            why
        });
        match r {
            Ok(why) if why.is_empty() => {}
            Ok(why) => bad.push(json!({"variant": name, "why": why})),
            Err(p) => bad.push(json!({"variant": name, "why": [format!("panic: {p}")]})),
        }
    }
    json!({"id": "__wellknown__", "variants": all.len(), "bad": bad})
}
