//! C15: serde round trips (to_term/from_term and to_bytes/from_bytes) over the typed universe of
//! spec/Serde.tla.  Each record carries a type name of the family below and a plain JSON rendering
//! of the value (made by the driver from the spec's tagged tree); the value is materialised with
//! serde_json, sent through erltf_serde, and compared with itself.
use crate::io::{NdWriter, catch, quiet_panics, read_ndjson};
use erltf_serde::ElixirStruct;
use serde::de::DeserializeOwned;
use serde::{Deserialize, Serialize};
use serde_json::{Value, json};
use std::collections::{BTreeMap, HashMap};
use std::fmt::Debug;

#[derive(Debug, Clone, PartialEq, Serialize, Deserialize)]
struct Plain {
    a: i64,
    b: String,
    c: Option<u8>,
    d: Vec<i32>,
}

#[derive(Debug, Clone, PartialEq, Serialize, Deserialize)]
enum Shape {
    Unit,
    Newtype(i64),
    Tuple(i32, String),
    Struct { x: u64, y: f64 },
}

#[derive(Debug, Clone, PartialEq, Serialize, Deserialize)]
struct Nested {
    inner: Plain,
    list: Vec<Plain>,
    tag: Shape,
}

/// options around values whose serialised form is empty or atom-like
#[derive(Debug, Clone, PartialEq, Serialize, Deserialize)]
struct WithOpts {
    list: Option<Vec<i64>>,
    text: Option<String>,
    map: Option<BTreeMap<String, i64>>,
    tag: Option<Shape>,
    bytes: Option<Vec<u8>>,
}

#[derive(Debug, Clone, PartialEq, Deserialize)]
struct ElixirUserPlain {
    name: String,
    age: i32,
    active: bool,
    score: i64,
}

#[derive(Debug, Clone, PartialEq, ElixirStruct)]
#[elixir_module = "Verif.User"]
struct ElixirUser {
    name: String,
    age: i32,
    active: bool,
    score: i64,
}

fn rt<T: Serialize + DeserializeOwned + PartialEq + Debug>(v: &T) -> Value {
    let via_term = catch(|| erltf_serde::to_term(v).map_err(|e| format!("ser: {e:?}")).and_then(|t| erltf_serde::from_term::<T>(&t).map_err(|e| format!("de: {e:?}"))));
    let via_bytes = catch(|| erltf_serde::to_bytes(v).map_err(|e| format!("ser: {e:?}")).and_then(|b| erltf_serde::from_bytes::<T>(&b).map_err(|e| format!("de: {e:?}"))));
    let judge = |r: Result<Result<T, String>, String>| -> Value {
        match r {
            Err(p) => json!({"k": "panic", "detail": p}),
            Ok(Err(e)) => json!({"k": if e.starts_with("ser") { "ser_error" } else { "de_error" }, "detail": e.chars().take(200).collect::<String>()}),
            Ok(Ok(back)) => {
                let same = &back == v && format!("{back:?}") == format!("{v:?}");
                json!({"k": if same { "same" } else { "different" }, "back": if same { Value::Null } else { json!(format!("{back:?}").chars().take(300).collect::<String>()) }})
            }
        }
    };
    json!({"term": judge(via_term), "bytes": judge(via_bytes), "value": format!("{v:?}").chars().take(200).collect::<String>()})
}

fn go<T: Serialize + DeserializeOwned + PartialEq + Debug>(j: &Value) -> Value {
    match serde_json::from_value::<T>(j.clone()) {
        Ok(v) => rt(&v),
        Err(e) => json!({"harness_error": format!("cannot materialise the value: {e}")}),
    }
}

#[derive(Debug, Clone, PartialEq, Serialize, Deserialize)]
struct FloatPair {
    x: f32,
    y: f64,
}

// floats given by their bits (the spec's tagged tree: {"f32": [4 bytes]} / {"f64": [8 bytes]}), so that values JSON cannot
// write (the infinities) can be materialised
fn f32_of(v: &Value) -> f32 {
    let b: Vec<u8> = v["f32"].as_array().map(|a| a.iter().map(|x| x.as_u64().unwrap_or(0) as u8).collect()).unwrap_or_default();
    f32::from_bits(u32::from_be_bytes([b[0], b[1], b[2], b[3]]))
}
fn f64_of(v: &Value) -> f64 {
    let b: Vec<u8> = v["f64"].as_array().map(|a| a.iter().map(|x| x.as_u64().unwrap_or(0) as u8).collect()).unwrap_or_default();
    f64::from_bits(u64::from_be_bytes([b[0], b[1], b[2], b[3], b[4], b[5], b[6], b[7]]))
}
/// NaN-free float types compare with == but the infinities and -0.0 need the bits to be looked at
fn rt_bits<T: Serialize + DeserializeOwned + PartialEq + Debug>(v: &T) -> Value {
    rt(v)
}

fn dispatch_tagged(ty: &str, t: &Value) -> Option<Value> {
    Some(match ty {
        "F32B" => rt_bits(&f32_of(t)),
        "F64B" => rt_bits(&f64_of(t)),
        "OptF32" => rt_bits(&(if t.get("none").is_some() { None } else { Some(f32_of(&t["some"])) })),
        "VecF32" => rt_bits(&t["seq"].as_array().map(|a| a.iter().map(f32_of).collect::<Vec<f32>>()).unwrap_or_default()),
        "TupF32F64" => rt_bits(&(f32_of(&t["seq"][0]), f64_of(&t["seq"][1]))),
        "FloatPair" => rt_bits(&FloatPair { x: f32_of(&t["struct"][0][1]), y: f64_of(&t["struct"][1][1]) }),
        _ => return None,
    })
}

fn dispatch(ty: &str, j: &Value) -> Value {
    match ty {
        "I8" => go::<i8>(j),
        "I16" => go::<i16>(j),
        "I32" => go::<i32>(j),
        "I64" => go::<i64>(j),
        "U8" => go::<u8>(j),
        "U16" => go::<u16>(j),
        "U32" => go::<u32>(j),
        "U64" => go::<u64>(j),
        "F32" => go::<f32>(j),
        "F64" => go::<f64>(j),
        "Bool" => go::<bool>(j),
        "Char" => go::<char>(j),
        "Str" => go::<String>(j),
        "Unit" => go::<()>(j),
        "OptI64" => go::<Option<i64>>(j),
        "OptStr" => go::<Option<String>>(j),
        "OptU8" => go::<Option<u8>>(j),
        "OptBool" => go::<Option<bool>>(j),
        "OptChar" => go::<Option<char>>(j),
        "VecI64" => go::<Vec<i64>>(j),
        "VecStr" => go::<Vec<String>>(j),
        "VecU8" => go::<Vec<u8>>(j),
        "VecVecI32" => go::<Vec<Vec<i32>>>(j),
        "VecOptI64" => go::<Vec<Option<i64>>>(j),
        "TupI64Str" => go::<(i64, String)>(j),
        "TupU8BoolF64" => go::<(u8, bool, f64)>(j),
        "MapStrI64" => go::<BTreeMap<String, i64>>(j),
        "MapI64Str" => go::<BTreeMap<i64, String>>(j),
        "HMapStrU64" => go::<HashMap<String, u64>>(j),
        "Plain" => go::<Plain>(j),
        "Nested" => go::<Nested>(j),
        "Shape" => go::<Shape>(j),
        "VecShape" => go::<Vec<Shape>>(j),
        "OptPlain" => go::<Option<Plain>>(j),
        "OptVecI64" => go::<Option<Vec<i64>>>(j),
        "OptVecStr" => go::<Option<Vec<String>>>(j),
        "OptVecU8" => go::<Option<Vec<u8>>>(j),
        "OptMapStrI64" => go::<Option<BTreeMap<String, i64>>>(j),
        "OptShape" => go::<Option<Shape>>(j),
        "OptTupI64Str" => go::<Option<(i64, String)>>(j),
        "VecOptVecI64" => go::<Vec<Option<Vec<i64>>>>(j),
        "MapStrOptVecI64" => go::<BTreeMap<String, Option<Vec<i64>>>>(j),
        "TupOptVecOptStr" => go::<(Option<Vec<i64>>, Option<String>)>(j),
        "WithOpts" => go::<WithOpts>(j),
        "MapStrPlain" => go::<BTreeMap<String, Plain>>(j),
        "ElixirUser" => match serde_json::from_value::<ElixirUserPlain>(j.clone()) {
            Ok(p) => rt(&ElixirUser { name: p.name, age: p.age, active: p.active, score: p.score }),
            Err(e) => json!({"harness_error": format!("{e}")}),
        },
        other => json!({"harness_error": format!("unknown type {other}")}),
    }
}

pub fn run(args: &[String]) -> i32 {
    // serde-rt <values.ndjson> <out.ndjson>
    quiet_panics();
    let recs = read_ndjson(&args[0]);
    let mut w = NdWriter::create(&args[1]);
    for r in recs.iter() {
        let ty = r["ty"].as_str().unwrap_or("");
        let mut o = match (r.get("tagged"), catch(|| dispatch_tagged(ty, &r["tagged"]))) {
            (Some(t), Ok(Some(v))) if !t.is_null() => v,
            _ => dispatch(ty, &r["json"]),
        };
        o["id"] = r["id"].clone();
        w.put(&o);
    }
    w.finish();
    0
}
