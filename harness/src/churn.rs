//! C19, free-running: local processes end (on a message from the peer that makes their handler fail) while the receiver goes on
//! routing name-addressed and pid-addressed messages to others.  spec/Inbound.tla (die_name / die_pid): the one that fails handles
//! that message and nothing after it; everybody else gets exactly what was addressed to them, in order; the receiver keeps running.
use crate::inbound::Recorder;
use crate::io::NdWriter;
use crate::nodeenv::*;
use crate::rpc::connect_peer;
use edp_client::verif;
use edp_node::Node;
use erltf::{Atom, OwnedTerm};
use serde_json::{Value, json};
use std::sync::{Arc, Mutex};
use std::time::{Duration, Instant};
use tokio::net::TcpListener;

fn a(s: &str) -> OwnedTerm {
    OwnedTerm::Atom(Atom::new(s))
}

pub fn run(args: &[String]) -> i32 {
    // churn-run <workers> <rounds> <out.ndjson>
    let workers: usize = args[0].parse().unwrap_or(200);
    let rounds: usize = args[1].parse().unwrap_or(2);
    let rt = tokio::runtime::Builder::new_multi_thread().worker_threads(4).enable_all().build().expect("rt");
    let mut w = NdWriter::create(&args[2]);
    rt.block_on(async {
        for round in 0..rounds {
            let listener = TcpListener::bind("127.0.0.1:0").await.expect("bind");
            let (epmd_port, _e) = fake_epmd(listener.local_addr().unwrap().port()).await;
            verif::set_epmd_port(epmd_port);
            let mut node = Node::new("n1@127.0.0.1", COOKIE);
            if node.start(0).await.is_err() {
                w.put(&json!({"tool_error": "node start failed"}));
                return;
            }
            let node = Arc::new(node);
            let log = Arc::new(Mutex::new(Vec::new()));
            let sink = node.spawn(Recorder { tag: "sink".into(), log: log.clone() }).await.expect("spawn");
            let byp = node.spawn(Recorder { tag: "bystander".into(), log: log.clone() }).await.expect("spawn");
            if node.register(Atom::new("sink"), sink.clone()).await.is_err() {
                w.put(&json!({"tool_error": "register sink"}));
                return;
            }
            let mut wpids = Vec::new();
            for i in 0..workers {
                let p = node.spawn(Recorder { tag: format!("w{i}"), log: log.clone() }).await.expect("spawn");
                let _ = node.register(Atom::new(&format!("w{i}")), p.clone()).await;
                wpids.push(p);
            }
            let Some(mut peer) = connect_peer(&node, &listener).await else {
                w.put(&json!({"tool_error": "could not connect"}));
                return;
            };
            let remote = erltf::types::ExternalPid::new(Atom::new("peer@127.0.0.1"), 5, 0, 1);
            let reg_send = |name: &str| OwnedTerm::Tuple(vec![OwnedTerm::Integer(6), OwnedTerm::Pid(remote.clone()), a(""), a(name)]);
            let send = |to: &erltf::types::ExternalPid| OwnedTerm::Tuple(vec![OwnedTerm::Integer(2), a(""), OwnedTerm::Pid(to.clone())]);
            let num = |k: &str, n: usize| OwnedTerm::Tuple(vec![a(k), OwnedTerm::Integer(n as i64)]);
            // the peer: worker i is made to fail (by name on even rounds of i, by pid otherwise), then three numbered messages for the sink by name,
            // one for the bystander by pid, one more for the worker that has just failed
            let (mut n_sink, mut n_byp, mut wrote_all) = (0usize, 0usize, true);
            for i in 0..workers {
                let die = if i % 2 == 0 { pass_through(&reg_send(&format!("w{i}")), Some(&num("die", i))) } else { pass_through(&send(&wpids[i]), Some(&num("die", i))) };
                wrote_all &= write_dist_frame(&mut peer.wr, &die).await;
                for _ in 0..3 {
                    n_sink += 1;
                    wrote_all &= write_dist_frame(&mut peer.wr, &pass_through(&reg_send("sink"), Some(&num("s", n_sink)))).await;
                }
                n_byp += 1;
                wrote_all &= write_dist_frame(&mut peer.wr, &pass_through(&send(&byp), Some(&num("b", n_byp)))).await;
                wrote_all &= write_dist_frame(&mut peer.wr, &pass_through(&reg_send(&format!("w{i}")), Some(&num("late", i)))).await;
            }
            let t0 = Instant::now();
            let count = |tag: &str, log: &Arc<Mutex<Vec<Value>>>| log.lock().unwrap().iter().filter(|e| e["proc"] == tag).count();
            while (count("sink", &log) < n_sink || count("bystander", &log) < n_byp) && t0.elapsed() < Duration::from_secs(20) {
                tokio::time::sleep(Duration::from_millis(10)).await;
            }
            let waited_ms = t0.elapsed().as_millis() as u64;
            tokio::time::sleep(Duration::from_millis(150)).await;
            let entries = log.lock().unwrap().clone();
            let nums = |tag: &str| -> Vec<i64> {
                entries.iter().filter(|e| e["proc"] == tag).map(|e| e["msg"]["body"]["e"][1]["mag"].as_array().map(|m| m.iter().rev().fold(0i64, |acc, x| acc * 256 + x.as_i64().unwrap_or(0))).unwrap_or(-1)).collect()
            };
            // per worker: what it handled
            let mut worker_bad = Vec::new();
            for i in 0..workers {
                let tag = format!("w{i}");
                let got: Vec<String> = entries.iter().filter(|e| e["proc"] == tag.as_str()).map(|e| crate::term_json::build(&e["msg"]["body"])).map(|t| format!("{t:?}").chars().take(60).collect()).collect();
                if got.len() != 1 || !got[0].contains("die") {
                    worker_bad.push(json!({"worker": i, "handled": got}));
                }
            }
            // the tables afterwards (every lookup under a deadline: a lookup that never returns is an observation, not a hang of the harness)
            let reg = node.registry();
            let names_left = tokio::time::timeout(Duration::from_secs(3), async {
                let mut left = Vec::new();
                for i in 0..workers {
                    if reg.whereis(&Atom::new(&format!("w{i}"))).await.is_some() {
                        left.push(i);
                    }
                }
                left
            })
            .await;
            let sink_resolves = tokio::time::timeout(Duration::from_secs(3), reg.whereis(&Atom::new("sink"))).await.map(|p| p == Some(sink.clone()));
            w.put(&json!({"round": round, "workers": workers, "wrote_all": wrote_all, "sink_expected": n_sink, "sink_got": nums("sink"), "bystander_expected": n_byp, "bystander_got": nums("bystander"),
                          "workers_not_exactly_their_die": worker_bad.iter().take(5).collect::<Vec<_>>(), "workers_bad": worker_bad.len(), "waited_ms": waited_ms,
                          "names_of_ended_workers_still_resolving": names_left.as_ref().map(|l| json!(l.iter().take(10).collect::<Vec<_>>())).unwrap_or(json!("lookup did not return within 3 s")),
                          "lookups_return": names_left.is_ok() && sink_resolves.is_ok(), "sink_resolves": sink_resolves.unwrap_or(false),
                          "still_connected": node.connections().contains_key("peer@127.0.0.1")}));
            drop(peer);
        }
        // ---- a storm of malformed but correctly framed input (Inbound!Junk as families): every first byte, every control tag as a tuple of
        // the wrong shape, every cut of a well-formed frame, with a numbered message for a named process after each
        {
            let listener = TcpListener::bind("127.0.0.1:0").await.expect("bind");
            let (epmd_port, _e) = fake_epmd(listener.local_addr().unwrap().port()).await;
            verif::set_epmd_port(epmd_port);
            let mut node = Node::new("n1@127.0.0.1", COOKIE);
            if node.start(0).await.is_err() {
                w.put(&json!({"tool_error": "node start failed"}));
                return;
            }
            let node = Arc::new(node);
            let log = Arc::new(Mutex::new(Vec::new()));
            let sink = node.spawn(Recorder { tag: "sink".into(), log: log.clone() }).await.expect("spawn");
            let _ = node.register(Atom::new("sink"), sink.clone()).await;
            let Some(mut peer) = connect_peer(&node, &listener).await else {
                w.put(&json!({"tool_error": "could not connect"}));
                return;
            };
            let remote = erltf::types::ExternalPid::new(Atom::new("peer@127.0.0.1"), 5, 0, 1);
            let to_sink = OwnedTerm::Tuple(vec![OwnedTerm::Integer(6), OwnedTerm::Pid(remote.clone()), a(""), a("sink")]);
            let good = pass_through(&to_sink, Some(&OwnedTerm::Tuple(vec![a("x"), OwnedTerm::Integer(0)])));
            let mut junk: Vec<(String, Vec<u8>)> = Vec::new();
            for b in 0..=255u8 {
                if b != 112 {
                    let mut f = good.clone();
                    f[0] = b;
                    junk.push((format!("first byte {b}"), f));
                }
            }
            for tag in 0..=255i64 {
                for arity in [1usize, 9] {
                    let mut e = vec![OwnedTerm::Integer(tag)];
                    e.extend((1..arity).map(|i| OwnedTerm::Integer(i as i64)));
                    junk.push((format!("control tuple {{{tag}, ...}} of {arity} integers"), pass_through(&OwnedTerm::Tuple(e), None)));
                }
            }
            for cut in 1..good.len() {
                junk.push((format!("a well-formed frame cut after {cut} bytes"), good[..cut].to_vec()));
            }
            let mut sent = 0usize;
            let mut wrote_all = true;
            for (_, j) in &junk {
                wrote_all &= write_dist_frame(&mut peer.wr, j).await;
                sent += 1;
                wrote_all &= write_dist_frame(&mut peer.wr, &pass_through(&to_sink, Some(&OwnedTerm::Tuple(vec![a("s"), OwnedTerm::Integer(sent as i64)])))).await;
            }
            // ... and messages far larger than one read returns with the next ones right behind them in the same write
            for big in [4097usize, 6000, 65536, 200_000] {
                use tokio::io::AsyncWriteExt;
                let mut buf: Vec<u8> = Vec::new();
                let mut frame = |body: Vec<u8>, buf: &mut Vec<u8>| {
                    buf.extend_from_slice(&(body.len() as u32).to_be_bytes());
                    buf.extend_from_slice(&body);
                };
                sent += 1;
                frame(pass_through(&to_sink, Some(&OwnedTerm::Tuple(vec![a("s"), OwnedTerm::Integer(sent as i64), OwnedTerm::Binary(vec![7u8; big])]))), &mut buf);
                for k in 0..4 {
                    if k == 2 {
                        frame(Vec::new(), &mut buf);
                    }
                    sent += 1;
                    frame(pass_through(&to_sink, Some(&OwnedTerm::Tuple(vec![a("s"), OwnedTerm::Integer(sent as i64)]))), &mut buf);
                }
                wrote_all &= peer.wr.write_all(&buf).await.is_ok() && peer.wr.flush().await.is_ok();
                junk.push((format!("(no malformed frame: a message of {big} bytes with four more behind it in one write)"), Vec::new()));
                for _ in 0..4 {
                    junk.push((format!("(no malformed frame: behind a message of {big} bytes in the same write)"), Vec::new()));
                }
            }
            // ... and frames whose bytes arrive in pieces with a pause inside the 4-byte length prefix (after 1, 2, 3 bytes), after it, and inside the body
            for cut in [1usize, 2, 3, 4, 5, 9, 1, 2, 3] {
                use tokio::io::AsyncWriteExt;
                sent += 1;
                let body = pass_through(&to_sink, Some(&OwnedTerm::Tuple(vec![a("s"), OwnedTerm::Integer(sent as i64)])));
                let mut f = (body.len() as u32).to_be_bytes().to_vec();
                f.extend_from_slice(&body);
                wrote_all &= peer.wr.write_all(&f[..cut]).await.is_ok() && peer.wr.flush().await.is_ok();
                tokio::time::sleep(Duration::from_millis(30)).await;
                wrote_all &= peer.wr.write_all(&f[cut..]).await.is_ok() && peer.wr.flush().await.is_ok();
                tokio::time::sleep(Duration::from_millis(5)).await;
                junk.push((format!("(no malformed frame: a message whose bytes arrive in two pieces, the first of {cut} bytes)"), Vec::new()));
            }
            let t0 = Instant::now();
            let count = |log: &Arc<Mutex<Vec<Value>>>| log.lock().unwrap().len();
            while count(&log) < sent && t0.elapsed() < Duration::from_secs(15) && node.connections().contains_key("peer@127.0.0.1") {
                tokio::time::sleep(Duration::from_millis(10)).await;
            }
            tokio::time::sleep(Duration::from_millis(100)).await;
            let entries = log.lock().unwrap().clone();
            let got: Vec<i64> = entries.iter().map(|e| e["msg"]["body"]["e"][1]["mag"].as_array().map(|m| m.iter().rev().fold(0i64, |acc, x| acc * 256 + x.as_i64().unwrap_or(0))).unwrap_or(-1)).collect();
            let first_gap = got.iter().enumerate().find(|(i, x)| **x != *i as i64 + 1).map(|(i, _)| i);
            let stopped_after = first_gap.or(if got.len() < sent { Some(got.len()) } else { None }).map(|i| junk.get(i).map(|j| j.0.clone()).unwrap_or_default());
            w.put(&json!({"storm": true, "malformed_frames": junk.len(), "wrote_all": wrote_all, "messages_sent": sent, "messages_handled": got.len(), "in_order_without_gaps": first_gap.is_none() && got.len() == sent,
                          "first_difference_after_the_malformed_frame": stopped_after, "still_connected": node.connections().contains_key("peer@127.0.0.1")}));
        }
    });
    w.finish();
    0
}
