//! Projection between the abstract values of spec/Etf.tla (as JSON) and erltf terms.
//!
//! `build`  : abstract value -> OwnedTerm (the representation an application would construct)
//! `denote` : OwnedTerm -> abstract value (what Erlang value the term denotes, whatever the Rust
//!            variant used to hold it)
//!
//! This file is part of the trusted base of the harness; it is deliberately free of any call
//! into the encoder or decoder under test.

use erltf::types::{ExternalFun, InternalFun};
use erltf::{Atom, BigInt, ExternalPid, ExternalPort, ExternalReference, OwnedTerm};
use serde_json::{Value, json};
use std::collections::BTreeMap;

pub fn bytes_of(v: &Value) -> Vec<u8> {
    v.as_array()
        .map(|a| a.iter().map(|x| x.as_u64().unwrap_or(0) as u8).collect())
        .unwrap_or_default()
}

pub fn bytes_json(b: &[u8]) -> Value {
    Value::Array(b.iter().map(|x| json!(*x)).collect())
}

fn be_u32(v: &Value) -> u32 {
    let b = bytes_of(v);
    let mut x: u32 = 0;
    for d in b {
        x = (x << 8) | d as u32;
    }
    x
}

fn be_u64(v: &Value) -> u64 {
    let b = bytes_of(v);
    let mut x: u64 = 0;
    for d in b {
        x = (x << 8) | d as u64;
    }
    x
}

fn atom_of(v: &Value) -> Atom {
    // v is an abstract atom {"k":"atom","b":[...]} or a raw byte array
    let b = if v.is_array() { bytes_of(v) } else { bytes_of(&v["b"]) };
    Atom::new(String::from_utf8(b).expect("abstract atoms are UTF-8"))
}

fn le_mag_to_u128(mag: &[u8]) -> Option<u128> {
    if mag.len() > 16 {
        return None;
    }
    let mut x: u128 = 0;
    for (i, d) in mag.iter().enumerate() {
        x |= (*d as u128) << (8 * i);
    }
    Some(x)
}

pub fn build_int(neg: bool, mag: &[u8], rep: Option<&str>) -> OwnedTerm {
    let fits_i64 = match le_mag_to_u128(mag) {
        Some(x) => {
            if neg {
                x <= (1u128 << 63)
            } else {
                x < (1u128 << 63)
            }
        }
        None => false,
    };
    let as_i64 = || -> i64 {
        let x = le_mag_to_u128(mag).unwrap();
        if neg { (x as i128).wrapping_neg() as i64 } else { x as i64 }
    };
    match rep {
        Some("big") => OwnedTerm::BigInt(BigInt::new(neg, mag.to_vec())),
        Some("float") => {
            // only used for integers exactly representable (small magnitudes)
            OwnedTerm::Float(as_i64() as f64)
        }
        _ => {
            if fits_i64 {
                OwnedTerm::Integer(as_i64())
            } else {
                OwnedTerm::BigInt(BigInt::new(neg, mag.to_vec()))
            }
        }
    }
}

fn build_pid(v: &Value) -> ExternalPid {
    let node = atom_of(&v["node"]);
    let id = be_u32(&v["id"]);
    let serial = be_u32(&v["serial"]);
    let creation = be_u32(&v["creation"]);
    let loc = bytes_of(&v["loc"]);
    if loc.is_empty() {
        ExternalPid::new(node, id, serial, creation)
    } else {
        // local_ext_bytes = hash(8) ++ NEW_PID_EXT encoding; built by hand here (format facts only)
        let mut b = loc.clone();
        b.push(88);
        push_atom(&mut b, node.as_str());
        b.extend_from_slice(&id.to_be_bytes());
        b.extend_from_slice(&serial.to_be_bytes());
        b.extend_from_slice(&creation.to_be_bytes());
        ExternalPid::with_local_ext_bytes(node, id, serial, creation, b)
    }
}

fn push_atom(b: &mut Vec<u8>, s: &str) {
    let n = s.len();
    if n <= 255 {
        b.push(119);
        b.push(n as u8);
    } else {
        b.push(118);
        b.extend_from_slice(&(n as u16).to_be_bytes());
    }
    b.extend_from_slice(s.as_bytes());
}

pub fn build(v: &Value) -> OwnedTerm {
    // "wrap": "headless" -- the value held as the tail of an improper list without elements (LIST_EXT with a zero count is its tail)
    if v.get("wrap").and_then(|w| w.as_str()) == Some("headless") {
        let mut inner = v.clone();
        if let Some(o) = inner.as_object_mut() {
            o.remove("wrap");
        }
        return OwnedTerm::ImproperList { elements: Vec::new(), tail: Box::new(build_plain(&inner)) };
    }
    build_plain(v)
}

fn build_plain(v: &Value) -> OwnedTerm {
    let k = v["k"].as_str().unwrap_or("");
    match k {
        "int" => build_int(
            v["neg"].as_bool().unwrap_or(false),
            &bytes_of(&v["mag"]),
            v.get("rep").and_then(|r| r.as_str()),
        ),
        "float" => {
            let b = bytes_of(&v["bits"]);
            let mut a = [0u8; 8];
            a.copy_from_slice(&b);
            OwnedTerm::Float(f64::from_bits(u64::from_be_bytes(a)))
        }
        "atom" => OwnedTerm::Atom(atom_of(v)),
        "bin" => match v.get("rep").and_then(|r| r.as_str()) {
            Some("string") => match String::from_utf8(bytes_of(&v["b"])) {
                Ok(s) => OwnedTerm::String(s),
                Err(e) => OwnedTerm::Binary(e.into_bytes()),
            },
            Some("bits8") => OwnedTerm::BitBinary { bytes: bytes_of(&v["b"]), bits: 8 },
            _ => OwnedTerm::Binary(bytes_of(&v["b"])),
        },
        "bits" => OwnedTerm::BitBinary {
            bytes: bytes_of(&v["b"]),
            bits: v["n"].as_u64().unwrap_or(8) as u8,
        },
        "nil" => match v.get("rep").and_then(|r| r.as_str()) {
            Some("list") => OwnedTerm::List(vec![]),
            _ => OwnedTerm::Nil,
        },
        "list" => {
            let es: Vec<OwnedTerm> = v["e"].as_array().map(|a| a.iter().map(build).collect()).unwrap_or_default();
            let t = &v["t"];
            if t["k"].as_str() == Some("nil") {
                OwnedTerm::List(es)
            } else {
                OwnedTerm::ImproperList { elements: es, tail: Box::new(build(t)) }
            }
        }
        "tuple" => OwnedTerm::Tuple(v["e"].as_array().map(|a| a.iter().map(build).collect()).unwrap_or_default()),
        "map" => {
            let mut m = BTreeMap::new();
            if let Some(a) = v["kv"].as_array() {
                for p in a {
                    m.insert(build(&p[0]), build(&p[1]));
                }
            }
            OwnedTerm::Map(m)
        }
        "pid" => OwnedTerm::Pid(build_pid(v)),
        "port" => {
            let node = atom_of(&v["node"]);
            let id = be_u64(&v["id"]);
            let creation = be_u32(&v["creation"]);
            let loc = bytes_of(&v["loc"]);
            if loc.is_empty() {
                OwnedTerm::Port(ExternalPort::new(node, id, creation))
            } else {
                let mut b = loc.clone();
                b.push(120);
                push_atom(&mut b, node.as_str());
                b.extend_from_slice(&id.to_be_bytes());
                b.extend_from_slice(&creation.to_be_bytes());
                OwnedTerm::Port(ExternalPort::with_local_ext_bytes(node, id, creation, b))
            }
        }
        "ref" => {
            let node = atom_of(&v["node"]);
            let creation = be_u32(&v["creation"]);
            let ids: Vec<u32> = v["words"].as_array().map(|a| a.iter().map(be_u32).collect()).unwrap_or_default();
            let loc = bytes_of(&v["loc"]);
            if loc.is_empty() {
                OwnedTerm::Reference(ExternalReference::new(node, creation, ids))
            } else {
                let mut b = loc.clone();
                b.push(90);
                b.extend_from_slice(&(ids.len() as u16).to_be_bytes());
                push_atom(&mut b, node.as_str());
                b.extend_from_slice(&creation.to_be_bytes());
                for i in &ids {
                    b.extend_from_slice(&i.to_be_bytes());
                }
                OwnedTerm::Reference(ExternalReference::with_local_ext_bytes(node, creation, ids, b))
            }
        }
        "export" => OwnedTerm::ExternalFun(ExternalFun::new(
            atom_of(&v["m"]),
            atom_of(&v["f"]),
            v["a"].as_u64().unwrap_or(0) as u8,
        )),
        "fun" => {
            let mut uniq = [0u8; 16];
            uniq.copy_from_slice(&bytes_of(&v["uniq"]));
            let free: Vec<OwnedTerm> = v["free"].as_array().map(|a| a.iter().map(build).collect()).unwrap_or_default();
            let small = |x: &Value| -> u32 {
                le_mag_to_u128(&bytes_of(&x["mag"])).unwrap_or(0) as u32
            };
            OwnedTerm::InternalFun(Box::new(InternalFun::new(
                v["arity"].as_u64().unwrap_or(0) as u8,
                uniq,
                be_u32(&v["index"]),
                free.len() as u32,
                atom_of(&v["m"]),
                small(&v["oi"]),
                small(&v["ou"]),
                build_pid(&v["pid"]),
                free,
            )))
        }
        other => panic!("build: unknown abstract kind {other:?}"),
    }
}

fn trim_hi(mut d: Vec<u8>) -> Vec<u8> {
    while d.last() == Some(&0) {
        d.pop();
    }
    d
}

pub fn denote_int_i64(i: i64) -> Value {
    let neg = i < 0;
    let m = (i as i128).unsigned_abs();
    let mag = trim_hi(m.to_le_bytes().to_vec());
    json!({"k":"int","neg":neg,"mag":mag})
}

fn atom_json(a: &Atom) -> Value {
    json!({"k":"atom","b":a.as_str().as_bytes()})
}

fn loc_of(b: &Option<bytes::Bytes>) -> Value {
    match b {
        Some(x) => bytes_json(&x[..x.len().min(8)]),
        None => json!([]),
    }
}

fn denote_pid(p: &ExternalPid) -> Value {
    json!({"k":"pid","node":atom_json(&p.node),"id":p.id.to_be_bytes(),"serial":p.serial.to_be_bytes(),
           "creation":p.creation.to_be_bytes(),"loc":loc_of(&p.local_ext_bytes)})
}

pub fn denote(t: &OwnedTerm) -> Value {
    match t {
        OwnedTerm::Integer(i) => denote_int_i64(*i),
        OwnedTerm::BigInt(b) => {
            let mag = trim_hi(b.digits.clone());
            let neg = b.sign.is_negative() && !mag.is_empty();
            json!({"k":"int","neg":neg,"mag":mag})
        }
        OwnedTerm::Float(f) => json!({"k":"float","bits":f.to_bits().to_be_bytes()}),
        OwnedTerm::Atom(a) => atom_json(a),
        OwnedTerm::Binary(b) => json!({"k":"bin","b":b}),
        OwnedTerm::String(s) => json!({"k":"bin","b":s.as_bytes()}),
        OwnedTerm::BitBinary { bytes, bits } => {
            if *bits == 8 {
                json!({"k":"bin","b":bytes})
            } else {
                json!({"k":"bits","b":bytes,"n":bits})
            }
        }
        OwnedTerm::Nil => json!({"k":"nil"}),
        OwnedTerm::List(es) => mk_list(es.iter().map(denote).collect(), json!({"k":"nil"})),
        OwnedTerm::ImproperList { elements, tail } => mk_list(elements.iter().map(denote).collect(), denote(tail)),
        OwnedTerm::Tuple(es) => json!({"k":"tuple","e":es.iter().map(denote).collect::<Vec<_>>()}),
        OwnedTerm::Map(m) => {
            let kv: Vec<Value> = m.iter().map(|(k, v)| json!([denote(k), denote(v)])).collect();
            json!({"k":"map","kv":kv})
        }
        OwnedTerm::Pid(p) => denote_pid(p),
        OwnedTerm::Port(p) => json!({"k":"port","node":atom_json(&p.node),"id":p.id.to_be_bytes(),
                                    "creation":p.creation.to_be_bytes(),"loc":loc_of(&p.local_ext_bytes)}),
        OwnedTerm::Reference(r) => json!({"k":"ref","node":atom_json(&r.node),"creation":r.creation.to_be_bytes(),
                                    "words":r.ids.iter().map(|i| json!(i.to_be_bytes())).collect::<Vec<_>>(),
                                    "loc":loc_of(&r.local_ext_bytes)}),
        OwnedTerm::ExternalFun(f) => json!({"k":"export","m":atom_json(&f.module),"f":atom_json(&f.function),"a":f.arity}),
        OwnedTerm::InternalFun(f) => json!({"k":"fun","arity":f.arity,"uniq":f.uniq,"index":f.index.to_be_bytes(),
                                    "m":atom_json(&f.module),"oi":denote_int_i64(f.old_index as i64),
                                    "ou":denote_int_i64(f.old_uniq as i64),"pid":denote_pid(&f.pid),
                                    "free":f.free_vars.iter().map(denote).collect::<Vec<_>>(),
                                    "num_free":f.num_free}),
    }
}

fn mk_list(es: Vec<Value>, tail: Value) -> Value {
    if es.is_empty() {
        return tail;
    }
    if tail["k"].as_str() == Some("list") {
        let mut all = es;
        all.extend(tail["e"].as_array().cloned().unwrap_or_default());
        json!({"k":"list","e":all,"t":tail["t"].clone()})
    } else {
        json!({"k":"list","e":es,"t":tail})
    }
}
