//! C18: operation sequences of spec/LocalProc.tla (sequential behaviours) executed on a real Node with
//! recording processes; per-process handled messages, exit / down notices, name table and liveness are
//! written out for comparison with the model.
use crate::inbound::Recorder;
use crate::io::{NdWriter, read_ndjson};
use crate::nodeenv::*;
use crate::term_json::denote;
use edp_client::verif;
use edp_node::Node;
use erltf::{Atom, ExternalPid, ExternalReference, OwnedTerm};
use serde_json::{Value, json};
use std::collections::HashMap;
use std::sync::{Arc, Mutex};
use std::time::Duration;
use tokio::net::TcpListener;

fn a(s: &str) -> OwnedTerm {
    OwnedTerm::Atom(Atom::new(s))
}

async fn settle(node: &Arc<Node>, log: &Arc<Mutex<Vec<Value>>>, want_handled: usize, want_procs: Option<usize>) {
    let t0 = std::time::Instant::now();
    loop {
        let handled = log.lock().unwrap().iter().filter(|e| e["msg"]["k"] == "regular").count();
        let procs_ok = match want_procs {
            Some(n) => node.process_count().await == n,
            None => true,
        };
        if handled >= want_handled && procs_ok {
            break;
        }
        if t0.elapsed() > Duration::from_millis(400) {
            break;
        }
        tokio::time::sleep(Duration::from_micros(300)).await;
    }
    // exit / down notices travel through mailboxes too
    tokio::time::sleep(Duration::from_millis(2)).await;
}

/// adversarial schedule from the race model: a link established after the dying process took its links snapshot
async fn late_link(idx: usize) -> Value {
    let sched = AsyncSched::install();
        sched.only(&["proc."]);
    sched.set_free_run(true);
    let mut node = Node::new(format!("ll{}@127.0.0.1", idx % 5 + 1), COOKIE);
    if node.start(0).await.is_err() {
        return json!({"tool_error": "node start"});
    }
    let node = Arc::new(node);
    let log = Arc::new(Mutex::new(Vec::new()));
    let p1 = node.spawn(Recorder { tag: "p1".into(), log: log.clone() }).await.expect("spawn");
    let p2 = node.spawn(Recorder { tag: "p2".into(), log: log.clone() }).await.expect("spawn");
    let actor = format!("proc:{}", p1.id);
    sched.set_free_run(false);
    let _ = node.send(&p1, a("die")).await;
    let mut notes = Vec::new();
    if sched.wait_parked(&actor, Duration::from_millis(800)).await.map(|x| x.0) != Some("proc.failed".into()) {
        notes.push("p1 did not reach proc.failed");
    }
    sched.release(&actor);
    if sched.wait_parked(&actor, Duration::from_millis(800)).await.map(|x| x.0) != Some("proc.links_snapshot".into()) {
        notes.push("p1 did not reach proc.links_snapshot");
    }
    // p1 still resolves: the link succeeds on both sides
    let link_ok = node.link(&p2, &p1).await.is_ok();
    let p1_resolved_at_link = node.registry().get(&p1).await.is_some();
    sched.release(&actor);
    let _ = sched.wait_parked(&actor, Duration::from_millis(800)).await;
    sched.release(&actor);
    sched.set_free_run(true);
    tokio::time::sleep(Duration::from_millis(30)).await;
    let p2_notices: Vec<Value> = log.lock().unwrap().iter().filter(|e| e["proc"] == "p2" && e["msg"]["k"] == "exit").cloned().collect();
    let gone = node.registry().get(&p1).await.is_none();
    sched.uninstall();
    json!({"adversarial": "late_link", "link_ok": link_ok, "p1_resolved_at_link": p1_resolved_at_link, "p1_gone": gone, "p2_exit_notices": p2_notices.len(), "notes": notes})
}

/// adversarial schedule from the race model: while a failed process is on its way out (after its failure, before its removal from
/// the tables) another task moves its name to a live process and registers a further name for the dying one; in the end the
/// moved name must still resolve to the live process and the further name must not resolve at all
async fn name_move(idx: usize) -> Value {
    let sched = AsyncSched::install();
    sched.only(&["proc."]);
    sched.set_free_run(true);
    let mut node = Node::new(format!("nm{}@127.0.0.1", idx % 5 + 1), COOKIE);
    if node.start(0).await.is_err() {
        return json!({"tool_error": "node start"});
    }
    let node = Arc::new(node);
    let log = Arc::new(Mutex::new(Vec::new()));
    let p = node.spawn(Recorder { tag: "p".into(), log: log.clone() }).await.expect("spawn");
    let q = node.spawn(Recorder { tag: "q".into(), log: log.clone() }).await.expect("spawn");
    let _ = node.register(Atom::new("svc"), p.clone()).await;
    let actor = format!("proc:{}", p.id);
    sched.set_free_run(false);
    let _ = node.send(&p, a("die")).await;
    let mut notes: Vec<String> = Vec::new();
    if sched.wait_parked(&actor, Duration::from_millis(800)).await.map(|x| x.0) != Some("proc.failed".into()) {
        notes.push("p did not reach proc.failed".into());
    }
    // p is parked right after its failure: the name is moved to q, and a second name is given to p
    let unreg = node.unregister(&Atom::new("svc")).await.is_ok();
    let rereg = node.register(Atom::new("svc"), q.clone()).await.is_ok();
    let extra = node.register(Atom::new("late"), p.clone()).await.is_ok();
    sched.set_free_run(true);
    tokio::time::sleep(Duration::from_millis(60)).await;
    let p_gone = node.registry().get(&p).await.is_none();
    let svc = node.whereis(&Atom::new("svc")).await;
    let late = node.whereis(&Atom::new("late")).await;
    sched.uninstall();
    json!({"adversarial": "name_move", "unregister_ok": unreg, "register_to_q_ok": rereg, "late_register_ok": extra, "p_gone": p_gone,
           "svc_resolves_to_q": svc.as_ref() == Some(&q), "svc_resolves": svc.is_some(), "late_resolves": late.is_some(), "notes": notes})
}

/// a watcher that stalls in its handler on the message `block` until the gate opens (everything else is recorded)
struct Gated {
    log: Arc<Mutex<Vec<Value>>>,
    gate: Arc<tokio::sync::Notify>,
}
impl edp_node::Process for Gated {
    async fn handle_message(&mut self, msg: edp_node::Message) -> edp_node::Result<()> {
        let d = match &msg {
            edp_node::Message::Regular { body, .. } => {
                if matches!(body, OwnedTerm::Atom(x) if x.as_str() == "block") {
                    self.gate.notified().await;
                }
                json!({"k": "regular"})
            }
            edp_node::Message::Exit { from, .. } => json!({"k": "exit", "from": from.id}),
            edp_node::Message::MonitorExit { monitored, reference, .. } => json!({"k": "monitor_exit", "from": monitored.id, "ref": reference.ids}),
            _ => json!({"k": "other"}),
        };
        self.log.lock().unwrap().push(d);
        Ok(())
    }
}

/// back-pressure: the linked and monitoring watcher is stalled with a full mailbox when the target terminates; once it
/// drains, it must find exactly one exit notice and one down notice (LocalProc: notices are appended regardless of load)
async fn full_mailbox(idx: usize) -> Value {
    let mut node = Node::new(format!("fm{}@127.0.0.1", idx % 5 + 1), COOKIE);
    if node.start(0).await.is_err() {
        return json!({"tool_error": "node start"});
    }
    let node = Arc::new(node);
    let log = Arc::new(Mutex::new(Vec::new()));
    let tlog = Arc::new(Mutex::new(Vec::new()));
    let gate = Arc::new(tokio::sync::Notify::new());
    let w = node.spawn(Gated { log: log.clone(), gate: gate.clone() }).await.expect("spawn");
    let t = node.spawn(Recorder { tag: "t".into(), log: tlog.clone() }).await.expect("spawn");
    let link_ok = node.link(&w, &t).await.is_ok();
    let mref = node.monitor(&w, &t).await.ok();
    let _ = node.send(&w, a("block")).await;
    tokio::time::sleep(Duration::from_millis(20)).await;
    // fill the watcher's mailbox to the brim
    let mut queued = 0usize;
    loop {
        match tokio::time::timeout(Duration::from_millis(30), node.send(&w, OwnedTerm::Integer(queued as i64))).await {
            Ok(Ok(())) => queued += 1,
            _ => break,
        }
        if queued > 100_000 {
            break;
        }
    }
    let _ = node.send(&t, a("die")).await;
    tokio::time::sleep(Duration::from_millis(150)).await;
    let target_gone_while_watcher_full = node.registry().get(&t).await.is_none();
    // the watcher drains
    gate.notify_one();
    for _ in 0..200 {
        tokio::time::sleep(Duration::from_millis(10)).await;
        let l = log.lock().unwrap();
        if l.iter().filter(|e| e["k"] == "exit" || e["k"] == "monitor_exit").count() >= 2 && true {
            break;
        }
    }
    let l = log.lock().unwrap().clone();
    let exits = l.iter().filter(|e| e["k"] == "exit" && e["from"] == t.id).count();
    let downs: Vec<Value> = l.iter().filter(|e| e["k"] == "monitor_exit" && e["from"] == t.id).cloned().collect();
    let regular = l.iter().filter(|e| e["k"] == "regular").count();
    json!({"adversarial": "full_mailbox", "link_ok": link_ok, "monitor_ok": mref.is_some(), "queued_until_full": queued, "target_gone_while_watcher_full": target_gone_while_watcher_full,
           "regular_handled": regular, "exit_notices": exits, "down_notices": downs.len(), "down_ref_matches": mref.as_ref().map(|r| downs.iter().all(|d| d["ref"] == json!(r.ids))),
           "target_gone": node.registry().get(&t).await.is_none(), "notes": Vec::<String>::new()})
}

/// LocalProc!Register is one atomic step: of several tasks registering the same free name for different live processes at the
/// same moment exactly one is told it holds the name, and the name resolves to that one's process
async fn register_race(idx: usize) -> Value {
    let mut node = Node::new(format!("rr{}@127.0.0.1", idx % 5 + 1), COOKIE);
    if node.start(0).await.is_err() {
        return json!({"tool_error": "node start"});
    }
    let node = Arc::new(node);
    let log = Arc::new(Mutex::new(Vec::new()));
    let mut pids = Vec::new();
    for i in 0..8 {
        pids.push(node.spawn(Recorder { tag: format!("p{i}"), log: log.clone() }).await.expect("spawn"));
    }
    let rounds = 4000usize;
    let mut bad_rounds = 0usize;
    let mut example = Value::Null;
    for r in 0..rounds {
        let name = Atom::new(&format!("svc{r}"));
        let barrier = Arc::new(tokio::sync::Barrier::new(pids.len()));
        let mut hs = Vec::new();
        for p in pids.iter() {
            let (n, nm, p, b) = (node.clone(), name.clone(), p.clone(), barrier.clone());
            hs.push(tokio::spawn(async move {
                b.wait().await;
                n.register(nm, p).await.is_ok()
            }));
        }
        let mut winners = Vec::new();
        for (i, h) in hs.into_iter().enumerate() {
            if h.await.unwrap_or(false) {
                winners.push(i);
            }
        }
        let resolves = node.whereis(&name).await;
        let resolves_to = resolves.as_ref().and_then(|p| pids.iter().position(|q| q == p));
        if winners.len() != 1 || resolves_to != winners.first().copied() {
            bad_rounds += 1;
            if example.is_null() {
                example = json!({"round": r, "tasks_told_they_hold_the_name": winners, "name_resolves_to_task": resolves_to});
            }
        }
        let _ = node.unregister(&name).await;
    }
    // the same on a single-threaded runtime with a forced switch at every await point in turn: tokio makes a task yield at the
    // next await once it has used up its budget of 128 operations, so a task that first performs k cheap lookups and then
    // registers is preempted inside register at a point that moves with k
    let reg = node.registry();
    let (pa, pb) = (pids[0].clone(), pids[1].clone());
    let sweep = std::thread::spawn(move || {
        let rt = tokio::runtime::Builder::new_current_thread().enable_all().build().expect("rt");
        rt.block_on(async move {
            let mut bad = Vec::new();
            for k in 0..300usize {
                let name = Atom::new(&format!("sweep{k}"));
                let other = Atom::new("nobody");
                let (r1, n1, p1, o1) = (reg.clone(), name.clone(), pa.clone(), other.clone());
                let a = tokio::spawn(async move {
                    for _ in 0..k {
                        let _ = r1.whereis(&o1).await;
                    }
                    r1.register(n1, p1).await.is_ok()
                });
                let (r2, n2, p2) = (reg.clone(), name.clone(), pb.clone());
                let b = tokio::spawn(async move { r2.register(n2, p2).await.is_ok() });
                let (ra, rb) = (a.await.unwrap_or(false), b.await.unwrap_or(false));
                let holder = reg.whereis(&name).await;
                let consistent = (ra != rb) && holder.as_ref() == Some(if ra { &pa } else { &pb });
                if !consistent && bad.len() < 3 {
                    bad.push(json!({"lookups_before_register": k, "first_task_told_ok": ra, "second_task_told_ok": rb, "name_resolves": holder.is_some()}));
                }
                let _ = reg.unregister(&name).await;
            }
            bad
        })
    }).join().unwrap_or_default();
    if !sweep.is_empty() {
        bad_rounds += sweep.len();
        if example.is_null() {
            example = json!({"forced_switch_sweep": sweep});
        }
    }
    json!({"adversarial": "register_race", "rounds": rounds, "tasks": pids.len(), "bad_rounds": bad_rounds, "example": example, "notes": Vec::<String>::new()})
}

async fn run_one(sc: &Value, idx: usize) -> Value {
    if sc["adversarial"].as_str() == Some("register_race") {
        return register_race(idx).await;
    }
    if sc["adversarial"].as_str() == Some("name_move") {
        return name_move(idx).await;
    }
    if sc["adversarial"].as_str() == Some("full_mailbox") {
        return full_mailbox(idx).await;
    }
    if sc["adversarial"].as_str() == Some("late_link") {
        return late_link(idx).await;
    }
    let mut node = Node::new(format!("lp{}@127.0.0.1", idx % 5 + 1), COOKIE);
    if node.start(0).await.is_err() {
        return json!({"tool_error": "node start"});
    }
    let node = Arc::new(node);
    let log = Arc::new(Mutex::new(Vec::new()));
    let mut pids: HashMap<String, ExternalPid> = HashMap::new();
    let mut refs: HashMap<i64, ExternalReference> = HashMap::new();
    let mut results = Vec::new();
    let mut accepted = 0usize;
    let mut live = 0usize;
    let hist = sc["hist"].as_array().cloned().unwrap_or_default();
    for op in hist.iter() {
        let name = op[0].as_str().unwrap_or("");
        let x = op[1].as_str().unwrap_or("").to_string();
        let r: String = match name {
            "spawn" => {
                let p = node.spawn(Recorder { tag: x.clone(), log: log.clone() }).await;
                match p {
                    Ok(pid) => {
                        pids.insert(x.clone(), pid);
                        live += 1;
                        "ok".into()
                    }
                    Err(_) => "err".into(),
                }
            }
            "register" => {
                let p = op[2].as_str().unwrap_or("");
                match node.register(Atom::new(&x), pids[p].clone()).await {
                    Ok(()) => "ok".into(),
                    Err(_) => "err".into(),
                }
            }
            "unregister" => match node.unregister(&Atom::new(&x)).await {
                Ok(()) => "ok".into(),
                Err(_) => "err".into(),
            },
            "send" | "kill" => {
                let id = op[2].as_i64().unwrap_or(0);
                let body = OwnedTerm::Tuple(vec![a(if name == "kill" { "die" } else { "msg" }), OwnedTerm::Integer(id)]);
                match node.send(&pids[&x], body).await {
                    Ok(()) => {
                        accepted += 1;
                        if name == "kill" {
                            live -= 1;
                        }
                        "ok".into()
                    }
                    Err(_) => "err".into(),
                }
            }
            "send_name" => {
                let id = op[2].as_i64().unwrap_or(0);
                let body = OwnedTerm::Tuple(vec![a("msg"), OwnedTerm::Integer(id)]);
                match node.send_to_name(&Atom::new(&x), body).await {
                    Ok(()) => {
                        accepted += 1;
                        "ok".into()
                    }
                    Err(_) => "err".into(),
                }
            }
            "link" => {
                let b = op[2].as_str().unwrap_or("");
                match node.link(&pids[&x], &pids[b]).await {
                    Ok(()) => "ok".into(),
                    Err(_) => "err".into(),
                }
            }
            "unlink" => {
                let b = op[2].as_str().unwrap_or("");
                match node.unlink(&pids[&x], &pids[b]).await {
                    Ok(()) => "ok".into(),
                    Err(_) => "err".into(),
                }
            }
            "monitor" => {
                let b = op[2].as_str().unwrap_or("");
                let rn = op[3].as_i64().unwrap_or(0);
                match node.monitor(&pids[&x], &pids[b]).await {
                    Ok(r) => {
                        refs.insert(rn, r);
                        "ok".into()
                    }
                    Err(_) => "err".into(),
                }
            }
            "demonitor" => {
                let b = op[2].as_str().unwrap_or("");
                let rn = op[3].as_i64().unwrap_or(0);
                match refs.get(&rn) {
                    Some(r) => match node.demonitor(&pids[&x], &pids[b], r).await {
                        Ok(()) => "ok".into(),
                        Err(_) => "err".into(),
                    },
                    None => "err".into(),
                }
            }
            _ => "skip".into(),
        };
        results.push(json!(r));
        settle(&node, &log, accepted, Some(live)).await;
    }
    tokio::time::sleep(Duration::from_millis(5)).await;
    // project what the handlers saw
    let pid_name = |d: &Value| -> Value {
        for (k, p) in pids.iter() {
            if &denote(&OwnedTerm::Pid(p.clone())) == d {
                return json!(k);
            }
        }
        json!("?")
    };
    let ref_no = |d: &Value| -> Value {
        for (k, r) in refs.iter() {
            if &denote(&OwnedTerm::Reference(r.clone())) == d {
                return json!(k);
            }
        }
        json!(0)
    };
    let mut handled: HashMap<String, Vec<Value>> = HashMap::new();
    let mut notices: HashMap<String, Vec<Value>> = HashMap::new();
    for e in log.lock().unwrap().iter() {
        let p = e["proc"].as_str().unwrap_or("").to_string();
        let m = &e["msg"];
        match m["k"].as_str() {
            Some("regular") => {
                let id = m["body"]["e"][1]["mag"].as_array().map(|d| d.iter().enumerate().fold(0i64, |acc, (i, x)| acc + (x.as_i64().unwrap_or(0) << (8 * i)))).unwrap_or(-1);
                handled.entry(p).or_default().push(json!(id));
            }
            Some("exit") => notices.entry(p).or_default().push(json!(["exit", pid_name(&m["from"]), 0])),
            Some("monitor_exit") => notices.entry(p).or_default().push(json!(["down", pid_name(&m["from"]), ref_no(&m["ref"])])),
            _ => notices.entry(p).or_default().push(json!(["other", m["k"], 0])),
        }
    }
    let mut names = serde_json::Map::new();
    for n in ["n1", "n2"] {
        let w = node.whereis(&Atom::new(n)).await;
        names.insert(n.to_string(), match w {
            Some(p) => pid_name(&denote(&OwnedTerm::Pid(p))),
            None => json!("none"),
        });
    }
    let mut alive = serde_json::Map::new();
    for (k, p) in pids.iter() {
        alive.insert(k.clone(), json!(node.registry().get(p).await.is_some()));
    }
    let registered: Vec<String> = node.registered().await.iter().map(|a| a.as_str().to_string()).collect();
    json!({"results": results, "handled": handled, "notices": notices, "names": names, "alive": alive, "registered": registered, "process_count": node.process_count().await})
}

/// a recording process whose handling of client messages is a scheduling point (exit / down notices are recorded as they come)
struct RaceRec {
    tag: String,
    log: Arc<Mutex<Vec<Value>>>,
}

impl edp_node::Process for RaceRec {
    async fn handle_message(&mut self, msg: edp_node::Message) -> edp_node::Result<()> {
        if matches!(msg, edp_node::Message::Regular { .. }) {
            verif::point(format!("h:{}", self.tag), "h.recv", "").await;
        }
        let mut inner = Recorder { tag: self.tag.clone(), log: self.log.clone() };
        inner.handle_message(msg).await
    }
}

/// one interleaved behaviour of LocalProc (MC_LocalProcRace): every step of the model -- client operation or step of a process
/// task -- is forced on the real node in the model's order
async fn race_one(sc: &Value, idx: usize) -> Value {
    let sched = AsyncSched::install();
    sched.only(&["proc.", "h."]);
    sched.set_free_run(true);
    let mut node = Node::new(format!("rc{}@127.0.0.1", idx % 5 + 1), COOKIE);
    if node.start(0).await.is_err() {
        sched.uninstall();
        return json!({"tool_error": "node start"});
    }
    let node = Arc::new(node);
    let log = Arc::new(Mutex::new(Vec::new()));
    let mut pids: HashMap<String, ExternalPid> = HashMap::new();
    let mut refs: HashMap<i64, ExternalReference> = HashMap::new();
    let mut notes: Vec<String> = Vec::new();
    let mut results = Vec::new();
    let steps = sc["steps"].as_array().cloned().unwrap_or_default();
    for op in sc["hist"].as_array().cloned().unwrap_or_default().iter().filter(|o| o[0] == "spawn") {
        let x = op[1].as_str().unwrap_or("").to_string();
        match node.spawn(RaceRec { tag: x.clone(), log: log.clone() }).await {
            Ok(pid) => { pids.insert(x, pid); }
            Err(_) => { sched.uninstall(); return json!({"tool_error": "spawn"}); }
        }
    }
    sched.set_free_run(false);
    let handled_of = |log: &Arc<Mutex<Vec<Value>>>, p: &str| log.lock().unwrap().iter().filter(|e| e["proc"] == p && e["msg"]["k"] == "regular").count();
    let w = Duration::from_millis(800);
    'steps: for (si, st) in steps.iter().enumerate() {
        match st["k"].as_str().unwrap_or("") {
            "client" => {
                let op = &st["op"];
                let name = op[0].as_str().unwrap_or("");
                let x = op[1].as_str().unwrap_or("").to_string();
                let r: String = match name {
                    "send" | "kill" => {
                        let id = op[2].as_i64().unwrap_or(0);
                        let body = OwnedTerm::Tuple(vec![a(if name == "kill" { "die" } else { "msg" }), OwnedTerm::Integer(id)]);
                        if node.send(&pids[&x], body).await.is_ok() { "ok".into() } else { "err".into() }
                    }
                    "link" => if node.link(&pids[&x], &pids[op[2].as_str().unwrap_or("")]).await.is_ok() { "ok".into() } else { "err".into() },
                    "unlink" => if node.unlink(&pids[&x], &pids[op[2].as_str().unwrap_or("")]).await.is_ok() { "ok".into() } else { "err".into() },
                    "monitor" => match node.monitor(&pids[&x], &pids[op[2].as_str().unwrap_or("")]).await {
                        Ok(r) => { refs.insert(op[3].as_i64().unwrap_or(0), r); "ok".into() }
                        Err(_) => "err".into(),
                    },
                    "demonitor" => match refs.get(&op[3].as_i64().unwrap_or(0)) {
                        Some(r) => if node.demonitor(&pids[&x], &pids[op[2].as_str().unwrap_or("")], r).await.is_ok() { "ok".into() } else { "err".into() },
                        None => "err".into(),
                    },
                    _ => "skip".into(),
                };
                results.push(json!(r));
            }
            "client2" => {}
            "proc" => {
                let p = st["p"].as_str().unwrap_or("").to_string();
                let actor = format!("proc:{}", pids[&p].id);
                let to = st["to"].as_str().unwrap_or("");
                match to {
                    "running" | "failed" => {
                        let h = format!("h:{p}");
                        if sched.wait_parked(&h, w).await.map(|x| x.0) != Some("h.recv".into()) {
                            notes.push(format!("step {si}: {p} is not waiting to handle a message"));
                            break 'steps;
                        }
                        let before = handled_of(&log, &p);
                        sched.release(&h);
                        let t0 = std::time::Instant::now();
                        while handled_of(&log, &p) == before && t0.elapsed() < w {
                            tokio::time::sleep(Duration::from_micros(200)).await;
                        }
                        if to == "failed" && sched.wait_parked(&actor, w).await.map(|x| x.0) != Some("proc.failed".into()) {
                            notes.push(format!("step {si}: {p} did not reach proc.failed"));
                            break 'steps;
                        }
                    }
                    "notify_links" => {
                        sched.release(&actor);
                        if sched.wait_parked(&actor, w).await.map(|x| x.0) != Some("proc.links_snapshot".into()) {
                            notes.push(format!("step {si}: {p} did not reach proc.links_snapshot"));
                            break 'steps;
                        }
                    }
                    "snap_mons" => {
                        // exit notices, monitor snapshot and down notices: one stretch of the real exit path
                        sched.release(&actor);
                        if sched.wait_parked(&actor, w).await.map(|x| x.0) != Some("proc.removing".into()) {
                            notes.push(format!("step {si}: {p} did not reach proc.removing"));
                            break 'steps;
                        }
                    }
                    "notify_mons" | "removing" => {}
                    "gone" => {
                        sched.release(&actor);
                        let t0 = std::time::Instant::now();
                        while node.registry().get(&pids[&p]).await.is_some() && t0.elapsed() < w {
                            tokio::time::sleep(Duration::from_micros(200)).await;
                        }
                    }
                    other => {
                        notes.push(format!("step {si}: unknown phase {other}"));
                        break 'steps;
                    }
                }
            }
            _ => {}
        }
    }
    sched.set_free_run(true);
    tokio::time::sleep(Duration::from_millis(40)).await;
    let pid_name = |d: &Value| -> Value {
        for (k, p) in pids.iter() {
            if &denote(&OwnedTerm::Pid(p.clone())) == d {
                return json!(k);
            }
        }
        json!("?")
    };
    let ref_no = |d: &Value| -> Value {
        for (k, r) in refs.iter() {
            if &denote(&OwnedTerm::Reference(r.clone())) == d {
                return json!(k);
            }
        }
        json!(0)
    };
    let mut handled: HashMap<String, Vec<Value>> = HashMap::new();
    let mut notices: HashMap<String, Vec<Value>> = HashMap::new();
    for e in log.lock().unwrap().iter() {
        let p = e["proc"].as_str().unwrap_or("").to_string();
        let m = &e["msg"];
        match m["k"].as_str() {
            Some("regular") => {
                let id = m["body"]["e"][1]["mag"].as_array().map(|d| d.iter().enumerate().fold(0i64, |acc, (i, x)| acc + (x.as_i64().unwrap_or(0) << (8 * i)))).unwrap_or(-1);
                handled.entry(p).or_default().push(json!(id));
            }
            Some("exit") => notices.entry(p).or_default().push(json!(["exit", pid_name(&m["from"]), 0])),
            Some("monitor_exit") => notices.entry(p).or_default().push(json!(["down", pid_name(&m["from"]), ref_no(&m["ref"])])),
            _ => notices.entry(p).or_default().push(json!(["other", m["k"], 0])),
        }
    }
    let mut alive = serde_json::Map::new();
    for (k, p) in pids.iter() {
        alive.insert(k.clone(), json!(node.registry().get(p).await.is_some()));
    }
    sched.uninstall();
    json!({"results": results, "handled": handled, "notices": notices, "alive": alive, "notes": notes})
}

pub fn run_race(args: &[String]) -> i32 {
    // localproc-race <scenarios.ndjson> <out.ndjson>
    let scenarios = read_ndjson(&args[0]);
    let rt = tokio::runtime::Builder::new_multi_thread().worker_threads(4).enable_all().build().expect("rt");
    let mut w = NdWriter::create(&args[1]);
    rt.block_on(async {
        let listener = TcpListener::bind("127.0.0.1:0").await.expect("bind");
        let (epmd_port, _epmd) = fake_epmd(listener.local_addr().unwrap().port()).await;
        verif::set_epmd_port(epmd_port);
        for (i, sc) in scenarios.iter().enumerate() {
            let mut o = race_one(sc, i).await;
            o["id"] = sc["id"].clone();
            w.put(&o);
        }
    });
    w.finish();
    0
}

pub fn run(args: &[String]) -> i32 {
    // localproc-run <scenarios.ndjson> <out.ndjson>
    let scenarios = read_ndjson(&args[0]);
    let rt = tokio::runtime::Builder::new_multi_thread().worker_threads(4).enable_all().build().expect("rt");
    let mut w = NdWriter::create(&args[1]);
    rt.block_on(async {
        let listener = TcpListener::bind("127.0.0.1:0").await.expect("bind");
        let (epmd_port, _epmd) = fake_epmd(listener.local_addr().unwrap().port()).await;
        verif::set_epmd_port(epmd_port);
        for (i, sc) in scenarios.iter().enumerate() {
            let mut o = run_one(sc, i).await;
            o["id"] = sc["id"].clone();
            w.put(&o);
        }
    });
    w.finish();
    0
}
