//! C08: ControlMessage::from_term / to_term / into_term on the tuples of spec/Control.tla and the
//! library's named variants rendered for comparison with the protocol table.
use crate::io::{NdWriter, catch, quiet_panics, read_ndjson};
use crate::term_json::{build, denote};
use edp_client::control::ControlMessage;
use erltf::{Atom, OwnedTerm};
use serde_json::{Value, json};

fn a(s: &str) -> OwnedTerm {
    OwnedTerm::Atom(Atom::new(s))
}

/// the library's variant for a protocol operation, every field a marker atom named after the
/// protocol's field (this mapping Rust field -> protocol field is part of the trusted harness)
fn named(name: &str) -> Option<ControlMessage> {
    use ControlMessage::*;
    Some(match name {
        "LINK" => Link { from_pid: a("FromPid"), to_pid: a("ToPid") },
        "SEND" => Send { cookie: a("Unused"), to_pid: a("ToPid") },
        "EXIT" => Exit { from_pid: a("FromPid"), to_pid: a("ToPid"), reason: a("Reason") },
        "UNLINK" => Unlink { from_pid: a("FromPid"), to_pid: a("ToPid") },
        "NODE_LINK" => NodeLink,
        "REG_SEND" => RegSend { from_pid: a("FromPid"), cookie: a("Unused"), to_name: a("ToName") },
        "GROUP_LEADER" => GroupLeader { from_pid: a("FromPid"), to_pid: a("ToPid") },
        "EXIT2" => Exit2 { from_pid: a("FromPid"), to_pid: a("ToPid"), reason: a("Reason") },
        "SEND_TT" => SendTt { cookie: a("Unused"), to_pid: a("ToPid"), trace_token: a("TraceToken") },
        "EXIT_TT" => ExitTt { from_pid: a("FromPid"), to_pid: a("ToPid"), trace_token: a("TraceToken"), reason: a("Reason") },
        "REG_SEND_TT" => RegSendTt { from_pid: a("FromPid"), cookie: a("Unused"), to_name: a("ToName"), trace_token: a("TraceToken") },
        "EXIT2_TT" => Exit2Tt { from_pid: a("FromPid"), to_pid: a("ToPid"), trace_token: a("TraceToken"), reason: a("Reason") },
        "MONITOR_P" => MonitorP { from_pid: a("FromPid"), to_proc: a("ToProc"), reference: a("Ref") },
        "DEMONITOR_P" => DemonitorP { from_pid: a("FromPid"), to_proc: a("ToProc"), reference: a("Ref") },
        "MONITOR_P_EXIT" => MonitorPExit { from_proc: a("FromProc"), to_pid: a("ToPid"), reference: a("Ref"), reason: a("Reason") },
        "SEND_SENDER" => SendSender { from_pid: a("FromPid"), to_pid: a("ToPid") },
        "SEND_SENDER_TT" => SendSenderTt { from_pid: a("FromPid"), to_pid: a("ToPid"), trace_token: a("TraceToken") },
        "PAYLOAD_EXIT" => PayloadExit { from_pid: a("FromPid"), to_pid: a("ToPid") },
        "PAYLOAD_EXIT_TT" => PayloadExitTt { from_pid: a("FromPid"), to_pid: a("ToPid"), trace_token: a("TraceToken") },
        "PAYLOAD_EXIT2" => PayloadExit2 { from_pid: a("FromPid"), to_pid: a("ToPid") },
        "PAYLOAD_EXIT2_TT" => PayloadExit2Tt { from_pid: a("FromPid"), to_pid: a("ToPid"), trace_token: a("TraceToken") },
        "PAYLOAD_MONITOR_P_EXIT" => PayloadMonitorPExit { from_proc: a("FromProc"), to_pid: a("ToPid"), reference: a("Ref") },
        "SPAWN_REQUEST" => SpawnRequest { req_id: a("ReqId"), from: a("From"), group_leader: a("GroupLeader"), mfa: a("MFA"), arg_list: a("ArgList"), opt_list: a("OptList") },
        "SPAWN_REQUEST_TT" => SpawnRequestTt { req_id: a("ReqId"), from: a("From"), group_leader: a("GroupLeader"), mfa: a("MFA"), arg_list: a("ArgList"), opt_list: a("OptList"), trace_token: a("TraceToken") },
        "SPAWN_REPLY" => SpawnReply { req_id: a("ReqId"), to: a("To"), flags: a("Flags"), result: a("Result") },
        "SPAWN_REPLY_TT" => SpawnReplyTt { req_id: a("ReqId"), to: a("To"), flags: a("Flags"), result: a("Result"), trace_token: a("TraceToken") },
        "ALIAS_SEND" => AliasSend { from_pid: a("FromPid"), alias: a("Alias") },
        "ALIAS_SEND_TT" => AliasSendTt { from_pid: a("FromPid"), alias: a("Alias"), trace_token: a("TraceToken") },
        "UNLINK_ID" => UnlinkId { id: 7, from_pid: a("FromPid"), to_pid: a("ToPid") },
        "UNLINK_ID_ACK" => UnlinkIdAck { id: 7, from_pid: a("FromPid"), to_pid: a("ToPid") },
        _ => return None,
    })
}

fn variant_name(c: &ControlMessage) -> String {
    let d = format!("{c:?}");
    d.split(|ch: char| !ch.is_alphanumeric()).next().unwrap_or("").to_string()
}

pub fn run(args: &[String]) -> i32 {
    // control-obs <tuples.ndjson> <out.ndjson> <table.ndjson> <table_out.ndjson>
    quiet_panics();
    let recs = read_ndjson(&args[0]);
    let mut w = NdWriter::create(&args[1]);
    for rec in recs.iter() {
        let t = build(&rec["v"]);
        let r = catch(|| ControlMessage::from_term(&t));
        let o = match r {
            Err(p) => json!({"id": rec["id"], "panic": p}),
            Ok(Err(e)) => json!({"id": rec["id"], "ok": false, "err": format!("{e:?}")}),
            Ok(Ok(cm)) => {
                let back = cm.to_term();
                let consumed = cm.clone().into_term();
                // across the wire
                let wire = catch(|| {
                    let bytes = erltf::encode(&back).map_err(|e| format!("{e:?}"))?;
                    let dec = erltf::decode(&bytes).map_err(|e| format!("{e:?}"))?;
                    let cm2 = ControlMessage::from_term(&dec).map_err(|e| format!("{e:?}"))?;
                    Ok::<_, String>((denote(&cm2.to_term()), variant_name(&cm2), cm2 == cm))
                });
                let wire_v = match wire {
                    Ok(Ok((d, n, same))) => json!({"ok": true, "den": d, "variant": n, "same_message": same}),
                    Ok(Err(e)) => json!({"ok": false, "err": e}),
                    Err(p) => json!({"ok": false, "panic": p}),
                };
                json!({"id": rec["id"], "ok": true, "variant": variant_name(&cm), "to_term": denote(&back),
                       "into_term_same": denote(&consumed) == denote(&back) && consumed == back, "wire": wire_v})
            }
        };
        w.put(&o);
    }
    w.finish();
    let table = read_ndjson(&args[2]);
    let mut tw = NdWriter::create(&args[3]);
    for row in table.iter() {
        let name = row["name"].as_str().unwrap_or("");
        match named(name) {
            None => tw.put(&json!({"name": name, "missing": true})),
            Some(cm) => {
                let t = cm.to_term();
                let parsed_back = ControlMessage::from_term(&t).map(|c| variant_name(&c) == variant_name(&cm)).unwrap_or(false);
                tw.put(&json!({"name": name, "variant": variant_name(&cm), "tuple": denote(&t), "parses_back_to_same_variant": parsed_back}))
            }
        }
    }
    tw.finish();
    0
}
