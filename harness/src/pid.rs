//! C16: PidAllocator::allocate and Node::make_reference under a deterministic thread scheduler
//! (guarded hooks: sync_point / lock_probe).  Exactly one worker runs between two scheduling
//! points, so the recorded event order is the execution order.  Output: one trace (ndjson) that
//! TLC validates against spec/PidAlloc.tla.
use crate::io::{NdWriter, read_ndjson};
use edp_client::PidAllocator;
use edp_client::verif;
use erltf::Atom;
use rand::rngs::StdRng;
use rand::{Rng, SeedableRng};
use serde_json::{Value, json};
use std::cell::Cell;
use std::collections::{HashMap, HashSet};
use std::sync::atomic::Ordering;
use std::sync::{Arc, Condvar, Mutex};
use std::time::Duration;

thread_local! {
    static TID: Cell<u64> = const { Cell::new(0) };
}

#[derive(Default)]
struct State {
    parked: HashMap<u64, (String, u64, u64)>,
    go: HashSet<u64>,
    done: HashSet<u64>,
    events: Vec<Value>,
}

struct Sched {
    st: Mutex<State>,
    cv: Condvar,
    serial_shift: u64,
    ctr_shift: u64,
}

impl Sched {
    /// called by a worker at a scheduling point: log the arrival, park until released
    fn arrive(&self, label: &str, a: u64, b: u64) {
        let tid = TID.with(|t| t.get());
        if tid == 0 {
            return;
        }
        let mut st = self.st.lock().unwrap();
        let ev = match label {
            "start" => None,
            "call" => Some(json!({"ev": "call", "t": tid})),
            "pid.blocked" => Some(json!({"ev": "blocked", "t": tid})),
            "pid.locked" => Some(json!({"ev": "locked", "t": tid})),
            "pid.loaded_id" => Some(json!({"ev": "loaded_id", "t": tid, "id": a})),
            "pid.loaded_serial" => Some(json!({"ev": "loaded_serial", "t": tid, "serial": (b.wrapping_add(self.serial_shift)) & 0xFFFF_FFFF})),
            "pid.stored_one" => Some(json!({"ev": "stored_one", "t": tid})),
            "pid.bumped_serial" => Some(json!({"ev": "bumped_serial", "t": tid, "serial": (b.wrapping_add(self.serial_shift)) & 0xFFFF_FFFF})),
            "pid.stored_next" => Some(json!({"ev": "stored_next", "t": tid, "next": b})),
            "return" => Some(json!({"ev": "return", "t": tid, "id": a >> 32, "serial": ((a & 0xFFFF_FFFF).wrapping_add(self.serial_shift)) & 0xFFFF_FFFF, "creation": b})),
            "ref.call" => Some(json!({"ev": "ref_call", "t": tid})),
            "ref.word0" | "ref.word1" | "ref.word2" => Some(json!({"ev": "ref_word", "t": tid, "w": (a.wrapping_add(self.ctr_shift)) & 0xFFFF_FFFF})),
            "ref.return" => Some(json!({"ev": "ref_return", "t": tid})),
            _ => None,
        };
        if let Some(e) = ev {
            st.events.push(e);
        }
        st.parked.insert(tid, (label.to_string(), a, b));
        self.cv.notify_all();
        while !st.go.remove(&tid) {
            st = self.cv.wait(st).unwrap();
        }
    }
    fn finish(&self) {
        let tid = TID.with(|t| t.get());
        let mut st = self.st.lock().unwrap();
        st.done.insert(tid);
        st.parked.remove(&tid);
        self.cv.notify_all();
    }
}

/// Drives `n` workers by `schedule` (thread ids; exhausted or infeasible steps fall back to the
/// lowest runnable thread / a seeded random choice).  Returns (events, infeasible step indices).
fn drive(sched: &Arc<Sched>, n: u64, schedule: &[u64], rng: Option<&mut StdRng>) -> (Vec<Value>, Vec<usize>) {
    let mut infeasible = Vec::new();
    let mut step = 0usize;
    let mut rng = rng;
    let mut blocked_since_progress: HashSet<u64> = HashSet::new();
    let mut last_pick: Option<(u64, usize)> = None;
    loop {
        // wait until every live worker is parked
        let mut st = sched.st.lock().unwrap();
        loop {
            let live: Vec<u64> = (1..=n).filter(|t| !st.done.contains(t)).collect();
            if live.is_empty() {
                return (std::mem::take(&mut st.events), infeasible);
            }
            if live.iter().all(|t| st.parked.contains_key(t) && !st.go.contains(t)) {
                break;
            }
            let (g, to) = sched.cv.wait_timeout(st, Duration::from_secs(10)).unwrap();
            st = g;
            if to.timed_out() {
                st.events.push(json!({"ev": "watchdog"}));
                return (std::mem::take(&mut st.events), infeasible);
            }
        }
        let live: Vec<u64> = (1..=n).filter(|t| !st.done.contains(t)).collect();
        // a scheduled step that only ran into the held mutex did not happen: the schedule is infeasible there
        if let Some((t, at)) = last_pick.take() {
            if at < schedule.len() && st.parked.get(&t).map(|p| p.0.as_str()) == Some("pid.blocked") && !infeasible.contains(&at) {
                infeasible.push(at);
            }
        }
        // a thread parked at "blocked" after having been retried is not runnable until somebody else moves
        for t in &live {
            if st.parked.get(t).map(|p| p.0.as_str()) != Some("pid.blocked") {
                blocked_since_progress.remove(t);
            }
        }
        let runnable: Vec<u64> = live.iter().copied().filter(|t| !blocked_since_progress.contains(t)).collect();
        let want = if step < schedule.len() { Some(schedule[step]) } else { None };
        let pick = match want {
            Some(t) if runnable.contains(&t) => t,
            Some(t) if live.contains(&t) => {
                // the schedule asks for a thread that is blocked on the lock: infeasible step
                infeasible.push(step);
                *runnable.first().unwrap_or(&t)
            }
            _ => match rng.as_deref_mut() {
                Some(r) if !runnable.is_empty() => runnable[r.random_range(0..runnable.len())],
                _ => *runnable.first().unwrap_or(&live[0]),
            },
        };
        last_pick = Some((pick, step));
        step += 1;
        if st.parked.get(&pick).map(|p| p.0.as_str()) == Some("pid.blocked") {
            blocked_since_progress.insert(pick);
        } else {
            // progress by `pick` may release the lock: blocked threads may try again
            if st.parked.get(&pick).map(|p| p.0.as_str()) == Some("return") || st.parked.get(&pick).map(|p| p.0.as_str()) == Some("pid.stored_next") || st.parked.get(&pick).map(|p| p.0.as_str()) == Some("pid.bumped_serial") {
                blocked_since_progress.clear();
            }
        }
        st.parked.remove(&pick);
        st.go.insert(pick);
        sched.cv.notify_all();
    }
}

/// PidAlloc!SeqIssue(k) for the real constants (transcribed from spec/PidAlloc.tla; TLC checks IssuedIsSequence against
/// the step-by-step spec on scaled constants): the k-th identifier issued from the origin (id0, counter c0)
fn seq_issue(id0: u64, c0: u64, k: u64) -> (u32, u32) {
    const MAX: u64 = 1_048_576;
    let pos = (id0 - 1) + k;
    let id = pos % MAX + 1;
    let cyc = pos / MAX;
    (id as u32, ((c0 + cyc + if id == MAX { 1 } else { 0 }) & 0xFFFF_FFFF) as u32)
}

/// free-running threads allocate `total` identifiers in all; what was issued must be exactly the first `total` members of
/// the spec's sequence (so in particular pairwise distinct), each with the creation in force
fn bulk(si: usize, sc: &Value) -> Value {
    let n = sc["threads"].as_u64().unwrap_or(1);
    let total = sc["total"].as_u64().unwrap_or(1000);
    let id0 = sc["start_id"].as_u64().unwrap_or(1);
    let c0 = sc["start_serial"].as_u64().unwrap_or(0);
    let creation = sc["creation"].as_u64().unwrap_or(1) as u32;
    let alloc = Arc::new(PidAllocator::new(Atom::new("verif@127.0.0.1"), creation));
    alloc.next_id_test_only().store(id0 as u32, Ordering::SeqCst);
    alloc.next_serial_test_only().store(c0, Ordering::SeqCst);
    let per = total / n;
    let mut hs = Vec::new();
    for _ in 0..n {
        let a = alloc.clone();
        hs.push(std::thread::spawn(move || {
            let mut v = Vec::with_capacity(per as usize);
            for _ in 0..per {
                if let Ok(p) = a.allocate() {
                    v.push((p.id, p.serial, p.creation));
                }
            }
            v
        }));
    }
    let mut got: Vec<(u32, u32, u32)> = Vec::new();
    for h in hs {
        got.extend(h.join().unwrap_or_default());
    }
    let issued = got.len() as u64;
    let wrong_creation = got.iter().filter(|p| p.2 != creation).count();
    let mut g: Vec<(u32, u32)> = got.iter().map(|p| (p.0, p.1)).collect();
    g.sort_unstable();
    let dup = g.windows(2).filter(|w| w[0] == w[1]).count();
    let first_dup = g.windows(2).find(|w| w[0] == w[1]).map(|w| json!([w[0].0, w[0].1]));
    let mut e: Vec<(u32, u32)> = (0..issued).map(|k| seq_issue(id0, c0, k)).collect();
    e.sort_unstable();
    let mut not_in_sequence = Vec::new();
    let mut missing = 0usize;
    // multiset difference of two sorted vectors
    let (mut i, mut j) = (0usize, 0usize);
    while i < g.len() || j < e.len() {
        if j >= e.len() || (i < g.len() && g[i] < e[j]) {
            if not_in_sequence.len() < 5 {
                not_in_sequence.push(json!([g[i].0, g[i].1]));
            }
            missing += 0;
            i += 1;
            if not_in_sequence.len() >= 5 && missing > 0 {
                // keep counting only
            }
            continue;
        }
        if i >= g.len() || e[j] < g[i] {
            missing += 1;
            j += 1;
            continue;
        }
        i += 1;
        j += 1;
    }
    json!({"scenario": si, "bulk": true, "threads": n, "issued": issued, "duplicates": dup, "first_duplicate": first_dup, "wrong_creation": wrong_creation,
           "not_in_spec_sequence": not_in_sequence, "sequence_members_not_issued": missing, "events": 0, "infeasible_steps": [], "schedule_len": 0})
}

/// free-running threads make `total` references in all: pairwise distinct, and (PidAlloc!RefWordsAreCounter) their words are
/// exactly the counter values start .. start + 3n - 1, each once
fn bulk_refs(si: usize, sc: &Value) -> Value {
    let n = sc["threads"].as_u64().unwrap_or(1);
    let total = sc["total"].as_u64().unwrap_or(1000);
    let start = sc["start_ctr"].as_u64().unwrap_or(0) as u32;
    let node = Arc::new(edp_node::Node::new("verif@127.0.0.1", "cookie"));
    node.verif_reference_counter().store(start, Ordering::SeqCst);
    let per = total / n;
    let mut hs = Vec::new();
    // "failing": next to the threads that make references, as many threads issue operations that make a reference and then fail
    // (Node::monitor / unlink towards a node whose connection is in the table but not connected): PidAlloc!RefFail
    let failing = sc["failing"].as_bool().unwrap_or(false);
    let stop = Arc::new(std::sync::atomic::AtomicBool::new(false));
    let failed_so_far = Arc::new(std::sync::atomic::AtomicU64::new(0));
    let mut failers = Vec::new();
    if failing {
        let peer = "ghost@127.0.0.1";
        let conn = edp_client::Connection::new(edp_client::ConnectionConfig::new("verif@127.0.0.1", peer, "cookie"));
        node.connections().insert(peer.to_string(), Arc::new(tokio::sync::Mutex::new(conn)));
        for _ in 0..n {
            let (nd, st, fsf) = (node.clone(), stop.clone(), failed_so_far.clone());
            failers.push(std::thread::spawn(move || {
                let rt = tokio::runtime::Builder::new_current_thread().enable_all().build().expect("rt");
                let from = erltf::ExternalPid::new(Atom::new("verif@127.0.0.1"), 1, 0, 1);
                let to = erltf::ExternalPid::new(Atom::new("ghost@127.0.0.1"), 1, 0, 1);
                let mut failed = 0u64;
                rt.block_on(async {
                    while !st.load(Ordering::Relaxed) {
                        if nd.monitor(&from, &to).await.is_err() {
                            failed += 1;
                            fsf.fetch_add(1, Ordering::Relaxed);
                        }
                        if nd.unlink(&from, &to).await.is_err() {
                            failed += 1;
                            fsf.fetch_add(1, Ordering::Relaxed);
                        }
                    }
                });
                failed
            }));
        }
    }
    // (the failing operations are under way before the first reference is made, and go on until enough of them have run alongside)
    let t_wait = std::time::Instant::now();
    while failing && failed_so_far.load(Ordering::Relaxed) < 50 && t_wait.elapsed() < Duration::from_secs(10) {
        std::thread::sleep(Duration::from_millis(1));
    }
    for _ in 0..n {
        let nd = node.clone();
        hs.push(std::thread::spawn(move || {
            let mut v = Vec::with_capacity(per as usize);
            for _ in 0..per {
                let r = nd.make_reference();
                v.push((r.ids.clone(), r.creation));
            }
            v
        }));
    }
    let mut refs: Vec<(Vec<u32>, u32)> = Vec::new();
    for h in hs {
        refs.extend(h.join().unwrap_or_default());
    }
    let t_wait = std::time::Instant::now();
    while failing && failed_so_far.load(Ordering::Relaxed) < 1500 && t_wait.elapsed() < Duration::from_secs(10) {
        std::thread::sleep(Duration::from_millis(1));
    }
    stop.store(true, Ordering::Relaxed);
    let failed_ops: u64 = failers.into_iter().map(|h| h.join().unwrap_or(0)).sum();
    let made = refs.len() as u64;
    let wrong_shape = refs.iter().filter(|r| r.0.len() != 3).count();
    let mut triples: Vec<Vec<u32>> = refs.iter().map(|r| r.0.clone()).collect();
    triples.sort_unstable();
    let dup = triples.windows(2).filter(|w| w[0] == w[1]).count();
    let first_dup = triples.windows(2).find(|w| w[0] == w[1]).map(|w| json!(w[0]));
    let mut words: Vec<u32> = refs.iter().flat_map(|r| r.0.iter().copied()).map(|w| w.wrapping_sub(start)).collect();
    words.sort_unstable();
    // (with failing operations drawing from the same counter in between, the words of the references kept are distinct but not consecutive)
    let consecutive = failing || words.iter().enumerate().all(|(i, w)| *w as usize == i);
    let first_off = words.iter().enumerate().find(|(i, w)| **w as usize != *i).map(|(i, w)| json!({"position": i, "word_relative_to_start": w}));
    json!({"scenario": si, "bulk_refs": true, "threads": n, "made": made, "duplicates": dup, "first_duplicate": first_dup, "wrong_shape": wrong_shape,
           "words_are_the_counter_values": consecutive, "first_deviation": first_off, "failed_operations_alongside": failed_ops, "events": 0, "infeasible_steps": [], "schedule_len": 0})
}

pub fn run(args: &[String]) -> i32 {
    // pid-run <scenarios.ndjson> <trace-out.ndjson> <summary-out.ndjson>
    let scenarios = read_ndjson(&args[0]);
    let mut trace = NdWriter::create(&args[1]);
    let mut summary = NdWriter::create(&args[2]);
    for (si, sc) in scenarios.iter().enumerate() {
        if sc["kind"].as_str() == Some("bulk_refs") {
            summary.put(&bulk_refs(si, sc));
            continue;
        }
        if sc["kind"].as_str() == Some("bulk") {
            summary.put(&bulk(si, sc));
            continue;
        }
        let n = sc["threads"].as_u64().unwrap_or(2);
        let allocs = sc["allocs"].as_u64().unwrap_or(1);
        let refs = sc["refs"].as_u64().unwrap_or(0);
        let start_id = sc["start_id"].as_u64().unwrap_or(1) as u32;
        let start_serial = sc["start_serial"].as_u64().unwrap_or(0);
        let start_ctr = sc["start_ctr"].as_u64().unwrap_or(0) as u32;
        let creation = sc["creation"].as_u64().unwrap_or(1) as u32;
        let schedule: Vec<u64> = sc["schedule"].as_array().map(|a| a.iter().map(|x| x.as_u64().unwrap_or(1)).collect()).unwrap_or_default();
        let mut rng = sc["seed"].as_u64().map(StdRng::seed_from_u64);
        // serials are logged relative to the start so that TLC's 32-bit integers can hold them
        let serial_shift = (1u64 << 32) - (start_serial & 0xFFFF_FFFF);
        let ctr_shift = (1u64 << 32) - start_ctr as u64;
        let sched = Arc::new(Sched { st: Mutex::new(State::default()), cv: Condvar::new(), serial_shift, ctr_shift });
        let node = edp_node::Node::new("verif@127.0.0.1", "cookie");
        let alloc: Arc<PidAllocator> = if sc["via_node"].as_bool().unwrap_or(false) {
            node.verif_pid_allocator()
        } else {
            Arc::new(PidAllocator::new(Atom::new("verif@127.0.0.1"), creation))
        };
        alloc.set_creation(creation);
        alloc.next_id_test_only().store(start_id, Ordering::SeqCst);
        alloc.next_serial_test_only().store(start_serial, Ordering::SeqCst);
        node.verif_reference_counter().store(start_ctr, Ordering::SeqCst);
        let node = Arc::new(node);
        trace.put(&json!({"ev": "reset", "scenario": si, "id": start_id, "serial": 0, "creation": creation, "ctr": 0}));
        let s2 = sched.clone();
        verif::install_sync_hook(Some(Arc::new(move |label, a, b| s2.arrive(label, a, b))));
        let mut handles = Vec::new();
        for t in 1..=n {
            let sched = sched.clone();
            let alloc = alloc.clone();
            let node = node.clone();
            handles.push(std::thread::spawn(move || {
                TID.with(|c| c.set(t));
                sched.arrive("start", 0, 0);
                for _ in 0..allocs {
                    sched.arrive("call", 0, 0);
                    match alloc.allocate() {
                        Ok(p) => sched.arrive("return", ((p.id as u64) << 32) | p.serial as u64, p.creation as u64),
                        Err(_) => sched.arrive("return", 0, 0),
                    }
                }
                for _ in 0..refs {
                    sched.arrive("ref.call", 0, 0);
                    let r = node.make_reference();
                    let _ = r;
                    sched.arrive("ref.return", 0, 0);
                }
                sched.finish();
            }));
        }
        let (events, infeasible) = drive(&sched, n, &schedule, rng.as_mut());
        for h in handles {
            let _ = h.join();
        }
        verif::install_sync_hook(None);
        let mut n_events = events.len();
        for e in events {
            trace.put(&e);
        }
        // further phases: the environment puts another creation in force (PidAlloc!SetCreation) while nobody allocates,
        // then the threads allocate again; the counters read back after the call are logged with the event
        for ph in sc["phases"].as_array().cloned().unwrap_or_default() {
            let c = ph["creation"].as_u64().unwrap_or(1) as u32;
            alloc.set_creation(c);
            trace.put(&json!({"ev": "set_creation", "creation": c, "id": alloc.next_id_test_only().load(Ordering::SeqCst),
                              "serial": (alloc.next_serial_test_only().load(Ordering::SeqCst).wrapping_add(serial_shift)) & 0xFFFF_FFFF}));
            let k = ph["allocs"].as_u64().unwrap_or(1);
            let sched = Arc::new(Sched { st: Mutex::new(State::default()), cv: Condvar::new(), serial_shift, ctr_shift });
            let s2 = sched.clone();
            verif::install_sync_hook(Some(Arc::new(move |label, a, b| s2.arrive(label, a, b))));
            let mut handles = Vec::new();
            for t in 1..=n {
                let sched = sched.clone();
                let alloc = alloc.clone();
                handles.push(std::thread::spawn(move || {
                    TID.with(|c| c.set(t));
                    sched.arrive("start", 0, 0);
                    for _ in 0..k {
                        sched.arrive("call", 0, 0);
                        match alloc.allocate() {
                            Ok(p) => sched.arrive("return", ((p.id as u64) << 32) | p.serial as u64, p.creation as u64),
                            Err(_) => sched.arrive("return", 0, 0),
                        }
                    }
                    sched.finish();
                }));
            }
            let (events, _) = drive(&sched, n, &[], rng.as_mut());
            for h in handles {
                let _ = h.join();
            }
            verif::install_sync_hook(None);
            n_events += events.len();
            for e in events {
                trace.put(&e);
            }
        }
        summary.put(&json!({"scenario": si, "events": n_events, "infeasible_steps": infeasible, "schedule_len": schedule.len()}));
    }
    trace.finish();
    summary.finish();
    0
}
