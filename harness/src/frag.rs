//! C09: FragmentAssembler driven along the edges of spec/Fragments.tla.
use crate::edges::{Replayable, replay, replay_paths};
use edp_client::fragmentation::FragmentAssembler;
use serde_json::{Value, json};
use std::time::{Duration, Instant};

/// one tick of the timed model (time passes through the guarded hook verif_backdate, not by sleeping)
const TICK: Duration = Duration::from_secs(2);

pub struct Frag {
    asm: FragmentAssembler,
    seq_map: Vec<u64>,   // model sequence id (1-based) -> real sequence id
    payload_mode: String,
    timed: bool,
    cache_section: bool,   // the header fragment also carries an atom cache section (bytes cache_bytes(seq))
}

/// the atom cache section that the header fragment of model sequence `seq` carries in "cache" runs
pub fn cache_bytes(seq: u64) -> Vec<u8> {
    vec![200 + seq as u8, 201, 202]
}

/// bytes of the symbolic piece <<seq, id>>
pub fn piece(mode: &str, seq: u64, id: u64) -> Vec<u8> {
    match mode {
        // two distinct bytes per piece: every order of concatenation is distinguishable
        "pair" => vec![seq as u8, id as u8],
        // lengths 0, 1, 1000 mixed
        _ => match (seq + id) % 3 {
            0 => vec![],
            1 => vec![(16 * seq + id) as u8],
            _ => (0..1000u32).map(|i| (i as u64 * 7 + 31 * seq + id) as u8).collect(),
        },
    }
}

impl Replayable for Frag {
    fn fresh(cfg: &Value) -> Self {
        let expire_all = cfg["expire"].as_str() == Some("all");
        let asm = if cfg["timed"].as_bool() == Some(true) {
            // timed model: one tick is TICK of silence, the timeout lies between one and two ticks
            FragmentAssembler::with_timeout(TICK * 3 / 2)
        } else if expire_all {
            FragmentAssembler::with_timeout(Duration::ZERO)
        } else {
            FragmentAssembler::with_timeout(Duration::from_secs(3600))
        };
        let seq_map = cfg["seq_map"].as_array().map(|a| a.iter().map(|x| x.as_u64().unwrap()).collect()).unwrap_or(vec![1, 2, 3, 4]);
        Frag { asm, seq_map, timed: cfg["timed"].as_bool() == Some(true), payload_mode: cfg["payload"].as_str().unwrap_or("pair").to_string(), cache_section: cfg["cache"].as_bool().unwrap_or(false) }
    }
    fn apply(&mut self, act: &Value) -> Value {
        let name = act["name"].as_str().unwrap_or("");
        let mseq = act["seq"].as_u64().unwrap_or(0);
        let id = act["id"].as_u64().unwrap_or(0);
        let r = match name {
            "start" => {
                let seq = self.seq_map[(mseq - 1) as usize];
                self.asm.start_fragment(seq, id, if self.cache_section { Some(cache_bytes(mseq)) } else { None }, piece(&self.payload_mode, mseq, id))
            }
            "cont" => {
                let seq = self.seq_map[(mseq - 1) as usize];
                self.asm.add_fragment(seq, id, piece(&self.payload_mode, mseq, id))
            }
            "tick" => {
                self.asm.verif_backdate(TICK);
                None
            }
            "cleanup" if self.timed => {
                self.asm.cleanup_expired();
                None
            }
            "cleanup" => {
                // let the monotonic clock advance so that a zero timeout has certainly passed
                let t0 = Instant::now();
                while t0.elapsed() == Duration::ZERO {}
                self.asm.cleanup_expired();
                None
            }
            "clear" => {
                self.asm.clear();
                None
            }
            _ => None,
        };
        match r {
            Some(b) => json!(b),
            None => Value::Null,
        }
    }
    fn project(&self) -> Value {
        let snap = self.asm.verif_snapshot();
        let mut m = serde_json::Map::new();
        for (seq, total, ids, bytes) in snap {
            let mseq = self.seq_map.iter().position(|x| *x == seq).map(|p| p + 1).unwrap_or(0);
            m.insert(mseq.to_string(), json!({"total": total, "ids": ids, "bytes": bytes}));
        }
        json!({"pending_count": self.asm.pending_count(), "seqs": m})
    }
}

pub fn run_edges(args: &[String]) -> i32 {
    // frag-edges <edges.ndjson> <out.ndjson> <cfg-json>
    let cfg: Value = serde_json::from_str(&args[2]).expect("cfg json");
    replay::<Frag>(&args[0], &args[1], &cfg)
}

pub fn run_paths(args: &[String]) -> i32 {
    // frag-paths <edges.ndjson> <out.ndjson> <cfg-json> <depth>
    let cfg: Value = serde_json::from_str(&args[2]).expect("cfg json");
    replay_paths::<Frag>(&args[0], &args[1], &cfg, args[3].parse().expect("depth"))
}
