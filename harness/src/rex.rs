//! X07 (spec/Rex.tla): the wire shape of Node::rpc_call / rpc_call_raw / the erlang_* helpers and what the answer is taken for.
use crate::io::{NdWriter, read_ndjson};
use crate::nodeenv::*;
use crate::rpc::connect_peer;
use crate::term_json::{bytes_json, denote};
use edp_client::verif;
use edp_node::Node;
use erltf::{Atom, OwnedTerm};
use serde_json::{Value, json};
use std::sync::Arc;
use std::time::{Duration, Instant};
use tokio::net::TcpListener;

fn bytes_of(v: &Value) -> Vec<u8> {
    v.as_array().map(|a| a.iter().map(|x| x.as_u64().unwrap_or(0) as u8).collect()).unwrap_or_default()
}
fn text_of(v: &Value) -> String {
    String::from_utf8_lossy(&bytes_of(v)).to_string()
}

pub fn run(args: &[String]) -> i32 {
    // rex-run <calls.ndjson> <answers.ndjson> <out.ndjson>
    let calls = read_ndjson(&args[0]);
    let answers = read_ndjson(&args[1]);
    let rt = tokio::runtime::Builder::new_multi_thread().worker_threads(4).enable_all().build().expect("rt");
    let mut w = NdWriter::create(&args[2]);
    rt.block_on(async {
        let listener = TcpListener::bind("127.0.0.1:0").await.expect("bind");
        let (epmd_port, _e) = fake_epmd(listener.local_addr().unwrap().port()).await;
        verif::set_epmd_port(epmd_port);
        let mut node = Node::new("n1@127.0.0.1", COOKIE);
        if node.start(0).await.is_err() {
            w.put(&json!({"tool_error": "node start failed"}));
            return;
        }
        let node = Arc::new(node);
        let Some(mut peer) = connect_peer(&node, &listener).await else {
            w.put(&json!({"tool_error": "could not connect"}));
            return;
        };
        const PEER: &str = "peer@127.0.0.1";
        for (ci, c) in calls.iter().enumerate() {
            let api = c["api"].as_str().unwrap_or("raw").to_string();
            let entries: &[&str] = if api == "raw" { &["call", "raw"] } else { &["helper"] };
            for entry in entries {
                for (ai, a) in answers.iter().enumerate() {
                    peer.frames.lock().unwrap().clear();
                    let n = node.clone();
                    let (m, f) = (text_of(&c["m"]), text_of(&c["f"]));
                    let argv: Vec<OwnedTerm> = c["args"].as_array().map(|x| x.iter().filter_map(|b| erltf::decode(&bytes_of(b)).ok()).collect()).unwrap_or_default();
                    let items: Vec<String> = c["items"].as_array().map(|x| x.iter().map(text_of).collect()).unwrap_or_default();
                    let (api2, entry2) = (api.clone(), entry.to_string());
                    let task = tokio::spawn(async move {
                        let t = Duration::from_secs(3);
                        match (entry2.as_str(), api2.as_str()) {
                            ("call", _) => n.rpc_call_with_timeout(PEER, &m, &f, argv, t).await,
                            ("raw", _) => n.rpc_call_raw_with_timeout(PEER, &m, &f, argv, t).await,
                            (_, "system_info") => n.erlang_system_info(PEER, &items[0]).await,
                            (_, "statistics") => n.erlang_statistics(PEER, &items[0]).await,
                            (_, "memory") => n.erlang_memory(PEER).await,
                            (_, "processes") => n.erlang_processes(PEER).await,
                            (_, "process_info") => n.erlang_process_info(PEER, argv[0].clone(), items.iter().map(|i| Atom::new(i)).collect()).await,
                            _ => n.erlang_list_to_pid(PEER, &items[0]).await,
                        }
                    });
                    // the peer: the request frame, then the answer to whoever the request names as its sender
                    let t0 = Instant::now();
                    while peer.frames.lock().unwrap().is_empty() && t0.elapsed() < Duration::from_secs(2) {
                        tokio::time::sleep(Duration::from_micros(300)).await;
                    }
                    let frames: Vec<Vec<u8>> = peer.frames.lock().unwrap().clone();
                    let mut answered = false;
                    if let Some(fr) = frames.first() {
                        // [112, control term, message term]: the sender is the first element of the message
                        let from = erltf::decoder::decode_with_trailing(&fr[1..]).ok().and_then(|(_, rest)| erltf::decode(rest).ok()).and_then(|msg| match msg {
                            OwnedTerm::Tuple(e) => match e.first() {
                                Some(OwnedTerm::Pid(p)) => Some(p.clone()),
                                _ => None,
                            },
                            _ => None,
                        });
                        if let Some(from) = from {
                            let mut b = pass_through(&OwnedTerm::Tuple(vec![OwnedTerm::Integer(2), OwnedTerm::Atom(Atom::new("")), OwnedTerm::Pid(from)]), None);
                            b.extend_from_slice(&bytes_of(&a["bytes"]));
                            answered = write_dist_frame(&mut peer.wr, &b).await;
                        }
                    }
                    let res = match tokio::time::timeout(Duration::from_secs(40), task).await {
                        Ok(Ok(Ok(t))) => json!({"ok": denote(&t)}),
                        Ok(Ok(Err(e))) => json!({"err": format!("{e:?}").chars().take(160).collect::<String>()}),
                        Ok(Err(p)) => json!({"panic": format!("{p}")}),
                        Err(_) => json!({"err": "no result within 40 s"}),
                    };
                    w.put(&json!({"call": ci, "answer": ai, "entry": entry, "frames": frames.iter().map(|f| bytes_json(f)).collect::<Vec<_>>(), "answered": answered, "result": res,
                                  "node": denote(&OwnedTerm::Atom(node.name().clone())), "creation": node.creation()}));
                }
            }
        }
    });
    w.finish();
    0
}
