//! C11 / C12: full comparison / equality / hash matrices of a universe of terms, for both term
//! types, plus sort / BTreeMap / HashMap scripts.  Judged by ./check against spec/EtfOrder.tla.
use crate::io::{NdWriter, catch, quiet_panics, read_ndjson};
use crate::term_json::build;
use erltf::{BorrowedTerm, OwnedTerm};
use serde_json::{Value, json};
use std::cmp::Ordering;
use std::collections::hash_map::DefaultHasher;
use std::collections::{BTreeMap, HashMap};
use std::hash::{Hash, Hasher};

fn sg(o: Ordering) -> i64 {
    match o {
        Ordering::Less => -1,
        Ordering::Equal => 0,
        Ordering::Greater => 1,
    }
}

pub fn run(args: &[String]) -> i32 {
    // order-obs <entries.ndjson> <out.json>
    let entries = read_ndjson(&args[0]);
    let terms: Vec<OwnedTerm> = entries.iter().map(|e| build(&e["v"])).collect();
    quiet_panics();
    let n = terms.len();
    let mut c = vec![vec![0i64; n]; n];
    let mut cb = vec![vec![0i64; n]; n];
    let mut e = vec![vec![false; n]; n];
    let mut eb = vec![vec![false; n]; n];
    let mut panics = Vec::new();
    for i in 0..n {
        for j in 0..n {
            let r = catch(|| {
                let a = &terms[i];
                let b = &terms[j];
                let ba = BorrowedTerm::from(a);
                let bb = BorrowedTerm::from(b);
                (sg(a.cmp(b)), a == b, sg(ba.cmp(&bb)), ba == bb)
            });
            match r {
                Ok((x, y, z, w)) => {
                    c[i][j] = x;
                    e[i][j] = y;
                    cb[i][j] = z;
                    eb[i][j] = w;
                }
                Err(p) => panics.push(json!({"i": i, "j": j, "panic": p})),
            }
        }
    }
    let h: Vec<String> = terms
        .iter()
        .map(|t| {
            let mut s = DefaultHasher::new();
            t.hash(&mut s);
            s.finish().to_string()
        })
        .collect();
    // sort (stable) and ordered / hashed containers
    let sorted = catch(|| {
        let mut idx: Vec<usize> = (0..n).collect();
        idx.sort_by(|&a, &b| terms[a].cmp(&terms[b]));
        idx
    });
    let (idx, sort_panic) = match sorted {
        Ok(i) => (i, Value::Null),
        Err(p) => (Vec::new(), json!(p)),
    };
    let btr = catch(|| {
        let mut bt: BTreeMap<OwnedTerm, usize> = BTreeMap::new();
        for (i, t) in terms.iter().enumerate() {
            bt.entry(t.clone()).or_insert(i);
        }
        let lookup: Vec<Value> = terms.iter().map(|t| bt.get(t).map(|x| json!(x)).unwrap_or(Value::Null)).collect();
        let iter: Vec<usize> = bt.values().copied().collect();
        (bt.len(), lookup, iter)
    });
    let (bt_len, bt_lookup, bt_iter, bt_panic) = match btr {
        Ok((a, b, c)) => (a, b, c, Value::Null),
        Err(p) => (0, Vec::new(), Vec::new(), json!(p)),
    };
    let hmr = catch(|| {
        let mut hm: HashMap<OwnedTerm, usize> = HashMap::new();
        for (i, t) in terms.iter().enumerate() {
            hm.entry(t.clone()).or_insert(i);
        }
        let lookup: Vec<Value> = terms.iter().map(|t| hm.get(t).map(|x| json!(x)).unwrap_or(Value::Null)).collect();
        (hm.len(), lookup)
    });
    let (hm_len, hm_lookup, hm_panic) = match hmr {
        Ok((a, b)) => (a, b, Value::Null),
        Err(p) => (0, Vec::new(), json!(p)),
    };
    let mut w = NdWriter::create(&args[1]);
    w.put(&json!({"n": n, "C": c, "CB": cb, "E": e, "EB": eb, "H": h, "panics": panics,
                  "sorted": idx, "sort_panic": sort_panic, "bt_len": bt_len, "bt_lookup": bt_lookup, "bt_iter": bt_iter, "bt_panic": bt_panic,
                  "hm_len": hm_len, "hm_lookup": hm_lookup, "hm_panic": hm_panic}));
    w.finish();
    0
}
