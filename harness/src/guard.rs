//! Beyond the listed properties (spec/GuardAcrossAwait.tla): a send that is waiting for the socket keeps a guard of the
//! connection table; the receiver task, at the end of its stream, blocks its executor thread on that table.  On a
//! single-threaded runtime nothing runs any more, even after the peer starts reading.
use crate::io::NdWriter;
use crate::nodeenv::*;
use edp_client::verif;
use edp_node::Node;
use erltf::{Atom, ExternalPid, OwnedTerm};
use serde_json::json;
use std::sync::Arc;
use std::sync::atomic::{AtomicBool, AtomicU64, Ordering};
use std::time::Duration;
use tokio::io::{AsyncReadExt, AsyncWriteExt};
use tokio::net::TcpListener;

const PEER: &str = "peer@127.0.0.1";

pub fn run(args: &[String]) -> i32 {
    // guard-run <workers: 1|2> <out.ndjson>
    let workers: usize = args[0].parse().unwrap_or(1);
    let mut w = NdWriter::create(&args[1]);
    let connected = Arc::new(AtomicBool::new(false));
    let send_done = Arc::new(AtomicBool::new(false));
    let beat = Arc::new(AtomicU64::new(0));
    let main_rt = tokio::runtime::Builder::new_multi_thread().worker_threads(2).enable_all().build().expect("rt");
    let (listener, epmd_port) = main_rt.block_on(async {
        let l = TcpListener::bind("127.0.0.1:0").await.expect("bind");
        let (p, _h) = fake_epmd(l.local_addr().unwrap().port()).await;
        (l, p)
    });
    verif::set_epmd_port(epmd_port);
    // the node lives on its own runtime with the requested number of threads
    let (c2, d2, b2) = (connected.clone(), send_done.clone(), beat.clone());
    std::thread::spawn(move || {
        let rt = if workers <= 1 {
            tokio::runtime::Builder::new_current_thread().enable_all().build().expect("rt")
        } else {
            tokio::runtime::Builder::new_multi_thread().worker_threads(workers).enable_all().build().expect("rt")
        };
        rt.block_on(async move {
            let mut node = Node::new("n1@127.0.0.1", COOKIE);
            if node.start(0).await.is_err() {
                return;
            }
            let node = Arc::new(node);
            if node.connect(PEER).await.is_err() {
                return;
            }
            c2.store(true, Ordering::SeqCst);
            tokio::spawn(async move {
                loop {
                    b2.fetch_add(1, Ordering::SeqCst);
                    tokio::time::sleep(Duration::from_millis(10)).await;
                }
            });
            let n2 = node.clone();
            let s = tokio::spawn(async move {
                let to = ExternalPid::new(Atom::new(PEER), 1, 0, 1);
                let r = n2.send(&to, OwnedTerm::Binary(vec![7u8; 24 * 1024 * 1024])).await;
                d2.store(true, Ordering::SeqCst);
                r.is_ok()
            });
            let _ = s.await;
            tokio::time::sleep(Duration::from_secs(30)).await;
        });
    });
    let out = main_rt.block_on(async {
        let Ok(Ok((s, _))) = tokio::time::timeout(Duration::from_secs(5), listener.accept()).await else { return json!({"tool_error": "node did not dial"}) };
        let Some(pc) = accept_handshake(s, PEER, PEER_FLAGS).await else { return json!({"tool_error": "handshake failed"}) };
        let (mut rd, mut wr) = (pc.rd, pc.wr);
        for _ in 0..200 {
            if connected.load(Ordering::SeqCst) {
                break;
            }
            tokio::time::sleep(Duration::from_millis(10)).await;
        }
        // the peer does not read: the node's 24 MB send fills the socket buffers and waits
        tokio::time::sleep(Duration::from_millis(500)).await;
        let blocked_before_eof = !send_done.load(Ordering::SeqCst);
        let beat_a = beat.load(Ordering::SeqCst);
        // the peer closes its sending direction: the node's receiver sees the end of its stream
        let _ = wr.shutdown().await;
        tokio::time::sleep(Duration::from_millis(500)).await;
        let beat_b = beat.load(Ordering::SeqCst);
        // now the peer reads everything the node wants to write
        let reader = tokio::spawn(async move {
            let mut buf = vec![0u8; 1 << 20];
            let mut total = 0usize;
            loop {
                match tokio::time::timeout(Duration::from_millis(1500), rd.read(&mut buf)).await {
                    Ok(Ok(0)) | Ok(Err(_)) | Err(_) => break,
                    Ok(Ok(n)) => total += n,
                }
            }
            total
        });
        let total = reader.await.unwrap_or(0);
        let beat_c = beat.load(Ordering::SeqCst);
        json!({"workers": workers, "send_waiting_before_half_close": blocked_before_eof, "heartbeats_while_send_waits": beat_a,
               "heartbeats_after_half_close": beat_b - beat_a, "heartbeats_while_peer_reads": beat_c - beat_b, "bytes_peer_could_read": total,
               "send_completed": send_done.load(Ordering::SeqCst)})
    });
    w.put(&out);
    w.finish();
    // the node thread may be wedged for good: leave without joining it
    std::process::exit(0);
}
