//! Binding B2: state-graph edge replay.  Input: the edges TLC printed for a model
//! (from-state, action, to-state, expected returns).  A BFS tree over the graph gives every
//! reachable model state an access path; the real object is driven along the path and then
//! takes every outgoing edge of that state once.  For each edge the observed return value and
//! observed projection of the real object are written next to the model's.
use crate::io::{NdWriter, read_ndjson};
use serde_json::{Value, json};
use std::collections::{HashMap, VecDeque};

pub trait Replayable {
    fn fresh(cfg: &Value) -> Self;
    /// apply one model action to the real object; returns the observed return value
    fn apply(&mut self, act: &Value) -> Value;
    /// observable projection of the real object
    fn project(&self) -> Value;
}

pub fn replay<R: Replayable>(edges_path: &str, out_path: &str, cfg: &Value) -> i32 {
    let edges = read_ndjson(edges_path);
    // state key = canonical JSON text of the model's projected state
    let mut ids: HashMap<String, usize> = HashMap::new();
    let mut out_edges: Vec<Vec<usize>> = Vec::new();
    let mut id_of = |s: &Value, out_edges: &mut Vec<Vec<usize>>| -> usize {
        let k = s.to_string();
        let n = ids.len();
        *ids.entry(k).or_insert_with(|| {
            out_edges.push(Vec::new());
            n
        })
    };
    let mut from_to: Vec<(usize, usize)> = Vec::with_capacity(edges.len());
    for (i, e) in edges.iter().enumerate() {
        let f = id_of(&e["from"], &mut out_edges);
        let t = id_of(&e["to"], &mut out_edges);
        out_edges[f].push(i);
        from_to.push((f, t));
    }
    // dedupe identical (from, act) edges (TLC prints one per generated successor)
    for oe in out_edges.iter_mut() {
        let mut seen = std::collections::HashSet::new();
        oe.retain(|&i| seen.insert(edges[i]["act"].to_string()));
    }
    let n = out_edges.len();
    if n == 0 {
        eprintln!("no edges");
        return 2;
    }
    // initial state: the `from` of the first printed edge (TLC prints edges in BFS order with -workers 1)
    let init = from_to[0].0;
    let mut parent: Vec<Option<usize>> = vec![None; n]; // edge index that first reached the state
    let mut seen = vec![false; n];
    seen[init] = true;
    let mut q = VecDeque::new();
    q.push_back(init);
    let mut order = Vec::with_capacity(n);
    while let Some(s) = q.pop_front() {
        order.push(s);
        for &ei in &out_edges[s] {
            let t = from_to[ei].1;
            if !seen[t] {
                seen[t] = true;
                parent[t] = Some(ei);
                q.push_back(t);
            }
        }
    }
    let mut w = NdWriter::create(out_path);
    let mut taken = 0usize;
    for &s in &order {
        // access path
        let mut path = Vec::new();
        let mut cur = s;
        while let Some(ei) = parent[cur] {
            path.push(ei);
            cur = from_to[ei].0;
        }
        path.reverse();
        for &ei in &out_edges[s] {
            let mut obj = R::fresh(cfg);
            for &pi in &path {
                obj.apply(&edges[pi]["act"]);
            }
            let before = obj.project();
            let ret = obj.apply(&edges[ei]["act"]);
            let after = obj.project();
            taken += 1;
            w.put(&json!({
                "edge": ei,
                "path": path.iter().map(|&pi| edges[pi]["act"].clone()).collect::<Vec<_>>(),
                "act": edges[ei]["act"], "model_from": edges[ei]["from"], "model_to": edges[ei]["to"],
                "retA": edges[ei]["retA"], "retI": edges[ei]["retI"],
                "obs_before": before, "obs_ret": ret, "obs_after": after,
            }));
        }
    }
    w.finish();
    println!("{}", json!({"states": n, "reached": order.len(), "edges_taken": taken, "edges_printed": edges.len()}));
    0
}
