//! Binding B2: state-graph edge replay.  Input: the edges TLC printed for a model
//! (from-state, action, to-state, expected returns).  A BFS tree over the graph gives every
//! reachable model state an access path; the real object is driven along the path and then
//! takes every outgoing edge of that state once.  For each edge the observed return value and
//! observed projection of the real object are written next to the model's.
use crate::io::{NdWriter, read_ndjson};
use serde_json::{Value, json};
use std::collections::{HashMap, VecDeque};

pub trait Replayable {
    fn fresh(cfg: &Value) -> Self;
    /// apply one model action to the real object; returns the observed return value
    fn apply(&mut self, act: &Value) -> Value;
    /// observable projection of the real object
    fn project(&self) -> Value;
    /// the part of a return value that is a function of the calls made (replay_paths compares it across paths);
    /// values the object draws at random are taken out here
    fn stable(ret: &Value) -> Value {
        ret.clone()
    }
}

pub fn replay<R: Replayable>(edges_path: &str, out_path: &str, cfg: &Value) -> i32 {
    let edges = read_ndjson(edges_path);
    // state key = canonical JSON text of the model's projected state
    let mut ids: HashMap<String, usize> = HashMap::new();
    let mut out_edges: Vec<Vec<usize>> = Vec::new();
    let mut id_of = |s: &Value, out_edges: &mut Vec<Vec<usize>>| -> usize {
        let k = s.to_string();
        let n = ids.len();
        *ids.entry(k).or_insert_with(|| {
            out_edges.push(Vec::new());
            n
        })
    };
    let mut from_to: Vec<(usize, usize)> = Vec::with_capacity(edges.len());
    for (i, e) in edges.iter().enumerate() {
        let f = id_of(&e["from"], &mut out_edges);
        let t = id_of(&e["to"], &mut out_edges);
        out_edges[f].push(i);
        from_to.push((f, t));
    }
    // dedupe identical (from, act) edges (TLC prints one per generated successor)
    for oe in out_edges.iter_mut() {
        let mut seen = std::collections::HashSet::new();
        oe.retain(|&i| seen.insert(edges[i]["act"].to_string()));
    }
    let n = out_edges.len();
    if n == 0 {
        eprintln!("no edges");
        return 2;
    }
    // initial state: the `from` of the first printed edge (TLC prints edges in BFS order with -workers 1)
    let init = from_to[0].0;
    let mut parent: Vec<Option<usize>> = vec![None; n]; // edge index that first reached the state
    let mut seen = vec![false; n];
    seen[init] = true;
    let mut q = VecDeque::new();
    q.push_back(init);
    let mut order = Vec::with_capacity(n);
    while let Some(s) = q.pop_front() {
        order.push(s);
        for &ei in &out_edges[s] {
            let t = from_to[ei].1;
            if !seen[t] {
                seen[t] = true;
                parent[t] = Some(ei);
                q.push_back(t);
            }
        }
    }
    let mut w = NdWriter::create(out_path);
    let mut taken = 0usize;
    for &s in &order {
        // access path
        let mut path = Vec::new();
        let mut cur = s;
        while let Some(ei) = parent[cur] {
            path.push(ei);
            cur = from_to[ei].0;
        }
        path.reverse();
        for &ei in &out_edges[s] {
            let mut obj = R::fresh(cfg);
            for &pi in &path {
                obj.apply(&edges[pi]["act"]);
            }
            let before = obj.project();
            let ret = obj.apply(&edges[ei]["act"]);
            let after = obj.project();
            taken += 1;
            w.put(&json!({
                "edge": ei,
                "path": path.iter().map(|&pi| edges[pi]["act"].clone()).collect::<Vec<_>>(),
                "act": edges[ei]["act"], "model_from": edges[ei]["from"], "model_to": edges[ei]["to"],
                "retA": edges[ei]["retA"], "retI": edges[ei]["retI"],
                "obs_before": before, "obs_ret": ret, "obs_after": after,
            }));
        }
    }
    w.finish();
    println!("{}", json!({"states": n, "reached": order.len(), "edges_taken": taken, "edges_printed": edges.len()}));
    0
}

/// Binding B2, all paths: the edge replay above drives the real object to each model state along ONE access path.
/// An implementation may keep state the model's (correct) state does not distinguish -- a timestamp that one of two
/// routes to the same model state forgot to refresh -- so here every path of the model graph up to `depth` steps is
/// driven, and after the last step the observed return value and projection are compared with what the access-path
/// replay observed for the same model edge.  Records are written (in the format of `replay`) only for the steps that
/// differ; the driver judges them like any other observation.
pub fn replay_paths<R: Replayable>(edges_path: &str, out_path: &str, cfg: &Value, depth: usize) -> i32 {
    let edges = read_ndjson(edges_path);
    let mut ids: HashMap<String, usize> = HashMap::new();
    let mut out_edges: Vec<Vec<usize>> = Vec::new();
    let mut from_to: Vec<(usize, usize)> = Vec::with_capacity(edges.len());
    for (i, e) in edges.iter().enumerate() {
        let mut id_of = |s: &Value| -> usize {
            let k = s.to_string();
            let n = ids.len();
            *ids.entry(k).or_insert_with(|| { out_edges.push(Vec::new()); n })
        };
        let f = id_of(&e["from"]);
        let t = id_of(&e["to"]);
        out_edges[f].push(i);
        from_to.push((f, t));
    }
    for oe in out_edges.iter_mut() {
        let mut seen = std::collections::HashSet::new();
        oe.retain(|&i| seen.insert(edges[i]["act"].to_string()));
    }
    let n = out_edges.len();
    if n == 0 {
        eprintln!("no edges");
        return 2;
    }
    let init = from_to[0].0;
    // canonical observation per edge: the access-path replay
    let mut parent: Vec<Option<usize>> = vec![None; n];
    let mut seen = vec![false; n];
    seen[init] = true;
    let mut q = VecDeque::new();
    q.push_back(init);
    let mut canon: Vec<Option<(Value, Value)>> = vec![None; edges.len()];
    while let Some(s) = q.pop_front() {
        let mut path = Vec::new();
        let mut cur = s;
        while let Some(ei) = parent[cur] {
            path.push(ei);
            cur = from_to[ei].0;
        }
        path.reverse();
        for &ei in &out_edges[s] {
            let t = from_to[ei].1;
            if !seen[t] {
                seen[t] = true;
                parent[t] = Some(ei);
                q.push_back(t);
            }
            let mut obj = R::fresh(cfg);
            for &pi in &path {
                obj.apply(&edges[pi]["act"]);
            }
            let ret = obj.apply(&edges[ei]["act"]);
            canon[ei] = Some((R::stable(&ret), obj.project()));
        }
    }
    // all paths, depth first; the subtrees below the first steps are walked in parallel
    struct Ctx<'a> { edges: &'a [Value], out_edges: &'a [Vec<usize>], from_to: &'a [(usize, usize)], canon: &'a [Option<(Value, Value)>], cfg: &'a Value, depth: usize }
    fn walk<R: Replayable>(c: &Ctx, state: usize, path: &mut Vec<usize>, paths: &mut u64, diffs: &mut Vec<Value>) {
        if path.len() >= c.depth {
            return;
        }
        for &ei in &c.out_edges[state] {
            // (a path of length <= 1 is an access path itself; still walked, costs nothing)
            let mut obj = R::fresh(c.cfg);
            for &pi in path.iter() {
                obj.apply(&c.edges[pi]["act"]);
            }
            let before = obj.project();
            let ret = obj.apply(&c.edges[ei]["act"]);
            let after = obj.project();
            *paths += 1;
            if let Some((cret, cafter)) = &c.canon[ei] {
                if (*cret != R::stable(&ret) || *cafter != after) && diffs.len() < 200 {
                    diffs.push(json!({
                        "edge": ei, "all_paths": true,
                        "path": path.iter().map(|&pi| c.edges[pi]["act"].clone()).collect::<Vec<_>>(),
                        "act": c.edges[ei]["act"], "model_from": c.edges[ei]["from"], "model_to": c.edges[ei]["to"],
                        "retA": c.edges[ei]["retA"], "retI": c.edges[ei]["retI"],
                        "obs_before": before, "obs_ret": ret, "obs_after": after,
                    }));
                }
            }
            path.push(ei);
            walk::<R>(c, c.from_to[ei].1, path, paths, diffs);
            path.pop();
        }
    }
    let ctx = Ctx { edges: &edges, out_edges: &out_edges, from_to: &from_to, canon: &canon, cfg, depth };
    // work items: the paths of length 2 (or 1 where a state has no successors)
    let mut items: Vec<Vec<usize>> = Vec::new();
    for &e1 in &out_edges[init] {
        items.push(vec![e1]);
    }
    let results: Vec<(u64, Vec<Value>)> = std::thread::scope(|sc| {
        let hs: Vec<_> = items.iter().map(|it| {
            let ctx = &ctx;
            sc.spawn(move || {
                let mut paths = 0u64;
                let mut diffs = Vec::new();
                let mut p = it.clone();
                let st = ctx.from_to[*p.last().unwrap()].1;
                walk::<R>(ctx, st, &mut p, &mut paths, &mut diffs);
                (paths, diffs)
            })
        }).collect();
        hs.into_iter().map(|h| h.join().expect("walker panicked")).collect()
    });
    let mut w = NdWriter::create(out_path);
    let mut total = items.len() as u64;
    let mut nd = 0usize;
    for (p, d) in results {
        total += p;
        for r in d {
            nd += 1;
            w.put(&r);
        }
    }
    w.finish();
    println!("{}", json!({"paths": total, "depth": depth, "differing_steps": nd}));
    0
}
