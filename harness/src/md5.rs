//! Independent MD5 (transcribed from RFC 1321) so that digests seen on the wire are not judged
//! with the md-5 crate the library itself uses.  Cross-checked against python hashlib by --setup.
const S: [u32; 64] = [
    7, 12, 17, 22, 7, 12, 17, 22, 7, 12, 17, 22, 7, 12, 17, 22, 5, 9, 14, 20, 5, 9, 14, 20, 5, 9, 14, 20, 5, 9, 14, 20, 4, 11, 16, 23, 4, 11,
    16, 23, 4, 11, 16, 23, 4, 11, 16, 23, 6, 10, 15, 21, 6, 10, 15, 21, 6, 10, 15, 21, 6, 10, 15, 21,
];

pub fn md5(input: &[u8]) -> [u8; 16] {
    let k: Vec<u32> = (0..64).map(|i| ((i as f64 + 1.0).sin().abs() * 4294967296.0) as u32).collect();
    let mut a0: u32 = 0x67452301;
    let mut b0: u32 = 0xefcdab89;
    let mut c0: u32 = 0x98badcfe;
    let mut d0: u32 = 0x10325476;
    let mut msg = input.to_vec();
    let bit_len = (input.len() as u64).wrapping_mul(8);
    msg.push(0x80);
    while msg.len() % 64 != 56 {
        msg.push(0);
    }
    msg.extend_from_slice(&bit_len.to_le_bytes());
    for chunk in msg.chunks(64) {
        let m: Vec<u32> = (0..16).map(|i| u32::from_le_bytes([chunk[4 * i], chunk[4 * i + 1], chunk[4 * i + 2], chunk[4 * i + 3]])).collect();
        let (mut a, mut b, mut c, mut d) = (a0, b0, c0, d0);
        for i in 0..64 {
            let (mut f, g);
            if i < 16 {
                f = (b & c) | (!b & d);
                g = i;
            } else if i < 32 {
                f = (d & b) | (!d & c);
                g = (5 * i + 1) % 16;
            } else if i < 48 {
                f = b ^ c ^ d;
                g = (3 * i + 5) % 16;
            } else {
                f = c ^ (b | !d);
                g = (7 * i) % 16;
            }
            f = f.wrapping_add(a).wrapping_add(k[i]).wrapping_add(m[g]);
            a = d;
            d = c;
            c = b;
            b = b.wrapping_add(f.rotate_left(S[i]));
        }
        a0 = a0.wrapping_add(a);
        b0 = b0.wrapping_add(b);
        c0 = c0.wrapping_add(c);
        d0 = d0.wrapping_add(d);
    }
    let mut out = [0u8; 16];
    out[0..4].copy_from_slice(&a0.to_le_bytes());
    out[4..8].copy_from_slice(&b0.to_le_bytes());
    out[8..12].copy_from_slice(&c0.to_le_bytes());
    out[12..16].copy_from_slice(&d0.to_le_bytes());
    out
}

/// digest of the handshake: MD5(cookie ++ decimal text of the challenge)
pub fn handshake_digest(cookie: &[u8], challenge: u32) -> [u8; 16] {
    let mut v = cookie.to_vec();
    v.extend_from_slice(challenge.to_string().as_bytes());
    md5(&v)
}

pub fn run_selftest(args: &[String]) -> i32 {
    // md5 <hex-input>  -> prints hex digest
    let bytes: Vec<u8> = (0..args[0].len() / 2).map(|i| u8::from_str_radix(&args[0][2 * i..2 * i + 2], 16).unwrap()).collect();
    let d = md5(&bytes);
    println!("{}", d.iter().map(|b| format!("{b:02x}")).collect::<String>());
    0
}
