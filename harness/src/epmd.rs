//! Beyond the listed properties (spec/Epmd.tla): the real EpmdClient against a scripted daemon.
//! lookup / register cases from Gen_Epmd (answer bytes -> outcome class), the requests the client
//! writes (read back by the spec's ReadReq in the driver), what happens to the registering
//! connection when register_node returns, and a daemon that accepts and then stays silent.
use crate::io::{NdWriter, read_ndjson};
use crate::term_json::bytes_of;
use edp_client::epmd_client::{EpmdClient, NodeType};
use serde_json::{Value, json};
use std::sync::{Arc, Mutex};
use std::time::{Duration, Instant};
use tokio::io::{AsyncReadExt, AsyncWriteExt};
use tokio::net::TcpListener;

/// one-shot daemon: accepts one connection, reads one request (2-byte length + body), writes `answer`, then either
/// closes (close = true) or holds the connection and reports when the client's side closes
async fn daemon_once(answer: Vec<u8>, close: bool) -> (u16, Arc<Mutex<Vec<u8>>>, tokio::task::JoinHandle<Option<Duration>>) {
    let l = TcpListener::bind("127.0.0.1:0").await.expect("bind");
    let port = l.local_addr().unwrap().port();
    let req = Arc::new(Mutex::new(Vec::new()));
    let r2 = req.clone();
    let h = tokio::spawn(async move {
        let (mut s, _) = l.accept().await.ok()?;
        let mut lb = [0u8; 2];
        s.read_exact(&mut lb).await.ok()?;
        let mut body = vec![0u8; u16::from_be_bytes(lb) as usize];
        s.read_exact(&mut body).await.ok()?;
        let mut whole = lb.to_vec();
        whole.extend_from_slice(&body);
        *r2.lock().unwrap() = whole;
        let _ = s.write_all(&answer).await;
        let _ = s.flush().await;
        if close {
            drop(s);
            return None;
        }
        // hold: how long until the client closes its side?
        let t0 = Instant::now();
        let mut b = [0u8; 1];
        match tokio::time::timeout(Duration::from_millis(1500), s.read(&mut b)).await {
            Ok(Ok(0)) | Ok(Err(_)) => Some(t0.elapsed()),
            _ => None, // still open after 1.5 s
        }
    });
    (port, req, h)
}

fn classify(e: &edp_client::errors::Error) -> &'static str {
    let s = format!("{e:?}");
    if s.contains("EpmdLookup") {
        "not_found"
    } else if s.contains("EpmdRegistration") {
        "refused"
    } else {
        "error"
    }
}

pub fn run(args: &[String]) -> i32 {
    // epmd-run <lookup.ndjson> <reg.ndjson> <out.ndjson>
    let lookups = read_ndjson(&args[0]);
    let regs = read_ndjson(&args[1]);
    let rt = tokio::runtime::Builder::new_multi_thread().worker_threads(2).enable_all().build().expect("rt");
    let mut w = NdWriter::create(&args[2]);
    rt.block_on(async {
        for (i, c) in lookups.iter().enumerate() {
            let (port, req, h) = daemon_once(bytes_of(&c["answer"]), true).await;
            let cl = EpmdClient::with_port("127.0.0.1", port).with_timeout(Duration::from_millis(500));
            let r = tokio::time::timeout(Duration::from_secs(3), cl.lookup_node("n1@h")).await;
            let _ = h.await;
            let got = match &r {
                Err(_) => json!({"k": "hang"}),
                Ok(Ok(info)) => json!({"k": "ok", "port": info.port, "name": info.node_name.as_bytes(), "extra": info.extra, "hi": info.highest_version, "lo": info.lowest_version,
                                       "ty": info.node_type as u8}),
                Ok(Err(e)) => json!({"k": classify(e), "detail": format!("{e:?}").chars().take(120).collect::<String>()}),
            };
            w.put(&json!({"set": "lookup", "i": i, "got": got, "request": req.lock().unwrap().clone()}));
        }
        for (i, c) in regs.iter().enumerate() {
            let (port, req, h) = daemon_once(bytes_of(&c["answer"]), true).await;
            let cl = EpmdClient::with_port("127.0.0.1", port).with_timeout(Duration::from_millis(500));
            let r = tokio::time::timeout(Duration::from_secs(3), cl.register_node(4242, "n1@h", NodeType::Normal, 6, 5, &[9, 8])).await;
            let _ = h.await;
            let got = match &r {
                Err(_) => json!({"k": "hang"}),
                Ok(Ok(cr)) => json!({"k": "ok", "creation": cr}),
                Ok(Err(e)) => json!({"k": classify(e), "detail": format!("{e:?}").chars().take(120).collect::<String>()}),
            };
            w.put(&json!({"set": "register", "i": i, "got": got, "request": req.lock().unwrap().clone()}));
        }
        // names request
        {
            let mut ans = vec![0, 0, 17, 17];
            ans.extend_from_slice(b"name n1 at port 4242\n");
            let (port, req, h) = daemon_once(ans, true).await;
            let cl = EpmdClient::with_port("127.0.0.1", port).with_timeout(Duration::from_millis(500));
            let r = tokio::time::timeout(Duration::from_secs(3), cl.list_nodes()).await;
            let _ = h.await;
            w.put(&json!({"set": "names", "got": match r { Ok(Ok(s)) => json!({"k": "ok", "text": s}), Ok(Err(e)) => json!({"k": "error", "detail": format!("{e:?}")}), Err(_) => json!({"k": "hang"}) },
                          "request": req.lock().unwrap().clone()}));
        }
        // lease: does the registering connection outlive register_node's return?
        {
            let (port, _req, h) = daemon_once(vec![118, 0, 0, 0, 0, 5], false).await;
            let cl = EpmdClient::with_port("127.0.0.1", port).with_timeout(Duration::from_millis(500));
            let r = cl.register_node(4242, "n1@h", NodeType::Normal, 6, 5, &[]).await;
            let closed_after = h.await.ok().flatten();
            w.put(&json!({"set": "lease", "registered": r.is_ok(), "client_closed_registering_connection_after_ms": closed_after.map(|d| d.as_millis() as u64)}));
        }
        // silent daemon: accepts, reads the request, never answers
        {
            let l = TcpListener::bind("127.0.0.1:0").await.expect("bind");
            let port = l.local_addr().unwrap().port();
            let hold = tokio::spawn(async move {
                let Ok((mut s, _)) = l.accept().await else { return };
                let mut b = [0u8; 64];
                let _ = s.read(&mut b).await;
                tokio::time::sleep(Duration::from_secs(4)).await;
            });
            let cl = EpmdClient::with_port("127.0.0.1", port).with_timeout(Duration::from_millis(300));
            let t0 = Instant::now();
            let r = tokio::time::timeout(Duration::from_millis(2500), cl.lookup_node("n1@h")).await;
            hold.abort();
            w.put(&json!({"set": "silent", "configured_timeout_ms": 300, "returned_within_ms": if r.is_ok() { Some(t0.elapsed().as_millis() as u64) } else { None }}));
        }
    });
    w.finish();
    0
}
