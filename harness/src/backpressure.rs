//! Beyond the listed properties (spec/Backpressure.tla): one local process that does not drain its mailbox, and what that
//! does to the delivery of the same peer's messages to other processes.
use crate::inbound::Recorder;
use crate::io::NdWriter;
use crate::nodeenv::*;
use crate::rpc::connect_peer;
use edp_client::verif;
use edp_node::Node;
use erltf::{Atom, OwnedTerm};
use serde_json::{Value, json};
use std::sync::{Arc, Mutex};
use std::time::{Duration, Instant};
use tokio::net::TcpListener;

struct Stalled {
    log: Arc<Mutex<Vec<Value>>>,
    gate: Arc<tokio::sync::Notify>,
}

impl edp_node::Process for Stalled {
    async fn handle_message(&mut self, msg: edp_node::Message) -> edp_node::Result<()> {
        if let edp_node::Message::Regular { body, .. } = &msg {
            if matches!(body, OwnedTerm::Atom(x) if x.as_str() == "block") {
                self.gate.notified().await;
            }
        }
        match &msg {
            edp_node::Message::Regular { body: OwnedTerm::Integer(i), .. } => self.log.lock().unwrap().push(json!(i)),
            _ => self.log.lock().unwrap().push(json!({"k": "other"})),
        }
        Ok(())
    }
}

pub fn run(args: &[String]) -> i32 {
    // backpressure-run <extra-messages> <out.ndjson>
    let extra: i64 = args[0].parse().unwrap_or(2);
    let rt = tokio::runtime::Builder::new_multi_thread().worker_threads(4).enable_all().build().expect("rt");
    let mut w = NdWriter::create(&args[1]);
    rt.block_on(async {
        let listener = TcpListener::bind("127.0.0.1:0").await.expect("bind");
        let (epmd_port, _e) = fake_epmd(listener.local_addr().unwrap().port()).await;
        verif::set_epmd_port(epmd_port);
        let mut node = Node::new("n1@127.0.0.1", COOKIE);
        if node.start(0).await.is_err() {
            w.put(&json!({"tool_error": "node start failed"}));
            return;
        }
        let node = Arc::new(node);
        let slog = Arc::new(Mutex::new(Vec::new()));
        let flog = Arc::new(Mutex::new(Vec::new()));
        let gate = Arc::new(tokio::sync::Notify::new());
        let s = node.spawn(Stalled { log: slog.clone(), gate: gate.clone() }).await.expect("spawn");
        let f = node.spawn(Recorder { tag: "f".into(), log: flog.clone() }).await.expect("spawn");
        let Some(mut peer) = connect_peer(&node, &listener).await else {
            w.put(&json!({"tool_error": "could not connect"}));
            return;
        };
        // the slow process starts on a message it does not finish
        let _ = node.send(&s, OwnedTerm::Atom(Atom::new("block"))).await;
        tokio::time::sleep(Duration::from_millis(30)).await;
        // the peer: capacity + extra messages for the slow process, then one for the fast one
        let cap = 1000usize;
        let to_s = OwnedTerm::Tuple(vec![OwnedTerm::Integer(2), OwnedTerm::Atom(Atom::new("")), OwnedTerm::Pid(s.clone())]);
        let to_f = OwnedTerm::Tuple(vec![OwnedTerm::Integer(2), OwnedTerm::Atom(Atom::new("")), OwnedTerm::Pid(f.clone())]);
        let mut written = 0usize;
        for i in 0..((cap as i64 + extra).max(0) as usize) {
            if write_dist_frame(&mut peer.wr, &pass_through(&to_s, Some(&OwnedTerm::Integer(i as i64)))).await {
                written += 1;
            }
        }
        let _ = write_dist_frame(&mut peer.wr, &pass_through(&to_f, Some(&OwnedTerm::Atom(Atom::new("hello"))))).await;
        let t0 = Instant::now();
        let mut fast_got_while_stalled = false;
        while t0.elapsed() < Duration::from_millis(1500) {
            if !flog.lock().unwrap().is_empty() {
                fast_got_while_stalled = true;
                break;
            }
            tokio::time::sleep(Duration::from_millis(10)).await;
        }
        let waited_ms = t0.elapsed().as_millis() as u64;
        // the slow process resumes
        gate.notify_one();
        let t1 = Instant::now();
        let mut fast_got_after_resume = false;
        while t1.elapsed() < Duration::from_millis(3000) {
            if !flog.lock().unwrap().is_empty() {
                fast_got_after_resume = true;
                break;
            }
            tokio::time::sleep(Duration::from_millis(5)).await;
        }
        // everything the peer wrote for the slow process, in the order it was written
        let want = written;
        let t2 = Instant::now();
        while slog.lock().unwrap().len() < want + 1 && t2.elapsed() < Duration::from_millis(5000) {
            tokio::time::sleep(Duration::from_millis(10)).await;
        }
        let got: Vec<i64> = slog.lock().unwrap().iter().filter_map(|x| x.as_i64()).collect();
        let in_order = got.iter().enumerate().all(|(i, x)| *x == i as i64);
        let first_gap = got.iter().enumerate().find(|(i, x)| **x != *i as i64).map(|(i, x)| json!({"position": i, "message": x}));
        tokio::time::sleep(Duration::from_millis(100)).await;
        w.put(&json!({"delivered_to_the_slow_process": got.len(), "delivered_in_order_without_gaps": in_order && got.len() == want, "first_gap": first_gap,"mailbox_capacity": cap, "messages_for_the_slow_process": written, "fast_got_its_message_while_the_slow_one_was_stalled": fast_got_while_stalled,
                      "waited_ms": waited_ms, "fast_got_its_message_after_the_slow_one_resumed": fast_got_after_resume, "ms_after_resume": t1.elapsed().as_millis() as u64,
                      "slow_handled_in_the_end": slog.lock().unwrap().len(), "still_connected": node.connections().contains_key("peer@127.0.0.1")}));
    });
    w.finish();
    0
}
