//! Shared environment for Node-level scenarios (C07, C17, C18, C19): a fake EPMD (registration
//! and lookup) reached through the guarded port override, a scripted peer that completes the
//! handshake as acceptor and then exposes the raw frame stream, and the cooperative scheduler
//! for async tasks built on the guarded `verif::point` hook.
use crate::md5::handshake_digest;
use edp_client::verif;
use serde_json::{Value, json};
use std::collections::HashMap;
use std::sync::{Arc, Mutex};
use std::time::{Duration, Instant};
use tokio::io::{AsyncReadExt, AsyncWriteExt};
use tokio::net::tcp::{OwnedReadHalf, OwnedWriteHalf};
use tokio::net::{TcpListener, TcpStream};
use tokio::sync::oneshot;

pub const COOKIE: &str = "verifcookie";
pub const PEER_FLAGS: u64 = 0x8340b074fbd; // the library's DEFAULT set: no distribution-header flag => pass-through frames

// ---------------------------------------------------------------------------------- fake EPMD
pub async fn fake_epmd(dist_port: u16) -> (u16, tokio::task::JoinHandle<()>) {
    let l = TcpListener::bind("127.0.0.1:0").await.expect("bind epmd");
    let port = l.local_addr().unwrap().port();
    let h = tokio::spawn(async move {
        loop {
            let Ok((mut s, _)) = l.accept().await else { break };
            tokio::spawn(async move {
                let mut lb = [0u8; 2];
                if s.read_exact(&mut lb).await.is_err() {
                    return;
                }
                let n = u16::from_be_bytes(lb) as usize;
                let mut req = vec![0u8; n];
                if s.read_exact(&mut req).await.is_err() {
                    return;
                }
                match req.first() {
                    Some(120) => {
                        // ALIVE2_REQ -> ALIVE2_X_RESP, creation 77
                        let _ = s.write_all(&[118, 0, 0, 0, 0, 77]).await;
                        let _ = s.flush().await;
                        // keep the registration socket open
                        let mut b = [0u8; 1];
                        let _ = s.read(&mut b).await;
                    }
                    Some(122) => {
                        let name = req[1..].to_vec();
                        let mut r = vec![119u8, 0];
                        r.extend_from_slice(&dist_port.to_be_bytes());
                        r.extend_from_slice(&[77, 0, 0, 6, 0, 5]);
                        r.extend_from_slice(&(name.len() as u16).to_be_bytes());
                        r.extend_from_slice(&name);
                        r.extend_from_slice(&[0, 0]);
                        let _ = s.write_all(&r).await;
                        let _ = s.flush().await;
                    }
                    _ => {}
                }
            });
        }
    });
    (port, h)
}

// ---------------------------------------------------------------------------------- scripted peer
pub struct PeerConn {
    pub rd: OwnedReadHalf,
    pub wr: OwnedWriteHalf,
    pub initiator_name: Vec<u8>,
}

async fn hs_read(s: &mut TcpStream) -> Option<Vec<u8>> {
    let mut l = [0u8; 2];
    s.read_exact(&mut l).await.ok()?;
    let mut b = vec![0u8; u16::from_be_bytes(l) as usize];
    s.read_exact(&mut b).await.ok()?;
    Some(b)
}

async fn hs_write(s: &mut TcpStream, b: &[u8]) {
    let mut f = (b.len() as u16).to_be_bytes().to_vec();
    f.extend_from_slice(b);
    let _ = s.write_all(&f).await;
    let _ = s.flush().await;
}

/// acceptor side of the handshake with a conforming initiator
pub async fn accept_handshake(s: TcpStream, peer_name: &str, flags: u64) -> Option<PeerConn> {
    accept_handshake_tail(s, peer_name, flags, &[]).await
}

/// the same, with `tail` (already framed distribution bytes) written in one piece with the final handshake message: a peer
/// that starts talking at once
pub async fn accept_handshake_tail(mut s: TcpStream, peer_name: &str, flags: u64, tail: &[u8]) -> Option<PeerConn> {
    let _ = s.set_nodelay(true);
    let name = hs_read(&mut s).await?;
    hs_write(&mut s, b"sok").await;
    let chal: u32 = 0x0A0B0C0D;
    let mut c = vec![b'N'];
    c.extend_from_slice(&flags.to_be_bytes());
    c.extend_from_slice(&chal.to_be_bytes());
    c.extend_from_slice(&1u32.to_be_bytes());
    c.extend_from_slice(&(peer_name.len() as u16).to_be_bytes());
    c.extend_from_slice(peer_name.as_bytes());
    hs_write(&mut s, &c).await;
    let mut reply = None;
    for _ in 0..2 {
        let f = hs_read(&mut s).await?;
        if f.first() == Some(&b'r') {
            reply = Some(f);
            break;
        }
    }
    let reply = reply?;
    let their = u32::from_be_bytes([reply[1], reply[2], reply[3], reply[4]]);
    if reply[5..] != handshake_digest(COOKIE.as_bytes(), chal) {
        return None;
    }
    let mut a = vec![b'a'];
    a.extend_from_slice(&handshake_digest(COOKIE.as_bytes(), their));
    if tail.is_empty() {
        hs_write(&mut s, &a).await;
    } else {
        let mut f = (a.len() as u16).to_be_bytes().to_vec();
        f.extend_from_slice(&a);
        f.extend_from_slice(tail);
        let _ = s.write_all(&f).await;
        let _ = s.flush().await;
    }
    let (rd, wr) = s.into_split();
    Some(PeerConn { rd, wr, initiator_name: name[7..].to_vec() })
}

pub async fn read_dist_frame(rd: &mut OwnedReadHalf) -> Option<Vec<u8>> {
    let mut l = [0u8; 4];
    rd.read_exact(&mut l).await.ok()?;
    let mut b = vec![0u8; u32::from_be_bytes(l) as usize];
    rd.read_exact(&mut b).await.ok()?;
    Some(b)
}

pub async fn write_dist_frame(wr: &mut OwnedWriteHalf, body: &[u8]) -> bool {
    let mut f = (body.len() as u32).to_be_bytes().to_vec();
    f.extend_from_slice(body);
    wr.write_all(&f).await.is_ok() && wr.flush().await.is_ok()
}

/// pass-through frame body: 112, control, [message]
pub fn pass_through(control: &erltf::OwnedTerm, msg: Option<&erltf::OwnedTerm>) -> Vec<u8> {
    let mut b = vec![112u8];
    b.extend_from_slice(&erltf::encode(control).expect("encode control"));
    if let Some(m) = msg {
        b.extend_from_slice(&erltf::encode(m).expect("encode msg"));
    }
    b
}

// ---------------------------------------------------------------------------------- async scheduler
tokio::task_local! {
    pub static ACTOR: String;
}

struct Parked {
    label: String,
    detail: String,
    go: oneshot::Sender<()>,
}

#[derive(Default)]
struct Inner {
    parked: HashMap<String, Parked>,
    free_run: bool,
    only: Vec<&'static str>,   // label prefixes that are scheduling points for this run (empty: all)
    log: Vec<Value>,
}

#[derive(Clone)]
pub struct AsyncSched {
    inner: Arc<Mutex<Inner>>,
}

impl AsyncSched {
    pub fn install() -> Self {
        let s = AsyncSched { inner: Arc::new(Mutex::new(Inner::default())) };
        let s2 = s.clone();
        verif::install_point_hook(Some(Arc::new(move |site_actor: String, label: &'static str, detail: String| {
            let actor = ACTOR.try_with(|a| a.clone()).unwrap_or(site_actor);
            let mut g = s2.inner.lock().unwrap();
            g.log.push(json!({"actor": actor, "label": label, "detail": detail}));
            if g.free_run || (!g.only.is_empty() && !g.only.iter().any(|p| label.starts_with(p))) {
                return None;
            }
            let (tx, rx) = oneshot::channel();
            g.parked.insert(actor, Parked { label: label.to_string(), detail, go: tx });
            Some(rx)
        })));
        s
    }
    /// restrict the scheduling points to labels with one of these prefixes; the other guarded points
    /// of the library (added for other properties) are logged and passed through
    pub fn only(&self, prefixes: &[&'static str]) {
        self.inner.lock().unwrap().only = prefixes.to_vec();
    }
    pub fn uninstall(&self) {
        verif::install_point_hook(None);
        self.set_free_run(true);
    }
    /// with free_run every point returns at once (used while a scenario is being set up)
    pub fn set_free_run(&self, on: bool) {
        let mut g = self.inner.lock().unwrap();
        g.free_run = on;
        if on {
            for (_, p) in g.parked.drain() {
                let _ = p.go.send(());
            }
        }
    }
    pub fn parked_at(&self, actor: &str) -> Option<(String, String)> {
        self.inner.lock().unwrap().parked.get(actor).map(|p| (p.label.clone(), p.detail.clone()))
    }
    pub async fn wait_parked(&self, actor: &str, within: Duration) -> Option<(String, String)> {
        let t0 = Instant::now();
        loop {
            if let Some(x) = self.parked_at(actor) {
                return Some(x);
            }
            if t0.elapsed() > within {
                return None;
            }
            tokio::time::sleep(Duration::from_micros(300)).await;
        }
    }
    pub fn release(&self, actor: &str) -> bool {
        let p = self.inner.lock().unwrap().parked.remove(actor);
        match p {
            Some(p) => {
                let _ = p.go.send(());
                true
            }
            None => false,
        }
    }
    /// an event of the harness itself (the scripted peer writing, a caller returning) in the same totally ordered log
    pub fn note(&self, actor: &str, label: &str, detail: String) {
        self.inner.lock().unwrap().log.push(json!({"actor": actor, "label": label, "detail": detail}));
    }
    pub fn take_log(&self) -> Vec<Value> {
        std::mem::take(&mut self.inner.lock().unwrap().log)
    }
}
