//! Verification harness for edp-rs: executes spec-generated vectors / edges / scenarios on the
//! real code and records observations.  All judging is done by ./check (python) from the
//! specification's expectations; this binary only executes and projects.
#![allow(clippy::all)]
#![allow(dead_code)]

mod alloc;
mod attack;
mod behaviours;
mod conn;
mod control;
mod disthdr;
mod edges;
mod elixir;
mod epmd;
mod nodeconn;
mod etf;
mod frag;
mod handshake;
mod inbound;
mod framing;
mod guard;
mod io;
mod keepalive;
mod backpressure;
mod churn;
mod rex;
mod remotelinks;
mod localproc;
mod md5;
mod nodeenv;
mod rpc;
mod serde_rt;
mod order;
mod pid;
mod term_json;

#[global_allocator]
static GLOBAL: alloc::Counting = alloc::Counting;

fn main() {
    let args: Vec<String> = std::env::args().collect();
    if args.len() < 2 {
        eprintln!("usage: harness <subcommand> ...");
        std::process::exit(2);
    }
    let rest = &args[2..];
    let rc = match args[1].as_str() {
        "frag-edges" => frag::run_edges(rest),
        "frag-paths" => frag::run_paths(rest),
        "etf-obs" => etf::run_obs(rest),
        "etf-random" => etf::run_random(rest),
        "etf-raw" => etf::run_raw(rest),
        "id-twins" => etf::run_id_twins(rest),
        "attack-run" => attack::run(rest),
        "order-obs" => order::run(rest),
        "control-obs" => control::run(rest),
        "dh-encode" => disthdr::run_encode(rest),
        "dh-local" => disthdr::run_local(rest),
        "dh-edges" => disthdr::run_edges(rest),
        "framing-run" => framing::run(rest),
        "transport-run" => framing::run_transport(rest),
        "md5" => md5::run_selftest(rest),
        "hs-edges" => handshake::run_edges(rest),
        "hs-paths" => handshake::run_paths(rest),
        "hs-family" => handshake::run_family(rest),
        "hs-wire" => handshake::run_wire(rest),
        "pid-run" => pid::run(rest),
        "rpc-run" => rpc::run(rest),
        "rpc-free" => rpc::run_free(rest),
        "rpc-stall" => rpc::run_stall(rest),
        "rpc-peers" => rpc::run_peers(rest),
        "inbound-run" => inbound::run(rest),
        "localproc-run" => localproc::run(rest),
        "localproc-race" => localproc::run_race(rest),
        "conn-send" => conn::run_send(rest),
        "conn-conc" => conn::run_conc(rest),
        "conn-recv" => conn::run_recv(rest),
        "serde-rt" => serde_rt::run(rest),
        "serde-rt-random" => serde_rt::run_random(rest),
        "elixir-run" => elixir::run(rest),
        "epmd-run" => epmd::run(rest),
        "guard-run" => guard::run(rest),
        "keepalive-run" => keepalive::run(rest),
        "backpressure-run" => backpressure::run(rest),
        "churn-run" => churn::run(rest),
        "rex-run" => rex::run(rest),
        "remotelinks-run" => remotelinks::run(rest),
        "behaviours-run" => behaviours::run(rest),
        "nodeconn-run" => nodeconn::run(rest),
        other => {
            eprintln!("unknown subcommand {other}");
            2
        }
    };
    std::process::exit(rc);
}
