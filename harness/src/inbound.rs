//! C19: frame sequences of spec/Inbound.tla sent by the scripted peer to a real Node; instrumented
//! processes record what their handlers are given; the receiver's survival and the connection's
//! registration are observed after every frame.
use crate::io::{NdWriter, read_ndjson};
use crate::nodeenv::*;
use crate::rpc::{Peer, connect_peer};
use crate::term_json::denote;
use edp_client::verif;
use edp_node::{Message, Node, Process};
use erltf::{Atom, ExternalPid, ExternalReference, OwnedTerm};
use serde_json::{Value, json};
use std::sync::{Arc, Mutex};
use std::time::Duration;
use tokio::io::AsyncWriteExt;
use tokio::net::TcpListener;

const PEER: &str = "peer@127.0.0.1";
const RX: &str = "rx:peer@127.0.0.1";

pub struct Recorder {
    pub tag: String,
    pub log: Arc<Mutex<Vec<Value>>>,
}

impl Process for Recorder {
    async fn handle_message(&mut self, msg: Message) -> edp_node::Result<()> {
        let (d, die) = match &msg {
            Message::Regular { from, body } => (
                json!({"k": "regular", "from": from.as_ref().map(|p| denote(&OwnedTerm::Pid(p.clone()))), "body": denote(body)}),
                matches!(body, OwnedTerm::Atom(a) if a.as_str() == "die")
                    || matches!(body, OwnedTerm::Tuple(e) if matches!(e.first(), Some(OwnedTerm::Atom(a)) if a.as_str() == "die")),
            ),
            Message::Exit { from, reason } => (json!({"k": "exit", "from": denote(&OwnedTerm::Pid(from.clone())), "reason": denote(reason)}), false),
            Message::MonitorExit { monitored, reference, reason } => (
                json!({"k": "monitor_exit", "from": denote(&OwnedTerm::Pid(monitored.clone())), "ref": denote(&OwnedTerm::Reference(reference.clone())), "reason": denote(reason)}),
                false,
            ),
            other => (json!({"k": "other", "debug": format!("{other:?}").chars().take(80).collect::<String>()}), false),
        };
        self.log.lock().unwrap().push(json!({"proc": self.tag, "msg": d}));
        if die {
            return Err(edp_node::Error::InvalidMessage("die".into()));
        }
        Ok(())
    }
}

fn a(s: &str) -> OwnedTerm {
    OwnedTerm::Atom(Atom::new(s))
}

fn tagged(kind: &str, i: i64) -> OwnedTerm {
    OwnedTerm::Tuple(vec![a(kind), OwnedTerm::Integer(i)])
}

async fn wait_until(mut f: impl FnMut() -> bool, ms: u64) -> bool {
    let t0 = std::time::Instant::now();
    while !f() {
        if t0.elapsed() > Duration::from_millis(ms) {
            return false;
        }
        tokio::time::sleep(Duration::from_micros(400)).await;
    }
    true
}

async fn run_one(sc: &Value, listener: &TcpListener, sched: &AsyncSched, idx: usize) -> Value {
    sched.set_free_run(true);
    let mut node = Node::new(format!("n{}@127.0.0.1", idx % 7 + 1), COOKIE);
    if node.start(0).await.is_err() {
        return json!({"tool_error": "node start"});
    }
    let node = Arc::new(node);
    let log = Arc::new(Mutex::new(Vec::new()));
    let mk = |tag: &str| Recorder { tag: tag.to_string(), log: log.clone() };
    let p1 = node.spawn(mk("P1")).await.expect("spawn");
    let p2 = node.spawn(mk("P2")).await.expect("spawn");
    let d = node.spawn(mk("D")).await.expect("spawn");
    // the name has a history (LocalProc: Register / Unregister / Register, then the former owner terminates): it belonged to D,
    // was handed over to P1, and D is gone by the time the peer writes to it
    let _ = node.register(Atom::new("alpha"), d.clone()).await;
    let _ = node.unregister(&Atom::new("alpha")).await;
    let _ = node.register(Atom::new("alpha"), p1.clone()).await;
    let _ = node.send(&d, a("die")).await;
    let n2 = node.clone();
    let gone = wait_until(|| futures_count(&n2) == 2, 500).await;
    log.lock().unwrap().clear();
    let never = ExternalPid::new(node.name().clone(), 555_555, 0, node.creation());
    // Z: still in the process table, mailbox already closed (a process task that has ended but is not removed yet)
    let zombie = ExternalPid::new(node.name().clone(), 444_444, 0, node.creation());
    {
        let (tx, rx) = tokio::sync::mpsc::channel::<edp_node::Message>(1);
        drop(rx);
        node.registry().insert(zombie.clone(), edp_node::ProcessHandle::new(zombie.clone(), tx)).await;
    }
    let remote = ExternalPid::new(Atom::new(PEER), 11, 0, 1);
    // "eager_first": the peer sends the first frame of the scenario (a name-addressed message) in one piece with its last handshake message
    let eager = sc["eager_first"].as_bool().unwrap_or(false);
    let mut tail = Vec::new();
    if eager {
        let body = pass_through(&OwnedTerm::Tuple(vec![OwnedTerm::Integer(6), OwnedTerm::Pid(remote.clone()), a(""), a("alpha")]), Some(&tagged("send_name", 1)));
        tail.extend_from_slice(&(body.len() as u32).to_be_bytes());
        tail.extend_from_slice(&body);
    }
    let Some(mut peer) = crate::rpc::connect_peer_tail(&node, listener, &tail).await else { return json!({"tool_error": "connect"}) };
    if eager {
        tokio::time::sleep(Duration::from_millis(40)).await;
    }
    // the outstanding remote call
    let n3 = node.clone();
    let call = tokio::spawn(async move { n3.rpc_call_raw_with_timeout(PEER, "m", "f", vec![], Duration::from_secs(3)).await.map_err(|e| format!("{e:?}")) });
    let f2 = peer.frames.clone();
    wait_until(|| !f2.lock().unwrap().is_empty(), 800).await;
    let call_pid = {
        let fr = peer.frames.lock().unwrap();
        fr.first().and_then(|f| erltf::decoder::decode_with_trailing(&f[1..]).ok().map(|(t, _)| t)).and_then(|t| match t {
            OwnedTerm::Tuple(e) if e.len() == 4 => match &e[1] {
                OwnedTerm::Pid(p) => Some(p.clone()),
                _ => None,
            },
            _ => None,
        })
    };
    let Some(call_pid) = call_pid else { return json!({"tool_error": "rpc request not seen by the peer"}) };
    let rref = ExternalReference::new(Atom::new(PEER), 1, vec![7, 8, 9]);
    sched.take_log();
    sched.set_free_run(false);
    let hist: Vec<(String, String)> = sc["hist"].as_array().map(|x| x.iter().map(|e| (e[0].as_str().unwrap_or("").to_string(), e[1].as_str().unwrap_or("").to_string())).collect()).unwrap_or_default();
    let mut steps = Vec::new();
    let mut frame_no = 0i64;
    let mut peer_open = true;
    for (hi, (kind, tgt)) in hist.iter().enumerate() {
        if eager && hi == 0 {
            // already sent with the handshake (and, the receiver running freely during set-up, already routed)
            frame_no += 1;
            steps.push(json!({"kind": kind, "tgt": tgt, "wrote": true, "outcome": "routed", "registered": node.connections().contains_key(PEER), "eager": true}));
            continue;
        }
        if kind == "kill" {
            let _ = node.send(&p2, a("die")).await;
            let n4 = node.clone();
            wait_until(|| futures_count(&n4) <= 2, 500).await;
            steps.push(json!({"kind": "kill", "registered": node.connections().contains_key(PEER)}));
            continue;
        }
        if kind == "move_name" {
            let _ = node.unregister(&Atom::new("alpha")).await;
            let ok = node.register(Atom::new("alpha"), p2.clone()).await.is_ok();
            steps.push(json!({"kind": "move_name", "ok": ok, "registered": node.connections().contains_key(PEER)}));
            continue;
        }
        if kind == "drop_name" {
            let ok = node.unregister(&Atom::new("alpha")).await.is_ok();
            steps.push(json!({"kind": "drop_name", "ok": ok, "registered": node.connections().contains_key(PEER)}));
            continue;
        }
        if kind == "ticks" {
            // "IxN": N times (silence of I ms, then a tick)
            let mut it = tgt.split('x');
            let interval: u64 = it.next().and_then(|x| x.parse().ok()).unwrap_or(1000);
            let count: u64 = it.next().and_then(|x| x.parse().ok()).unwrap_or(1);
            sched.set_free_run(true);
            for _ in 0..count {
                tokio::time::sleep(Duration::from_millis(interval)).await;
                let _ = write_dist_frame(&mut peer.wr, &[]).await;
            }
            tokio::time::sleep(Duration::from_millis(50)).await;
            sched.set_free_run(false);
            frame_no += 1; // the quiet period counts as one entry of the scenario
            steps.push(json!({"kind": "ticks", "tgt": tgt, "registered": node.connections().contains_key(PEER)}));
            continue;
        }
        frame_no += 1;
        let to = match tgt.as_str() {
            "P1" => p1.clone(),
            "P2" => p2.clone(),
            "D" => d.clone(),
            // P1's number and serial under the creation of another incarnation / under another node's name: nobody here
            "S1" => ExternalPid::new(p1.node.clone(), p1.id, p1.serial, p1.creation.wrapping_add(1)),
            "F1" => ExternalPid::new(Atom::new("elsewhere@127.0.0.1"), p1.id, p1.serial, p1.creation),
            "Z" => zombie.clone(),
            _ => never.clone(),
        };
        let body: Option<Vec<u8>> = match kind.as_str() {
            "send_pid" => Some(pass_through(&OwnedTerm::Tuple(vec![OwnedTerm::Integer(2), a(""), OwnedTerm::Pid(to)]), Some(&tagged("send_pid", frame_no)))),
            "send_name" => Some(pass_through(&OwnedTerm::Tuple(vec![OwnedTerm::Integer(6), OwnedTerm::Pid(remote.clone()), a(""), a(tgt)]), Some(&tagged("send_name", frame_no)))),
            "die_pid" => Some(pass_through(&OwnedTerm::Tuple(vec![OwnedTerm::Integer(2), a(""), OwnedTerm::Pid(to)]), Some(&tagged("die", frame_no)))),
            "die_name" => Some(pass_through(&OwnedTerm::Tuple(vec![OwnedTerm::Integer(6), OwnedTerm::Pid(remote.clone()), a(""), a(tgt)]), Some(&tagged("die", frame_no)))),
            "exit" => Some(pass_through(&OwnedTerm::Tuple(vec![OwnedTerm::Integer(3), OwnedTerm::Pid(remote.clone()), OwnedTerm::Pid(to), tagged("exit", frame_no)]), None)),
            "monitor_exit" => Some(pass_through(&OwnedTerm::Tuple(vec![OwnedTerm::Integer(21), OwnedTerm::Pid(remote.clone()), OwnedTerm::Pid(to), OwnedTerm::Reference(rref.clone()), tagged("monitor_exit", frame_no)]), None)),
            "rpc_reply" => {
                let pid = if tgt == "call" { call_pid.clone() } else { ExternalPid::new(node.name().clone(), 777_777, 0, node.creation()) };
                Some(pass_through(&OwnedTerm::Tuple(vec![OwnedTerm::Integer(2), a(""), OwnedTerm::Pid(pid)]), Some(&tagged("rpc_reply", frame_no))))
            }
            "tick" => Some(vec![]),
            "unknown_control" => Some(pass_through(&OwnedTerm::Tuple(vec![OwnedTerm::Integer(1), OwnedTerm::Pid(remote.clone()), OwnedTerm::Pid(p1.clone())]), None)),
            "generic_control" => Some(pass_through(&OwnedTerm::Tuple(vec![OwnedTerm::Integer(200), OwnedTerm::Integer(1), a("x")]), Some(&tagged("generic", frame_no)))),
            "undecodable" => Some(vec![112, 131, 255, 1, 2]),
            "wrong_marker" => Some(vec![111, 131, 104, 0]),
            "bad_control" => Some(pass_through(&OwnedTerm::Tuple(vec![a("foo"), a("bar")]), None)),
            "control_not_tuple" => Some(pass_through(&a("hello"), None)),
            "empty_tuple_control" => Some(pass_through(&OwnedTerm::Tuple(vec![]), None)),
            "truncated_term" => Some(vec![112, 131, 104, 3, 97, 1]),
            _ => None,
        };
        let mut wrote = true;
        match (kind.as_str(), body) {
            (_, Some(b)) => wrote = write_dist_frame(&mut peer.wr, &b).await,
            ("overlong", None) => {
                wrote = peer.wr.write_all(&[0x05, 0, 0, 0, 112, 131]).await.is_ok();
                let _ = peer.wr.flush().await;
            }
            ("close_mid_frame", None) => {
                let _ = peer.wr.write_all(&[0, 0, 0, 100, 112, 131, 104, 2, 97, 1]).await;
                let _ = peer.wr.flush().await;
                tokio::time::sleep(Duration::from_millis(3)).await;
                peer_open = false;
            }
            ("close", None) => peer_open = false,
            _ => {}
        }
        if !peer_open {
            // graceful shutdown of the write side is enough for "the peer closes the stream"
            let _ = peer.wr.shutdown().await;
        }
        // follow the receiver through this frame (a tick never surfaces from the read loop)
        let mut outcome = "none".to_string();
        if kind != "tick" {
            match sched.wait_parked(RX, Duration::from_millis(800)).await {
                Some((l, dd)) if l == "rx.frame" => {
                    sched.release(RX);
                    if dd == "ok" {
                        if sched.wait_parked(RX, Duration::from_millis(800)).await.map(|p| p.0) == Some("rx.routed".into()) {
                            sched.release(RX);
                            outcome = "routed".into();
                        } else {
                            outcome = "lost_after_frame".into();
                        }
                    } else {
                        // the receiver either goes on reading or is about to stop
                        match sched.wait_parked(RX, Duration::from_millis(60)).await {
                            Some((l2, _)) if l2 == "rx.closing" => {
                                sched.release(RX);
                                outcome = "stopped".into();
                                let n5 = node.clone();
                                wait_until(|| !n5.connections().contains_key(PEER), 300).await;
                            }
                            _ => outcome = "skipped".into(),
                        }
                    }
                }
                Some((l, _)) => outcome = format!("parked_at_{l}"),
                None => outcome = "no_frame_seen".into(),
            }
        } else {
            tokio::time::sleep(Duration::from_millis(5)).await;
        }
        steps.push(json!({"kind": kind, "tgt": tgt, "wrote": wrote, "outcome": outcome, "registered": node.connections().contains_key(PEER)}));
    }
    sched.set_free_run(true);
    tokio::time::sleep(Duration::from_millis(30)).await;
    let call_result = if call.is_finished() {
        match call.await {
            Ok(Ok(t)) => json!({"ok": denote(&t)}),
            Ok(Err(e)) => json!({"err": e.chars().take(100).collect::<String>()}),
            Err(_) => json!({"panic": true}),
        }
    } else {
        call.abort();
        json!({"pending": true})
    };
    let registered = node.connections().contains_key(PEER);
    // is the connection still usable? a local send to the peer must reach it
    let before = peer.frames.lock().unwrap().len();
    let usable = if registered {
        let r = node.send(&remote, a("probe")).await.is_ok();
        let f3 = peer.frames.clone();
        r && wait_until(|| f3.lock().unwrap().len() > before, 300).await
    } else {
        false
    };
    let out = json!({"steps": steps, "delivered": log.lock().unwrap().clone(), "registered": registered, "usable": usable, "call": call_result,
                     "setup_dead_process_gone": gone, "pids": {"P1": denote(&OwnedTerm::Pid(p1)), "P2": denote(&OwnedTerm::Pid(p2))},
                     "remote": denote(&OwnedTerm::Pid(remote)), "ref": denote(&OwnedTerm::Reference(rref))});
    peer.kill();
    out
}

fn futures_count(node: &Arc<Node>) -> usize {
    // process_count is async; poll it through a tiny blocking bridge
    let n = node.clone();
    tokio::task::block_in_place(|| tokio::runtime::Handle::current().block_on(async move { n.process_count().await }))
}

pub fn run(args: &[String]) -> i32 {
    // inbound-run <scenarios.ndjson> <out.ndjson>
    let scenarios = read_ndjson(&args[0]);
    let rt = tokio::runtime::Builder::new_multi_thread().worker_threads(4).enable_all().build().expect("rt");
    let mut w = NdWriter::create(&args[1]);
    rt.block_on(async {
        let sched = AsyncSched::install();
        sched.only(&["rx."]);
        sched.set_free_run(true);
        let listener = TcpListener::bind("127.0.0.1:0").await.expect("bind");
        let (epmd_port, _epmd) = fake_epmd(listener.local_addr().unwrap().port()).await;
        verif::set_epmd_port(epmd_port);
        for (i, sc) in scenarios.iter().enumerate() {
            let mut o = run_one(sc, &listener, &sched, i).await;
            o["id"] = sc["id"].clone();
            w.put(&o);
        }
        sched.uninstall();
    });
    w.finish();
    0
}
