//! C02: every decoding entry point on adversarial inputs, on a thread with tokio's default
//! 2 MiB worker stack, under the counting allocator.  A stack overflow / abort kills this
//! process; the driver reads the progress file to learn which input did it and restarts after it.
use crate::alloc;
use crate::io::{NdWriter, catch, quiet_panics, read_ndjson};
use crate::term_json::bytes_of;
use serde_json::{Value, json};
use std::io::Write;

fn expand(rec: &Value) -> Vec<u8> {
    if let Some(t) = rec.get("template") {
        let prefix = bytes_of(&t["prefix"]);
        let leaf = bytes_of(&t["leaf"]);
        let suffix = bytes_of(&t["suffix"]);
        let times = t["times"].as_u64().unwrap_or(0) as usize;
        let mut b = Vec::with_capacity(1 + times * (prefix.len() + suffix.len()) + leaf.len());
        b.push(131);
        for _ in 0..times {
            b.extend_from_slice(&prefix);
        }
        b.extend_from_slice(&leaf);
        for _ in 0..times {
            b.extend_from_slice(&suffix);
        }
        b
    } else if let Some(ks) = rec.get("map_keys").and_then(|k| k.as_array()) {
        // a well-formed MAP_EXT whose keys are the given values: decoding a map compares its keys
        let mut b = vec![131u8, 116];
        b.extend_from_slice(&(ks.len() as u32).to_be_bytes());
        for (i, k) in ks.iter().enumerate() {
            let kb = catch(|| erltf::encode(&crate::term_json::build(k))).ok().and_then(|r| r.ok()).unwrap_or_else(|| vec![131, 106]);
            b.extend_from_slice(&kb[1..]);
            b.extend_from_slice(&[97, i as u8]);
        }
        b
    } else {
        bytes_of(&rec["bytes"])
    }
}

fn one<T>(f: impl FnOnce() -> Result<T, String>) -> Value {
    alloc::start();
    let r = catch(f);
    let (mx, total) = alloc::stop();
    let kind = match &r {
        Ok(Ok(_)) => "ok",
        Ok(Err(_)) => "err",
        Err(_) => "panic",
    };
    let detail = match r {
        Ok(Ok(_)) => Value::Null,
        Ok(Err(e)) => json!(e.chars().take(80).collect::<String>()),
        Err(p) => json!(p.chars().take(200).collect::<String>()),
    };
    json!([kind, mx, total, detail])
}

pub fn entry_points(b: &[u8]) -> Value {
    let mut m = serde_json::Map::new();
    m.insert("decode".into(), one(|| erltf::decode(b).map(|_| ()).map_err(|e| format!("{e:?}"))));
    m.insert("decode_borrowed".into(), one(|| erltf::decode_borrowed(b).map(|_| ()).map_err(|e| format!("{:?}", e.error))));
    m.insert("decode_with_atom_cache".into(), one(|| {
        let mut c = erltf::AtomCache::new();
        erltf::decode_with_atom_cache(b, &mut c).map(|_| ()).map_err(|e| format!("{e:?}"))
    }));
    m.insert("decode_with_trailing".into(), one(|| erltf::decoder::decode_with_trailing(b).map(|_| ()).map_err(|e| format!("{e:?}"))));
    m.insert("decode_raw_term".into(), one(|| erltf::decoder::decode_raw_term(if b.is_empty() { b } else { &b[1..] }).map(|_| ()).map_err(|e| format!("{e:?}"))));
    m.insert("decode_with_cache".into(), one(|| erltf::decoder::decode_with_cache(b).map(|_| ()).map_err(|e| format!("{e:?}"))));
    m.insert("decode_fragment_header".into(), one(|| erltf::decoder::decode_fragment_header(b).map(|_| ()).map_err(|e| format!("{e:?}"))));
    m.insert("decode_fragment_cont".into(), one(|| erltf::decoder::decode_fragment_cont(b).map(|_| ()).map_err(|e| format!("{e:?}"))));
    m.insert("decode_complete_fragment".into(), one(|| {
        let mut c = erltf::AtomCache::new();
        edp_client::Connection::decode_complete_fragment(b, &mut c).map(|_| ()).map_err(|e| format!("{e:?}"))
    }));
    Value::Object(m)
}

pub fn run(args: &[String]) -> i32 {
    // attack-run <inputs.ndjson> <out.ndjson> <progress-file> <skip> <stack-bytes>
    quiet_panics();
    let inputs = read_ndjson(&args[0]);
    let out_path = args[1].clone();
    let progress = args[2].clone();
    let skip: usize = args[3].parse().unwrap();
    let stack: usize = args.get(4).map(|s| s.parse().unwrap()).unwrap_or(2 * 1024 * 1024);
    let h = std::thread::Builder::new()
        .stack_size(stack)
        .spawn(move || {
            let mut w = NdWriter::create(&out_path);
            let mut pf = std::fs::OpenOptions::new().create(true).write(true).truncate(true).open(&progress).expect("progress");
            for (i, rec) in inputs.iter().enumerate().skip(skip) {
                use std::io::Seek;
                pf.seek(std::io::SeekFrom::Start(0)).ok();
                writeln!(pf, "{:<12}", i).ok();
                pf.flush().ok();
                let b = expand(rec);
                let r = entry_points(&b);
                w.put(&json!({"i": i, "id": rec["id"], "len": b.len(), "r": r}));
                // keep the output durable so a later crash does not lose what was observed
                w.flush();
            }
            w.finish();
        })
        .expect("spawn");
    match h.join() {
        Ok(()) => 0,
        Err(_) => 3,
    }
}
