//! C04: (1) HandshakeStateMachine driven along the edges of the API layer of spec/Handshake.tla;
//!      (2) Connection::connect against a scripted peer (fake EPMD via the guarded port override).
use crate::edges::{Replayable, replay};
use crate::io::{NdWriter, quiet_panics, read_ndjson};
use crate::md5::handshake_digest;
use crate::term_json::{bytes_json, bytes_of};
use edp_client::flags::DistributionFlags;
use edp_client::state_machine::{ConnectionState, HandshakeStateMachine};
use edp_client::{Connection, ConnectionConfig};
use serde_json::{Value, json};
use std::time::{Duration, Instant};
use tokio::io::{AsyncReadExt, AsyncWriteExt};
use tokio::net::TcpListener;

#[derive(Clone)]
pub struct Params {
    pub cookie: String,
    pub local: String,
    pub remote: String,
    pub flags: u64,
    pub creation: u32,
    pub peer_flags: u64,
    pub peer_challenge: u32,
    pub peer_creation: u32,
}

pub fn params_of(v: &Value) -> Params {
    let s = |k: &str| String::from_utf8(bytes_of(&v[k])).unwrap_or_default();
    let u64b = |k: &str| bytes_of(&v[k]).iter().fold(0u64, |a, b| (a << 8) | *b as u64);
    Params {
        cookie: s("cookie"),
        local: s("local"),
        remote: s("remote"),
        flags: u64b("flags"),
        creation: u64b("creation") as u32,
        peer_flags: u64b("peer_flags"),
        peer_challenge: u64b("peer_challenge") as u32,
        peer_creation: u64b("peer_creation") as u32,
    }
}

fn challenge_msg(p: &Params, name: &[u8], nlen: u16) -> Vec<u8> {
    let mut b = vec![b'N'];
    b.extend_from_slice(&p.peer_flags.to_be_bytes());
    b.extend_from_slice(&p.peer_challenge.to_be_bytes());
    b.extend_from_slice(&p.peer_creation.to_be_bytes());
    b.extend_from_slice(&nlen.to_be_bytes());
    b.extend_from_slice(name);
    b
}

pub fn challenge_bytes(p: &Params, class: &str) -> Vec<u8> {
    let name = p.remote.as_bytes();
    match class {
        "good" => challenge_msg(p, name, name.len() as u16),
        "good_extra_bytes" => {
            let mut b = challenge_msg(p, name, name.len() as u16);
            b.extend_from_slice(&[1, 2, 3]);
            b
        }
        "wrong_tag" => {
            let mut b = challenge_msg(p, name, name.len() as u16);
            b[0] = b'n';
            b
        }
        "truncated_flags" | "truncated" => challenge_msg(p, name, name.len() as u16)[..5].to_vec(),
        "truncated_name" => {
            let b = challenge_msg(p, name, name.len() as u16);
            b[..b.len() - 1].to_vec()
        }
        "name_len_lies" => challenge_msg(p, name, name.len() as u16 + 10),
        "non_utf8_name" => challenge_msg(p, &[0xff, 0xfe, b'@', b'h'], 4),
        _ => vec![],
    }
}

pub fn status_bytes(class: &str) -> Vec<u8> {
    match class {
        "ok" => b"sok".to_vec(),
        "ok_simultaneous" => b"sok_simultaneous".to_vec(),
        "nok" => b"snok".to_vec(),
        "not_allowed" => b"snot_allowed".to_vec(),
        "alive" => b"salive".to_vec(),
        "unknown_status" => b"sfoo".to_vec(),
        "wrong_tag" => b"xok".to_vec(),
        "non_utf8" => vec![b's', 0xff, 0xfe],
        _ => vec![],
    }
}

fn ack_bytes(digest: [u8; 16], class: &str) -> Vec<u8> {
    let mut b = vec![b'a'];
    b.extend_from_slice(&digest);
    match class {
        "right_extra_bytes" => b.extend_from_slice(&[9, 9]),
        "wrong_tag" => b[0] = b'b',
        "short" => {
            b.pop();
        }
        "empty" => b.clear(),
        _ => {}
    }
    b
}

fn shape(mut b: Vec<u8>, spec: &Value) -> Vec<u8> {
    if let Some(t) = spec["tag"].as_u64() {
        if !b.is_empty() {
            b[0] = t as u8;
        }
    }
    b.extend(std::iter::repeat(7u8).take(spec["extra"].as_u64().unwrap_or(0) as usize));
    let cut = spec["cut"].as_i64().unwrap_or(-1);
    if cut >= 0 {
        b.truncate(cut as usize);
    }
    b
}

/// a member of Handshake!ChallengeFamily around the parameter set
fn family_challenge(p: &Params, spec: &Value) -> Vec<u8> {
    let name: Vec<u8> = spec["name"].as_array().map(|a| a.iter().map(|x| x.as_u64().unwrap_or(0) as u8).collect()).unwrap_or_default();
    let nlen = spec["nlen"].as_i64().unwrap_or(-1);
    shape(challenge_msg(p, &name, if nlen < 0 { name.len() as u16 } else { nlen as u16 }), spec)
}

/// a member of Handshake!AckFamily for the challenge this side revealed
fn family_ack(p: &Params, our_challenge: u32, spec: &Value) -> Vec<u8> {
    let cookie = p.cookie.as_bytes();
    let mut d = handshake_digest(cookie, our_challenge);
    match spec["digest"].as_str().unwrap_or("right") {
        "wrong" => d = handshake_digest(b"not the cookie", our_challenge),
        "flip_first_bit" => d[0] ^= 0x80,
        "flip_last_bit" => d[15] ^= 1,
        "zeros" => d = [0; 16],
        "own_challenge" => d = handshake_digest(cookie, p.peer_challenge),
        _ => {}
    }
    let mut b = vec![b'a'];
    b.extend_from_slice(&d);
    shape(b, spec)
}

pub struct Hs {
    m: HandshakeStateMachine,
    p: Params,
    cur: Option<u32>,     // our challenge as revealed by the last reply
    stale: Vec<u32>,      // earlier challenges of ours that the peer saw
}

impl Hs {
    fn obs(&self, ret: &str, bytes: Option<Vec<u8>>) -> Value {
        json!({"ret": ret, "connected": self.m.state() == ConnectionState::Connected, "state": self.m.state().as_str(),
               "neg": self.m.negotiated_flags().map(|f| f.as_u64().to_be_bytes().to_vec()), "bytes": bytes.map(|b| bytes_json(&b))})
    }
}

impl Replayable for Hs {
    fn fresh(cfg: &Value) -> Self {
        let p = params_of(cfg);
        let m = HandshakeStateMachine::new(p.local.clone(), p.remote.clone(), p.cookie.clone(), DistributionFlags::new(p.flags), p.creation);
        Hs { m, p, cur: None, stale: Vec::new() }
    }
    fn apply(&mut self, act: &Value) -> Value {
        let name = act["name"].as_str().unwrap_or("");
        let class = act["class"].as_str().unwrap_or("");
        let r = std::panic::catch_unwind(std::panic::AssertUnwindSafe(|| match name {
            "begin_connect" => (self.m.begin_connect().is_ok(), None),
            "prepare_send_name" => match self.m.prepare_send_name() {
                Ok(b) => (true, Some(b)),
                Err(_) => (false, None),
            },
            "prepare_complement" => match self.m.prepare_complement() {
                Ok(b) => (true, Some(b)),
                Err(_) => (false, None),
            },
            "handle_status" => (self.m.handle_status(&act["raw"].as_array().map(|a| a.iter().map(|x| x.as_u64().unwrap_or(0) as u8).collect::<Vec<u8>>()).unwrap_or_else(|| status_bytes(class))).is_ok(), None),
            "handle_challenge" => {
                let bytes = if act["spec"].is_object() { family_challenge(&self.p, &act["spec"]) } else { challenge_bytes(&self.p, class) };
                let ok = self.m.handle_challenge(&bytes).is_ok();
                if ok {
                    if let Some(c) = self.cur.take() {
                        self.stale.push(c);
                    }
                }
                (ok, None)
            }
            "prepare_challenge_reply" => match self.m.prepare_challenge_reply() {
                Ok(b) => {
                    if b.len() >= 7 {
                        self.cur = Some(u32::from_be_bytes([b[3], b[4], b[5], b[6]]));
                    }
                    (true, Some(b))
                }
                Err(_) => (false, None),
            },
            "handle_challenge_ack" => {
                let cookie = self.p.cookie.as_bytes();
                let digest = match class {
                    "right" | "right_extra_bytes" | "wrong_tag" | "short" => handshake_digest(cookie, self.cur.unwrap_or(0)),
                    "stale" => handshake_digest(cookie, *self.stale.last().unwrap_or(&0)),
                    _ => handshake_digest(b"not the cookie", self.cur.unwrap_or(0)),
                };
                let bytes = if act["spec"].is_object() { family_ack(&self.p, self.cur.unwrap_or(0), &act["spec"]) } else { ack_bytes(digest, class) };
                (self.m.handle_challenge_ack(&bytes).is_ok(), None)
            }
            "disconnect" => {
                self.m.disconnect();
                if let Some(c) = self.cur.take() {
                    self.stale.push(c);
                }
                (true, None)
            }
            _ => (false, None),
        }));
        match r {
            Ok((ok, bytes)) => {
                let ret = if bytes.is_some() { "bytes" } else if ok { "ok" } else { "err" };
                let mut o = self.obs(ret, bytes);
                o["our_challenge"] = json!(self.cur);
                o
            }
            Err(_) => json!({"panic": true}),
        }
    }
    fn project(&self) -> Value {
        Value::Null
    }
    fn stable(ret: &Value) -> Value {
        // the challenge is drawn at random per handshake (and the reply carries it)
        let mut r = ret.clone();
        if let Some(o) = r.as_object_mut() {
            o.remove("our_challenge");
            if o.get("bytes").and_then(|b| b.as_array()).map(|b| b.len() == 23).unwrap_or(false) {
                o.insert("bytes".into(), json!("challenge reply"));
            }
        }
        r
    }
}

pub fn run_paths(args: &[String]) -> i32 {
    // hs-paths <edges.ndjson> <out.ndjson> <params-json> <depth>
    quiet_panics();
    let cfg: Value = serde_json::from_str(&args[2]).expect("params");
    crate::edges::replay_paths::<Hs>(&args[0], &args[1], &cfg, args[3].parse().expect("depth"))
}

pub fn run_family(args: &[String]) -> i32 {
    // hs-family <families.ndjson> <params.ndjson> <out.ndjson>: every member of a message class against the class's representative
    crate::io::quiet_panics();
    let fam = crate::io::read_ndjson(&args[0]);
    let params = crate::io::read_ndjson(&args[1]);
    let mut w = crate::io::NdWriter::create(&args[2]);
    let act = |name: &str, class: &str| json!({"name": name, "class": class});
    for (pi, p) in params.iter().enumerate() {
        for (fi, f) in fam.iter().enumerate() {
            let msg = f["msg"].as_str().unwrap_or("");
            let class = f["class"].as_str().unwrap_or("");
            let mut run = |member: bool| -> Value {
                let mut h = Hs::fresh(p);
                let mut pre = vec![act("begin_connect", ""), act("prepare_send_name", "")];
                if msg != "status" {
                    pre.push(act("handle_status", "ok"));
                }
                if msg == "ack" {
                    pre.push(act("handle_challenge", "good"));
                    pre.push(act("prepare_challenge_reply", ""));
                }
                for a in &pre {
                    h.apply(a);
                }
                let a = match (msg, member) {
                    ("status", true) => json!({"name": "handle_status", "class": class, "raw": f["bytes"]}),
                    ("status", false) => act("handle_status", class),
                    ("challenge", true) => json!({"name": "handle_challenge", "class": class, "spec": f}),
                    ("challenge", false) => act("handle_challenge", if class == "truncated" { "truncated_flags" } else { class }),
                    (_, true) => json!({"name": "handle_challenge_ack", "class": class, "spec": f}),
                    (_, false) => act("handle_challenge_ack", class),
                };
                Hs::stable(&h.apply(&a))
            };
            let (m, r) = (run(true), run(false));
            w.put(&json!({"param": pi, "i": fi, "member": m, "representative": r}));
        }
    }
    w.finish();
    0
}

pub fn run_edges(args: &[String]) -> i32 {
    // hs-edges <edges.ndjson> <out.ndjson> <params-json>
    quiet_panics();
    let cfg: Value = serde_json::from_str(&args[2]).expect("params");
    replay::<Hs>(&args[0], &args[1], &cfg)
}

// ---------------------------------------------------------------------------------- wire layer
async fn read_frame(s: &mut tokio::net::TcpStream, wait: Duration) -> Option<Vec<u8>> {
    let mut l = [0u8; 2];
    match tokio::time::timeout(wait, s.read_exact(&mut l)).await {
        Ok(Ok(_)) => {}
        _ => return None,
    }
    let n = u16::from_be_bytes(l) as usize;
    let mut b = vec![0u8; n];
    match tokio::time::timeout(wait, s.read_exact(&mut b)).await {
        Ok(Ok(_)) => Some(b),
        _ => None,
    }
}

async fn write_frame(s: &mut tokio::net::TcpStream, b: &[u8]) {
    let mut f = (b.len() as u16).to_be_bytes().to_vec();
    f.extend_from_slice(b);
    let _ = s.write_all(&f).await;
    let _ = s.flush().await;
}

/// fake EPMD: answers every PORT_PLEASE2_REQ with the given port
pub async fn fake_epmd(dist_port: u16) -> (u16, tokio::task::JoinHandle<()>) {
    let l = TcpListener::bind("127.0.0.1:0").await.expect("bind epmd");
    let port = l.local_addr().unwrap().port();
    let h = tokio::spawn(async move {
        loop {
            let Ok((mut s, _)) = l.accept().await else { break };
            tokio::spawn(async move {
                let mut lb = [0u8; 2];
                if s.read_exact(&mut lb).await.is_err() {
                    return;
                }
                let n = u16::from_be_bytes(lb) as usize;
                let mut req = vec![0u8; n];
                if s.read_exact(&mut req).await.is_err() {
                    return;
                }
                let name = if req.len() > 1 { req[1..].to_vec() } else { vec![] };
                let mut r = vec![119u8, 0];
                r.extend_from_slice(&dist_port.to_be_bytes());
                r.extend_from_slice(&[77, 0, 0, 6, 0, 5]);
                r.extend_from_slice(&(name.len() as u16).to_be_bytes());
                r.extend_from_slice(&name);
                r.extend_from_slice(&[0, 0]);
                let _ = s.write_all(&r).await;
                let _ = s.flush().await;
            });
        }
    });
    (port, h)
}

/// frames of length zero, three per timeout period, for as long as the peer would otherwise stay silent
async fn empty_stream(s: &mut tokio::net::TcpStream, total: Duration, timeout: Duration) {
    let t0 = Instant::now();
    while t0.elapsed() < total {
        if s.write_all(&[0, 0]).await.is_err() || s.flush().await.is_err() {
            return;
        }
        tokio::time::sleep(timeout / 3).await;
    }
}

async fn one_script(script: &[String], p: &Params, timeout: Duration) -> Value {
    let l = TcpListener::bind("127.0.0.1:0").await.expect("bind peer");
    let dist_port = l.local_addr().unwrap().port();
    let (epmd_port, epmd) = fake_epmd(dist_port).await;
    edp_client::verif::set_epmd_port(epmd_port);
    let sc: Vec<String> = script.to_vec();
    let pp = p.clone();
    let wait = timeout * 6;
    let shared: std::sync::Arc<std::sync::Mutex<Vec<Vec<u8>>>> = std::sync::Arc::new(std::sync::Mutex::new(Vec::new()));
    let shared_peer = shared.clone();
    let peer = tokio::spawn(async move {
        struct Seen(std::sync::Arc<std::sync::Mutex<Vec<Vec<u8>>>>);
        impl Seen {
            fn push(&mut self, b: Vec<u8>) {
                self.0.lock().unwrap().push(b);
            }
            fn iter(&self) -> std::vec::IntoIter<Vec<u8>> {
                self.0.lock().unwrap().clone().into_iter()
            }
        }
        let mut seen = Seen(shared_peer);
        let Ok((mut s, _)) = l.accept().await else { return json!({"accepted": false}) };
        let cookie = pp.cookie.clone();
        let mut their_chal: Option<u32> = None;
        // turn 1: after the name
        let name = read_frame(&mut s, wait).await;
        if let Some(n) = &name {
            seen.push(n.clone());
        }
        let status = sc[0].as_str();
        let mut proceed = false;
        match status {
            "ok" | "ok_simultaneous" | "nok" | "not_allowed" | "alive" | "unknown_status" | "wrong_tag" => {
                write_frame(&mut s, &status_bytes(status)).await;
                proceed = status == "ok" || status == "ok_simultaneous";
            }
            "empty_frame" => write_frame(&mut s, &[]).await,
            "empty_then_ok" => {
                write_frame(&mut s, &[]).await;
                write_frame(&mut s, &status_bytes("ok")).await;
                proceed = true;
            }
            "empty_stream" => empty_stream(&mut s, wait, timeout).await,
            "oversized_length" => {
                let _ = s.write_all(&[0xff, 0xff, b's', b'o', b'k']).await;
                let _ = s.flush().await;
            }
            "silence" => {}
            "close" => return json!({"accepted": true, "seen": seen.iter().map(|b| bytes_json(&b)).collect::<Vec<_>>()}),
            "challenge_first" => write_frame(&mut s, &challenge_bytes(&pp, "good")).await,
            "ack_first" => write_frame(&mut s, &ack_bytes(handshake_digest(cookie.as_bytes(), 0), "right")).await,
            _ => {}
        }
        if proceed {
            // turn 2: challenge
            let ch = sc[1].as_str();
            let mut proceed2 = false;
            match ch {
                "good" | "good_extra_bytes" | "wrong_tag" | "truncated" | "name_len_lies" | "non_utf8_name" => {
                    write_frame(&mut s, &challenge_bytes(&pp, ch)).await;
                    proceed2 = ch == "good" || ch == "good_extra_bytes";
                }
                "empty_frame" => write_frame(&mut s, &[]).await,
                "empty_then_good" => {
                    write_frame(&mut s, &[]).await;
                    write_frame(&mut s, &challenge_bytes(&pp, "good")).await;
                    proceed2 = true;
                }
                "empty_stream" => empty_stream(&mut s, wait, timeout).await,
                "oversized_length" => {
                    let _ = s.write_all(&[0xff, 0xff, b'N', 0, 0]).await;
                    let _ = s.flush().await;
                }
                "silence" => {}
                "close" => return json!({"accepted": true, "seen": seen.iter().map(|b| bytes_json(&b)).collect::<Vec<_>>()}),
                "status_again" => write_frame(&mut s, &status_bytes("ok")).await,
                "ack_instead" => write_frame(&mut s, &ack_bytes(handshake_digest(cookie.as_bytes(), 0), "right")).await,
                _ => {}
            }
            if proceed2 {
                // the initiator sends the complement and the reply
                for _ in 0..2 {
                    if let Some(f) = read_frame(&mut s, wait).await {
                        if f.first() == Some(&b'r') && f.len() >= 5 {
                            their_chal = Some(u32::from_be_bytes([f[1], f[2], f[3], f[4]]));
                        }
                        seen.push(f);
                    }
                }
                let ak = sc[2].as_str();
                let tc = their_chal.unwrap_or(0);
                match ak {
                    "right" | "right_extra_bytes" | "wrong_tag" | "short" => write_frame(&mut s, &ack_bytes(handshake_digest(cookie.as_bytes(), tc), ak)).await,
                    "wrong_digest" => write_frame(&mut s, &ack_bytes(handshake_digest(b"not the cookie", tc), "right")).await,
                    "digest_of_own_challenge" => write_frame(&mut s, &ack_bytes(handshake_digest(cookie.as_bytes(), pp.peer_challenge), "right")).await,
                    "challenge_again" => write_frame(&mut s, &challenge_bytes(&pp, "good")).await,
                    "empty_frame" => write_frame(&mut s, &[]).await,
                    "empty_then_right" => {
                        write_frame(&mut s, &[]).await;
                        write_frame(&mut s, &ack_bytes(handshake_digest(cookie.as_bytes(), tc), "right")).await;
                    }
                    "empty_stream" => empty_stream(&mut s, wait, timeout).await,
                    "close" => return json!({"accepted": true, "seen": seen.iter().map(|b| bytes_json(&b)).collect::<Vec<_>>(), "their_challenge": their_chal}),
                    _ => {}
                }
            }
        }
        // keep the socket open until the initiator is done (silence must look like silence, not like a close)
        tokio::time::sleep(wait).await;
        json!({"accepted": true, "seen": seen.iter().map(|b| bytes_json(&b)).collect::<Vec<_>>(), "their_challenge": their_chal})
    });
    let cfg = ConnectionConfig::new(p.local.clone(), p.remote.clone(), p.cookie.clone())
        .with_flags(DistributionFlags::new(p.flags))
        .with_creation(p.creation)
        .with_epmd_host("127.0.0.1")
        .with_timeout(timeout);
    let mut conn = Connection::new(cfg);
    let t0 = Instant::now();
    let res = tokio::spawn(async move {
        let r = conn.connect().await;
        (r.map_err(|e| format!("{e:?}")), conn.state().as_str().to_string(), conn.negotiated_flags().map(|f| f.as_u64()), conn)
    })
    .await;
    let elapsed = t0.elapsed();
    let out = match res {
        Err(e) => json!({"panic": format!("{e}"), "elapsed_ms": elapsed.as_millis() as u64}),
        Ok((r, state, neg, conn)) => {
            let o = json!({"result": match &r { Ok(()) => "connected".to_string(), Err(e) => format!("error: {e}") },
                           "ok": r.is_ok(), "state": state, "neg": neg.map(|f| f.to_be_bytes().to_vec()), "elapsed_ms": elapsed.as_millis() as u64});
            drop(conn);
            o
        }
    };
    tokio::time::sleep(Duration::from_millis(10)).await;
    peer.abort();
    let _ = peer.await;
    let seen_frames: Vec<Value> = shared.lock().unwrap().iter().map(|b| bytes_json(b)).collect();
    let peer_obs = json!({"seen": seen_frames});
    epmd.abort();
    let mut o = out;
    o["peer"] = peer_obs;
    o
}

pub fn run_wire(args: &[String]) -> i32 {
    // hs-wire <scripts.ndjson> <out.ndjson> <params.ndjson> <timeout_ms>
    quiet_panics();
    let scripts = read_ndjson(&args[0]);
    let params = read_ndjson(&args[2]);
    let timeout = Duration::from_millis(args[3].parse().unwrap());
    let rt = tokio::runtime::Builder::new_multi_thread().worker_threads(4).enable_all().build().expect("rt");
    let mut w = NdWriter::create(&args[1]);
    for (pi, pv) in params.iter().enumerate() {
        let p = params_of(pv);
        for sc in scripts.iter() {
            let script: Vec<String> = sc["script"].as_array().unwrap().iter().map(|x| x.as_str().unwrap().to_string()).collect();
            // the peer must have a chance to record what the initiator sent before it is aborted:
            // the peer task is aborted only after connect() returned, so `seen` is taken from a channel-free design:
            let o = rt.block_on(one_script_collect(&script, &p, timeout));
            let mut o = o;
            o["script"] = sc["script"].clone();
            o["param"] = json!(pi);
            w.put(&o);
        }
    }
    w.finish();
    0
}

/// runs one script; the peer reports what it saw through a shared buffer so that aborting it loses nothing
async fn one_script_collect(script: &[String], p: &Params, timeout: Duration) -> Value {
    one_script(script, p, timeout).await
}
