//! C14: distribution header writer (library bytes -> TLA+ reader) and the atom-cache decoder
//! driven along the edges of the sender/receiver state machine of spec/DistHeader.tla.
use crate::edges::{Replayable, replay};
use crate::io::{NdWriter, catch, quiet_panics, read_ndjson};
use crate::term_json::{build, bytes_json, bytes_of, denote};
use erltf::{AtomCache, OwnedTerm};
use serde_json::{Value, json};

/// C10 across a distribution header: spec-written frames with node-local identifiers -> decode_with_atom_cache -> encode
pub fn run_local(args: &[String]) -> i32 {
    // dh-local <cases.ndjson> <out.ndjson>
    quiet_panics();
    let cases = read_ndjson(&args[0]);
    let mut w = NdWriter::create(&args[1]);
    for (i, c) in cases.iter().enumerate() {
        let bytes = bytes_of(&c["bytes"]);
        let r = catch(|| {
            let mut cache = AtomCache::new();
            erltf::decode_with_atom_cache(&bytes, &mut cache)
        });
        let o = match r {
            Ok(Ok((_ctl, Some(p)))) => match catch(|| erltf::encode(&p)) {
                Ok(Ok(b)) => json!({"i": i, "ok": true, "payload": denote(&p), "reencoded": bytes_json(&b)}),
                Ok(Err(e)) => json!({"i": i, "ok": false, "err": format!("encode: {e:?}")}),
                Err(p) => json!({"i": i, "ok": false, "err": format!("encode panicked: {p}")}),
            },
            Ok(Ok((_, None))) => json!({"i": i, "ok": false, "err": "no payload returned"}),
            Ok(Err(e)) => json!({"i": i, "ok": false, "err": format!("{e:?}")}),
            Err(p) => json!({"i": i, "ok": false, "err": format!("panic: {p}")}),
        };
        w.put(&o);
    }
    w.finish();
    0
}

pub fn run_encode(args: &[String]) -> i32 {
    // dh-encode <cases.ndjson> <out.ndjson>
    quiet_panics();
    let cases = read_ndjson(&args[0]);
    let mut w = NdWriter::create(&args[1]);
    for c in cases.iter() {
        let terms: Vec<OwnedTerm> = c["terms"].as_array().map(|a| a.iter().map(build).collect()).unwrap_or_default();
        let refs: Vec<&OwnedTerm> = terms.iter().collect();
        let r = catch(|| {
            if refs.len() == 1 {
                erltf::encode_with_dist_header(refs[0])
            } else {
                erltf::encode_with_dist_header_multi(&refs)
            }
        });
        let o = match r {
            Err(p) => json!({"id": c["id"], "panic": p}),
            Ok(Err(e)) => json!({"id": c["id"], "ok": false, "err": format!("{e:?}")}),
            Ok(Ok(bytes)) => {
                // the library's own decoder, fresh cache
                let own = catch(|| {
                    let mut cache = AtomCache::new();
                    erltf::decode_with_atom_cache(&bytes, &mut cache)
                });
                let own_v = match own {
                    Ok(Ok((ctl, pay))) => json!({"ok": true, "terms": match pay { Some(p) => vec![denote(&ctl), denote(&p)], None => vec![denote(&ctl)] }}),
                    Ok(Err(e)) => json!({"ok": false, "err": format!("{e:?}")}),
                    Err(p) => json!({"ok": false, "panic": p}),
                };
                json!({"id": c["id"], "ok": true, "bytes": bytes_json(&bytes), "nterms": terms.len(), "own": own_v})
            }
        };
        w.put(&o);
    }
    w.finish();
    0
}

pub struct Rx {
    cache: AtomCache,
}

impl Replayable for Rx {
    fn fresh(_cfg: &Value) -> Self {
        Rx { cache: AtomCache::new() }
    }
    fn apply(&mut self, act: &Value) -> Value {
        let bytes = bytes_of(&act["bytes"]);
        let cache = &mut self.cache;
        match catch(|| erltf::decode_with_atom_cache(&bytes, cache)) {
            Err(p) => json!({"panic": p}),
            Ok(Err(e)) => json!({"err": format!("{e:?}")}),
            Ok(Ok((ctl, pay))) => match pay {
                Some(p) => json!({"terms": [denote(&ctl), denote(&p)]}),
                None => json!({"terms": [denote(&ctl)]}),
            },
        }
    }
    fn project(&self) -> Value {
        Value::Null
    }
}

pub fn run_edges(args: &[String]) -> i32 {
    // dh-edges <edges.ndjson> <out.ndjson>
    quiet_panics();
    replay::<Rx>(&args[0], &args[1], &Value::Null)
}
