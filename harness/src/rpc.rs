//! C17: behaviours of spec/Rpc.tla (schedules of callers, receiver and peer) executed on the real
//! Node::rpc_call_raw_with_timeout with the cooperative async scheduler; what each caller got and
//! what is left in the outstanding-call table is written out for comparison with the model.
use crate::io::{NdWriter, read_ndjson};
use crate::nodeenv::*;
use crate::term_json::denote;
use edp_client::verif;
use edp_node::Node;
use erltf::{Atom, ExternalPid, OwnedTerm};
use serde_json::{Value, json};
use std::collections::HashMap;
use std::sync::{Arc, Mutex};
use std::time::Duration;
use tokio::net::TcpListener;
use tokio::net::tcp::OwnedWriteHalf;

const NODE: &str = "n1@127.0.0.1";
const PEER: &str = "peer@127.0.0.1";
const RX: &str = "rx:peer@127.0.0.1";
const PEERB: &str = "peerb@127.0.0.1";
const RXB: &str = "rx:peerb@127.0.0.1";
const STEP: Duration = Duration::from_millis(1500);

pub struct Peer {
    pub wr: OwnedWriteHalf,
    pub frames: Arc<Mutex<Vec<Vec<u8>>>>,
    reader: tokio::task::JoinHandle<()>,
    pub half_closed: bool,
}

impl Peer {
    pub fn kill(self) {
        self.reader.abort();
        drop(self.wr);
    }
}

pub async fn connect_peer(node: &Arc<Node>, listener: &TcpListener) -> Option<Peer> {
    connect_peer_tail(node, listener, &[]).await
}

/// `tail`: framed distribution bytes the peer sends in one piece with its last handshake message
pub async fn connect_peer_tail(node: &Arc<Node>, listener: &TcpListener, tail: &[u8]) -> Option<Peer> {
    connect_peer_named(node, listener, PEER, tail).await
}

/// the scripted peer under another node name (a second connection of the same node)
pub async fn connect_peer_named(node: &Arc<Node>, listener: &TcpListener, name: &str, tail: &[u8]) -> Option<Peer> {
    let acc = async {
        let (s, _) = listener.accept().await.ok()?;
        let _ = s.set_linger(Some(Duration::ZERO));
        accept_handshake_tail(s, name, PEER_FLAGS, tail).await
    };
    let (pc, r) = tokio::join!(acc, node.connect(name));
    if r.is_err() {
        return None;
    }
    let pc = pc?;
    let frames = Arc::new(Mutex::new(Vec::new()));
    let f2 = frames.clone();
    let mut rd = pc.rd;
    let reader = tokio::spawn(async move {
        while let Some(f) = read_dist_frame(&mut rd).await {
            f2.lock().unwrap().push(f);
        }
    });
    Some(Peer { wr: pc.wr, frames, reader, half_closed: false })
}

fn pid_of(detail: &str, creation_fallback: u32) -> ExternalPid {
    let p: Vec<u32> = detail.split('.').map(|x| x.parse().unwrap_or(0)).collect();
    ExternalPid::new(Atom::new(NODE), *p.first().unwrap_or(&0), *p.get(1).unwrap_or(&0), *p.get(2).unwrap_or(&creation_fallback))
}

fn reply_frame(to: &ExternalPid, rid: i64, k: i64) -> Vec<u8> {
    let control = OwnedTerm::Tuple(vec![OwnedTerm::Integer(2), OwnedTerm::Atom(Atom::new("")), OwnedTerm::Pid(to.clone())]);
    let msg = OwnedTerm::Tuple(vec![OwnedTerm::Atom(Atom::new("rex")), OwnedTerm::Tuple(vec![OwnedTerm::Integer(rid), OwnedTerm::Integer(k)])]);
    pass_through(&control, Some(&msg))
}

async fn run_one(sc: &Value, node: &Arc<Node>, listener: &TcpListener, sched: &AsyncSched, peer_slot: &mut Option<Peer>) -> Value {
    let ncallers = sc["callers"].as_u64().unwrap_or(1) as usize;
    let hist: Vec<(String, i64)> = sc["hist"].as_array().map(|a| a.iter().map(|e| (e[0].as_str().unwrap_or("").to_string(), e[1].as_i64().unwrap_or(0))).collect()).unwrap_or_default();
    // the state of the connection the behaviour starts in is its first history entry (Rpc!ConnCode)
    let conn = match hist.first() {
        Some((a, c)) if a == "start" => ["up", "absent", "broken", "closing"].get(*c as usize).copied().unwrap_or("up").to_string(),
        _ => sc["conn"].as_str().unwrap_or("up").to_string(),
    };
    let mut notes: Vec<String> = Vec::new();
    // which callers time out in the model: they get the short timer
    let times_out: Vec<bool> = (1..=ncallers as i64).map(|c| hist.iter().any(|(a, x)| a == "timeout" && *x == c)).collect();
    sched.set_free_run(true);
    // make sure the connection is in the state the scenario starts from
    let target = if conn == "absent" { "ghost@127.0.0.1" } else { PEER };
    // the peer closes its side only (FIN): the receiver sees the end of the stream, the socket still takes writes
    async fn half_close(peer_slot: &mut Option<Peer>, sched: &AsyncSched, notes: &mut Vec<String>) {
        use tokio::io::AsyncWriteExt;
        if let Some(p) = peer_slot.as_mut() {
            let _ = p.wr.shutdown().await;
            p.half_closed = true;
        }
        match sched.wait_parked(RX, STEP).await {
            Some((l, _)) if l == "rx.frame" => {
                sched.release(RX);
                if sched.wait_parked(RX, STEP).await.map(|x| x.0) != Some("rx.closing".to_string()) {
                    notes.push("receiver did not reach rx.closing after the peer closed its side".into());
                }
            }
            other => notes.push(format!("receiver did not notice the end of the stream: {other:?}")),
        }
    }
    if conn != "absent" {
        if peer_slot.is_none() || peer_slot.as_ref().map(|p| p.half_closed).unwrap_or(false) || !node.connections().contains_key(PEER) {
            if let Some(p) = peer_slot.take() {
                p.kill();
            }
            for _ in 0..200 {
                if !node.connections().contains_key(PEER) {
                    break;
                }
                tokio::time::sleep(Duration::from_millis(5)).await;
            }
            *peer_slot = connect_peer(node, listener).await;
            if peer_slot.is_none() {
                return json!({"tool_error": "could not connect the node to the scripted peer"});
            }
        }
    }
    // a second connection of the node, for scenarios in which that other peer goes away
    let mut peer_b: Option<Peer> = None;
    if hist.iter().any(|(a, _)| a == "other_close") {
        if node.connections().contains_key(PEERB) {
            notes.push("stale connection to the second peer".into());
        }
        peer_b = connect_peer_named(node, listener, PEERB, &[]).await;
        if peer_b.is_none() {
            return json!({"tool_error": "could not connect the node to the second scripted peer"});
        }
    }
    sched.take_log();
    sched.set_free_run(false);
    if conn == "broken" {
        // the peer resets the connection; the receiver is held just before it deregisters it
        if let Some(p) = peer_slot.take() {
            p.kill();
        }
        match sched.wait_parked(RX, STEP).await {
            Some((l, _)) if l == "rx.frame" => {
                sched.release(RX);
                if sched.wait_parked(RX, STEP).await.map(|x| x.0) != Some("rx.closing".to_string()) {
                    notes.push("receiver did not reach rx.closing after the reset".into());
                }
            }
            other => notes.push(format!("receiver did not notice the reset: {other:?}")),
        }
    }
    if conn == "closing" {
        half_close(peer_slot, sched, &mut notes).await;
    }
    let mut handles: HashMap<i64, tokio::task::JoinHandle<Result<OwnedTerm, String>>> = HashMap::new();
    let mut pids: HashMap<i64, ExternalPid> = HashMap::new();     // rid -> reply pid
    let mut rid_of_caller: HashMap<i64, i64> = HashMap::new();
    let mut next_rid = 1i64;
    let mut reply_seq = 0i64;
    for (act, x) in hist.iter() {
        let actor = format!("c{x}");
        match act.as_str() {
            "alloc" => {
                let n = node.clone();
                let to = if times_out[(*x - 1) as usize] { Duration::from_millis(60) } else { Duration::from_secs(4) };
                // callers of the scenario's "ghosts" call a node there is no connection to
                let tgt = if sc["ghosts"].as_array().map(|g| g.iter().any(|c| c.as_i64() == Some(*x))).unwrap_or(false) { "ghost@127.0.0.1".to_string() } else { target.to_string() };
                let a2 = actor.clone();
                let h = tokio::spawn(ACTOR.scope(a2, async move {
                    n.rpc_call_raw_with_timeout(&tgt, "m", "f", vec![OwnedTerm::Integer(1)], to).await.map_err(|e| format!("{e:?}"))
                }));
                handles.insert(*x, h);
                match sched.wait_parked(&actor, STEP).await {
                    Some((l, d)) if l == "rpc.allocated" => {
                        pids.insert(next_rid, pid_of(&d, 77));
                        rid_of_caller.insert(*x, next_rid);
                        next_rid += 1;
                    }
                    other => notes.push(format!("caller {x} did not reach rpc.allocated: {other:?}")),
                }
            }
            "insert" => {
                sched.release(&actor);
                if sched.wait_parked(&actor, STEP).await.map(|p| p.0) != Some("rpc.inserted".into()) {
                    notes.push(format!("caller {x} did not reach rpc.inserted"));
                }
            }
            "send" => {
                sched.release(&actor);
                // up: parks at rpc.sent; absent / broken: the call returns
                let t0 = std::time::Instant::now();
                loop {
                    if sched.parked_at(&actor).is_some() || handles.get(x).map(|h| h.is_finished()).unwrap_or(true) {
                        break;
                    }
                    if t0.elapsed() > STEP {
                        notes.push(format!("caller {x} neither sent nor returned"));
                        break;
                    }
                    tokio::time::sleep(Duration::from_micros(300)).await;
                }
            }
            "timeout" => {
                sched.release(&actor);
                if sched.wait_parked(&actor, STEP).await.map(|p| p.0) != Some("rpc.timed_out".into()) {
                    notes.push(format!("caller {x} did not reach rpc.timed_out"));
                }
            }
            "cleanup" | "wake" => {
                sched.release(&actor);
                let t0 = std::time::Instant::now();
                while !handles.get(x).map(|h| h.is_finished()).unwrap_or(true) {
                    if t0.elapsed() > STEP {
                        notes.push(format!("caller {x} did not return after {act}"));
                        break;
                    }
                    tokio::time::sleep(Duration::from_micros(300)).await;
                }
            }
            "peer_close" => half_close(peer_slot, sched, &mut notes).await,
            "deregister" => {
                if sched.parked_at(RX).map(|x| x.0) == Some("rx.closing".to_string()) {
                    sched.release(RX);
                } else {
                    notes.push("receiver is not waiting to deregister the connection".into());
                }
                let t0 = std::time::Instant::now();
                while node.connections().contains_key(PEER) && t0.elapsed() < STEP {
                    tokio::time::sleep(Duration::from_micros(300)).await;
                }
                if node.connections().contains_key(PEER) {
                    notes.push("connection still registered after the receiver was released".into());
                }
            }
            "other_close" => {
                // the second peer closes; its receiver task is stepped through to the deregistration
                if let Some(p) = peer_b.take() {
                    p.kill();
                }
                match sched.wait_parked(RXB, STEP).await {
                    Some((l, _)) if l == "rx.frame" => {
                        sched.release(RXB);
                        if sched.wait_parked(RXB, STEP).await.map(|x| x.0) == Some("rx.closing".to_string()) {
                            sched.release(RXB);
                        } else {
                            notes.push("the second peer's receiver did not reach rx.closing".into());
                        }
                    }
                    other => notes.push(format!("the second peer's receiver did not notice the close: {other:?}")),
                }
                let t0 = std::time::Instant::now();
                while node.connections().contains_key(PEERB) && t0.elapsed() < STEP {
                    tokio::time::sleep(Duration::from_micros(300)).await;
                }
            }
            "reply" => {
                reply_seq += 1;
                // 51..98: the reply pid of call x-50 as it was in another incarnation of the node (other creation)
                let to = if *x > 50 && *x < 99 {
                    pids.get(&(*x - 50)).map(|p| ExternalPid::new(p.node.clone(), p.id, p.serial, p.creation.wrapping_add(1))).unwrap_or_else(|| ExternalPid::new(Atom::new(NODE), 999_998, 0, 77))
                } else {
                    pids.get(x).cloned().unwrap_or_else(|| ExternalPid::new(Atom::new(NODE), 999_999, 0, 77))
                };
                match peer_slot.as_mut() {
                    Some(p) => {
                        if !write_dist_frame(&mut p.wr, &reply_frame(&to, *x, reply_seq)).await {
                            notes.push("peer could not write a reply".into());
                        }
                    }
                    None => notes.push("no peer to reply from".into()),
                }
            }
            "route" => {
                match sched.wait_parked(RX, STEP).await {
                    Some((l, _)) if l == "rx.frame" => {
                        sched.release(RX);
                        if sched.wait_parked(RX, STEP).await.map(|p| p.0) != Some("rx.routed".into()) {
                            notes.push("receiver did not reach rx.routed".into());
                        }
                        sched.release(RX);
                    }
                    other => notes.push(format!("receiver had no frame to route: {other:?}")),
                }
            }
            _ => {}
        }
    }
    // collect what every caller got
    let mut results = Vec::new();
    for c in 1..=ncallers as i64 {
        let r = match handles.remove(&c) {
            None => json!({"kind": "not_started"}),
            Some(h) => match tokio::time::timeout(Duration::from_secs(2), h).await {
                Err(_) => json!({"kind": "still_running"}),
                Ok(Err(e)) => json!({"kind": "panic", "detail": format!("{e}")}),
                Ok(Ok(Ok(t))) => json!({"kind": "ok", "value": denote(&t)}),
                Ok(Ok(Err(e))) => {
                    let kind = if e.contains("RpcTimeout") { "timeout" } else if e.contains("NodeNotConnected") { "not_connected" } else if e.contains("RpcCancelled") { "cancelled" } else { "send_error" };
                    json!({"kind": kind, "detail": e.chars().take(160).collect::<String>()})
                }
            },
        };
        results.push(json!({"caller": c, "rid": rid_of_caller.get(&c), "got": r}));
    }
    let pending = node.verif_pending_rpcs();
    let requests_seen = peer_slot.as_ref().map(|p| p.frames.lock().unwrap().len());
    if let Some(p) = peer_slot.as_ref() {
        p.frames.lock().unwrap().clear();
    }
    sched.set_free_run(true);
    { let lg = sched.take_log(); json!({"results": results, "pending_after": pending, "notes": notes, "requests_seen_by_peer": requests_seen, "hook_log": lg.len(), "hook_log_full": if std::env::var("VERIF_DEBUG").is_ok() { json!(lg) } else { json!(null) }}) }
}

/// B3 for C17: free-running concurrent calls (no forced schedule) against a peer with a seeded reply policy; the totally ordered
/// log of guarded points, peer writes and caller returns is written as a trace for spec/trace/Trace_Rpc.tla
pub fn run_free(args: &[String]) -> i32 {
    // rpc-free <seed> <rounds> <calls-per-round> <trace-dir>
    use rand::rngs::StdRng;
    use rand::{Rng, SeedableRng};
    let seed: u64 = args[0].parse().unwrap_or(1);
    let rounds: usize = args[1].parse().unwrap_or(3);
    let per: usize = args[2].parse().unwrap_or(6);
    let dir = args[3].clone();
    let rt = tokio::runtime::Builder::new_multi_thread().worker_threads(4).enable_all().build().expect("rt");
    let mut summary = NdWriter::create(&format!("{dir}/free_summary.ndjson"));
    rt.block_on(async {
        let sched = AsyncSched::install();
        sched.only(&["rpc.", "rx."]);
        sched.set_free_run(true);
        let listener = TcpListener::bind("127.0.0.1:0").await.expect("bind");
        let (epmd_port, _epmd) = fake_epmd(listener.local_addr().unwrap().port()).await;
        verif::set_epmd_port(epmd_port);
        for round in 0..rounds {
            let mut node = Node::new(NODE, COOKIE);
            if node.start(0).await.is_err() {
                summary.put(&json!({"tool_error": "node start"}));
                return;
            }
            let node = Arc::new(node);
            // the peer: accepts, then answers every request according to a seeded policy
            let acc = async {
                let (s, _) = listener.accept().await.ok()?;
                accept_handshake(s, PEER, PEER_FLAGS).await
            };
            let (pc, r) = tokio::join!(acc, node.connect(PEER));
            let (Some(pc), Ok(())) = (pc, r) else {
                summary.put(&json!({"tool_error": "connect"}));
                return;
            };
            sched.take_log();
            let (mut rd, wr) = (pc.rd, pc.wr);
            let wr = Arc::new(tokio::sync::Mutex::new(wr));
            let s2 = sched.clone();
            let mut rng = StdRng::seed_from_u64(seed.wrapping_mul(1000).wrapping_add(round as u64));
            let policies: Vec<u32> = (0..per).map(|_| rng.random_range(0..10)).collect();
            let delays: Vec<u64> = (0..per).map(|_| rng.random_range(0..20)).collect();
            let peer = tokio::spawn(async move {
                let mut k = 0usize;
                while let Some(f) = read_dist_frame(&mut rd).await {
                    if f.is_empty() {
                        continue;
                    }
                    let Ok((OwnedTerm::Tuple(ctl), _)) = erltf::decoder::decode_with_trailing(&f[1..]) else { continue };
                    let Some(OwnedTerm::Pid(from)) = ctl.get(1).cloned() else { continue };
                    let policy = policies.get(k).copied().unwrap_or(0);
                    let delay = delays.get(k).copied().unwrap_or(0);
                    k += 1;
                    let wr = wr.clone();
                    let s3 = s2.clone();
                    tokio::spawn(async move {
                        let send = |to: ExternalPid, kind: i64, tag: &'static str| {
                            let wr = wr.clone();
                            let s3 = s3.clone();
                            let own = from.clone();
                            async move {
                                let control = OwnedTerm::Tuple(vec![OwnedTerm::Integer(2), OwnedTerm::Atom(Atom::new("")), OwnedTerm::Pid(to)]);
                                let msg = OwnedTerm::Tuple(vec![OwnedTerm::Atom(Atom::new("rex")), OwnedTerm::Tuple(vec![OwnedTerm::Integer(own.id as i64), OwnedTerm::Integer(kind)])]);
                                let body = pass_through(&control, Some(&msg));
                                let mut g = wr.lock().await;
                                // logged under the write lock: the order of these entries is the order on the wire
                                s3.note("peer", "peer_reply", format!("{tag}:{}.{}.{}", own.id, own.serial, own.creation));
                                let _ = write_dist_frame(&mut g, &body).await;
                            }
                        };
                        let stale = ExternalPid::new(from.node.clone(), from.id, from.serial, from.creation.wrapping_add(1));
                        let stray = ExternalPid::new(from.node.clone(), 999_999, 0, from.creation);
                        tokio::time::sleep(Duration::from_millis(delay)).await;
                        match policy {
                            0..=4 => send(from.clone(), 0, "own").await,
                            5 => {}
                            6 => {
                                tokio::time::sleep(Duration::from_millis(150)).await;
                                send(from.clone(), 0, "own").await
                            }
                            7 => {
                                send(from.clone(), 0, "own").await;
                                send(from.clone(), 0, "own").await
                            }
                            8 => {
                                send(stray, 2, "stray").await;
                                send(from.clone(), 0, "own").await
                            }
                            _ => {
                                send(stale, 1, "stale").await;
                                send(from.clone(), 0, "own").await
                            }
                        }
                    });
                }
            });
            // the callers: all at once
            let mut hs = Vec::new();
            for k in 0..per {
                let n = node.clone();
                let s4 = sched.clone();
                let actor = format!("c{}", k + 1);
                hs.push(tokio::spawn(ACTOR.scope(actor.clone(), async move {
                    let r = n.rpc_call_raw_with_timeout(PEER, "m", "f", vec![OwnedTerm::Integer(k as i64)], Duration::from_millis(80)).await;
                    let d = match &r {
                        Ok(OwnedTerm::Tuple(e)) if e.len() == 2 => match &e[1] {
                            OwnedTerm::Tuple(v) if v.len() == 2 => format!("ok:{}:{}", denote(&v[0])["mag"][0].as_i64().unwrap_or(0) + 256 * denote(&v[0])["mag"][1].as_i64().unwrap_or(0) + 65536 * denote(&v[0])["mag"][2].as_i64().unwrap_or(0), denote(&v[1])["mag"][0].as_i64().unwrap_or(0)),
                            _ => "ok:?".to_string(),
                        },
                        Ok(_) => "ok:?".to_string(),
                        Err(e) => {
                            let e = format!("{e:?}");
                            if e.contains("RpcTimeout") { "timeout".into() } else { format!("error:{}", e.chars().take(60).collect::<String>()) }
                        }
                    };
                    s4.note(&actor, "return", d);
                })));
            }
            for h in hs {
                let _ = h.await;
            }
            // let late replies arrive and be routed
            tokio::time::sleep(Duration::from_millis(260)).await;
            let pending = node.verif_pending_rpcs();
            let log = sched.take_log();
            peer.abort();
            let path = format!("{dir}/free_log_{round}.ndjson");
            let mut w = NdWriter::create(&path);
            for e in log.iter() {
                w.put(e);
            }
            w.finish();
            summary.put(&json!({"round": round, "log": path, "pending_after": pending, "calls": per}));
            // the node is dropped; its connection with it
        }
        sched.uninstall();
    });
    summary.finish();
    0
}

/// A reply that arrives in two pieces with a pause longer than the receiver's read timeout in between.  The second piece is,
/// byte for byte, a well-formed frame addressed to the OTHER outstanding call (it is the content of the binary the first call
/// is being sent): a receiver that gave up on the read but went on reading would hand the first call's data to the second.
/// rpc-stall <pause-ms> <out.ndjson>
pub fn run_stall(args: &[String]) -> i32 {
    let pause: u64 = args[0].parse().unwrap_or(11_500);
    let rt = tokio::runtime::Builder::new_multi_thread().worker_threads(4).enable_all().build().expect("rt");
    let mut w = NdWriter::create(&args[1]);
    rt.block_on(async {
        let listener = TcpListener::bind("127.0.0.1:0").await.expect("bind");
        let (epmd_port, _epmd) = fake_epmd(listener.local_addr().unwrap().port()).await;
        verif::set_epmd_port(epmd_port);
        let mut node = Node::new(NODE, COOKIE);
        if node.start(0).await.is_err() {
            w.put(&json!({"tool_error": "node start"}));
            return;
        }
        let node = Arc::new(node);
        let Some(mut peer) = connect_peer(&node, &listener).await else {
            w.put(&json!({"tool_error": "connect"}));
            return;
        };
        let call_timeout = Duration::from_millis(pause + 5_000);
        let from_pid = |f: &Vec<u8>| -> Option<ExternalPid> {
            erltf::decoder::decode_with_trailing(&f[1..]).ok().map(|(t, _)| t).and_then(|t| match t {
                OwnedTerm::Tuple(e) if e.len() == 4 => match &e[1] {
                    OwnedTerm::Pid(p) => Some(p.clone()),
                    _ => None,
                },
                _ => None,
            })
        };
        let mut calls = Vec::new();
        let mut pids = Vec::new();
        for fun in ["a", "b"] {
            let n = node.clone();
            calls.push(tokio::spawn(async move { n.rpc_call_raw_with_timeout(PEER, "m", fun, vec![], call_timeout).await.map_err(|e| format!("{e:?}")) }));
            let want = pids.len() + 1;
            let t0 = std::time::Instant::now();
            while peer.frames.lock().unwrap().len() < want && t0.elapsed() < Duration::from_secs(2) {
                tokio::time::sleep(Duration::from_millis(2)).await;
            }
            let p = peer.frames.lock().unwrap().get(want - 1).and_then(from_pid);
            match p {
                Some(p) => pids.push(p),
                None => {
                    w.put(&json!({"tool_error": "rpc request not seen by the peer"}));
                    return;
                }
            }
        }
        let rex = |v: OwnedTerm| OwnedTerm::Tuple(vec![OwnedTerm::Atom(Atom::new("rex")), v]);
        let ctl = |p: &ExternalPid| OwnedTerm::Tuple(vec![OwnedTerm::Integer(2), OwnedTerm::Atom(Atom::new("")), OwnedTerm::Pid(p.clone())]);
        let for_a_only = OwnedTerm::Binary(b"PART-OF-THE-REPLY-TO-CALL-A".to_vec());
        let inner = pass_through(&ctl(&pids[1]), Some(&rex(for_a_only)));
        let mut content = (inner.len() as u32).to_be_bytes().to_vec();
        content.extend_from_slice(&inner);
        let frame_a = pass_through(&ctl(&pids[0]), Some(&rex(OwnedTerm::Binary(content.clone()))));
        let genuine_b = pass_through(&ctl(&pids[1]), Some(&rex(OwnedTerm::Binary(b"REPLY-TO-CALL-B".to_vec()))));
        {
            use tokio::io::AsyncWriteExt;
            let cut = frame_a.len() - content.len();
            let mut first = (frame_a.len() as u32).to_be_bytes().to_vec();
            first.extend_from_slice(&frame_a[..cut]);
            let _ = peer.wr.write_all(&first).await;
            let _ = peer.wr.flush().await;
            tokio::time::sleep(Duration::from_millis(pause)).await;
            let _ = peer.wr.write_all(&frame_a[cut..]).await;
            let _ = peer.wr.flush().await;
            let _ = write_dist_frame(&mut peer.wr, &genuine_b).await;
        }
        let mut results = Vec::new();
        for (i, h) in calls.into_iter().enumerate() {
            let r = match tokio::time::timeout(call_timeout + Duration::from_secs(3), h).await {
                Err(_) => json!({"kind": "still_running"}),
                Ok(Err(e)) => json!({"kind": "panic", "detail": format!("{e}")}),
                Ok(Ok(Ok(t))) => {
                    let bin = match &t {
                        OwnedTerm::Tuple(e) if e.len() == 2 => match &e[1] {
                            OwnedTerm::Binary(b) => Some(b.clone()),
                            _ => None,
                        },
                        _ => None,
                    };
                    let what = match bin.as_deref() {
                        Some(b) if b == &content[..] => "the whole reply to call a",
                        Some(b) if b == b"PART-OF-THE-REPLY-TO-CALL-A" => "a part of the reply to call a",
                        Some(b) if b == b"REPLY-TO-CALL-B" => "the reply to call b",
                        _ => "something else",
                    };
                    json!({"kind": "ok", "got": what})
                }
                Ok(Ok(Err(e))) => json!({"kind": "error", "detail": e.chars().take(120).collect::<String>()}),
            };
            let name = if i == 0 { "a" } else { "b" };
            results.push(json!({"call": name, "result": r}));
        }
        w.put(&json!({"pause_ms": pause, "results": results, "pending_after": node.verif_pending_rpcs(), "still_connected": node.connections().contains_key(PEER)}));
    });
    w.finish();
    0
}

pub fn run(args: &[String]) -> i32 {
    // rpc-run <scenarios.ndjson> <out.ndjson>
    let scenarios = read_ndjson(&args[0]);
    let rt = tokio::runtime::Builder::new_multi_thread().worker_threads(4).enable_all().build().expect("rt");
    let mut w = NdWriter::create(&args[1]);
    rt.block_on(async {
        let sched = AsyncSched::install();
        sched.only(&["rpc.", "rx."]);
        sched.set_free_run(true);
        let listener = TcpListener::bind("127.0.0.1:0").await.expect("bind");
        let (epmd_port, _epmd) = fake_epmd(listener.local_addr().unwrap().port()).await;
        verif::set_epmd_port(epmd_port);
        let mut node = Node::new(NODE, COOKIE);
        if let Err(e) = node.start(0).await {
            eprintln!("node start failed: {e:?}");
            return;
        }
        let node = Arc::new(node);
        let mut peer: Option<Peer> = None;
        for sc in scenarios.iter() {
            let mut o = run_one(sc, &node, &listener, &sched, &mut peer).await;
            o["id"] = sc["id"].clone();
            w.put(&o);
        }
        sched.uninstall();
    });
    w.finish();
    0
}

/// spec/RpcPeers.tla on the real node: calls to two peers outstanding at the same time; every caller is handed the answer of its own peer
/// to its own request, and nothing is left in the table
pub fn run_peers(args: &[String]) -> i32 {
    // rpc-peers <rounds> <calls-per-peer-per-round> <out.ndjson>
    let rounds: usize = args[0].parse().unwrap_or(20);
    let per: usize = args[1].parse().unwrap_or(4);
    let rt = tokio::runtime::Builder::new_multi_thread().worker_threads(4).enable_all().build().expect("rt");
    let mut w = NdWriter::create(&args[2]);
    rt.block_on(async {
        let listener = TcpListener::bind("127.0.0.1:0").await.expect("bind");
        let (epmd_port, _epmd) = fake_epmd(listener.local_addr().unwrap().port()).await;
        verif::set_epmd_port(epmd_port);
        let mut node = Node::new(NODE, COOKIE);
        if node.start(0).await.is_err() {
            w.put(&json!({"tool_error": "node start"}));
            return;
        }
        let node = Arc::new(node);
        let names = [PEER, "peer2@127.0.0.1"];
        let mut responders = Vec::new();
        for (pi, name) in names.iter().enumerate() {
            let Some(peer) = connect_peer_named(&node, &listener, name, &[]).await else {
                w.put(&json!({"tool_error": format!("could not connect to {name}")}));
                return;
            };
            // the scripted peer: answers every request with {rex, {PeerNumber, N}}, N the call's argument, after a short pause
            let frames = peer.frames.clone();
            let mut wr = peer.wr;
            responders.push(tokio::spawn(async move {
                let mut seen = 0usize;
                loop {
                    let new: Vec<Vec<u8>> = {
                        let f = frames.lock().unwrap();
                        f[seen.min(f.len())..].to_vec()
                    };
                    seen += new.len();
                    for fr in new {
                        if fr.len() < 2 {
                            continue;
                        }
                        let Ok((_, rest)) = erltf::decoder::decode_with_trailing(&fr[1..]) else { continue };
                        let Ok(OwnedTerm::Tuple(m)) = erltf::decode(rest) else { continue };
                        let (Some(OwnedTerm::Pid(from)), Some(OwnedTerm::Tuple(call))) = (m.first().cloned(), m.get(1).cloned()) else { continue };
                        let n = match call.get(3) {
                            Some(OwnedTerm::List(a)) => a.first().cloned().unwrap_or(OwnedTerm::Nil),
                            _ => OwnedTerm::Nil,
                        };
                        let control = OwnedTerm::Tuple(vec![OwnedTerm::Integer(2), OwnedTerm::Atom(Atom::new("")), OwnedTerm::Pid(from)]);
                        let msg = OwnedTerm::Tuple(vec![OwnedTerm::Atom(Atom::new("rex")), OwnedTerm::Tuple(vec![OwnedTerm::Integer(pi as i64), n])]);
                        let _ = write_dist_frame(&mut wr, &pass_through(&control, Some(&msg))).await;
                    }
                    tokio::time::sleep(Duration::from_micros(500)).await;
                }
            }));
        }
        let mut serial = 0i64;
        for round in 0..rounds {
            let mut hs = Vec::new();
            for k in 0..per {
                for (pi, name) in names.iter().enumerate() {
                    serial += 1;
                    let (n, node, name, num) = (serial, node.clone(), name.to_string(), serial);
                    let _ = k;
                    hs.push((pi, num, tokio::spawn(async move { node.rpc_call_raw_with_timeout(&name, "m", "f", vec![OwnedTerm::Integer(n)], Duration::from_secs(3)).await.map_err(|e| format!("{e:?}")) })));
                }
            }
            let mut wrong = Vec::new();
            for (pi, num, h) in hs {
                let want = OwnedTerm::Tuple(vec![OwnedTerm::Atom(Atom::new("rex")), OwnedTerm::Tuple(vec![OwnedTerm::Integer(pi as i64), OwnedTerm::Integer(num)])]);
                match h.await {
                    Ok(Ok(t)) if t == want => {}
                    Ok(Ok(t)) => wrong.push(json!({"peer": pi, "call": num, "got": format!("{t:?}").chars().take(120).collect::<String>()})),
                    Ok(Err(e)) => wrong.push(json!({"peer": pi, "call": num, "error": e.chars().take(120).collect::<String>()})),
                    Err(e) => wrong.push(json!({"peer": pi, "call": num, "panic": format!("{e}")})),
                }
            }
            w.put(&json!({"round": round, "calls": per * 2, "wrong": wrong, "pending_after": node.verif_pending_rpcs()}));
        }
        for r in responders {
            r.abort();
        }
    });
    w.finish();
    0
}
