//! C20: Elixir wrappers — ranges at anchored 64-bit positions, struct terms (valid and mutated) from
//! spec/Elixir.tla, wrapper round trips (also across the wire), proplist / map helpers.
use crate::io::{NdWriter, catch, quiet_panics, read_ndjson};
use crate::term_json::{build, bytes_of, denote};
use edp_elixir_terms::*;
use erltf::{Atom, OwnedTerm};
use serde_json::{Value, json};

fn anch(v: &Value) -> i64 {
    if let Some(s) = v.as_str() {
        return s.parse::<i64>().unwrap_or(0);
    }
    let off = v["off"].as_i64().unwrap_or(0);
    match v["base"].as_str() {
        Some("min") => i64::MIN + off,
        Some("max") => i64::MAX + off,
        _ => off,
    }
}

fn range_case(r: &Value) -> Value {
    let (f, l, s) = (anch(&r["first"]), anch(&r["last"]), anch(&r["step"]));
    let rg = ElixirRange::new(f, l, s);
    let len = catch(|| rg.len());
    let iter = catch(|| rg.into_iter().take(40).collect::<Vec<i64>>());
    let hint = catch(|| rg.into_iter().size_hint());
    let probes: Vec<Value> = r["probes"].as_array().map(|a| a.iter().map(|p| {
        let v = anch(&p["v"]);
        json!({"v": v.to_string(), "contains": catch(|| rg.contains(v)).ok()})
    }).collect()).unwrap_or_default();
    let extra: Vec<Value> = r["elems"].as_array().map(|a| a.iter().map(|p| { let v = anch(p); json!({"v": v.to_string(), "contains": catch(|| rg.contains(v)).ok()}) }).collect()).unwrap_or_default();
    let mem: Vec<Value> = r["members"].as_array().map(|a| a.iter().map(|p| { let v = anch(p); json!({"v": v.to_string(), "contains": catch(|| rg.contains(v)).ok()}) }).collect()).unwrap_or_default();
    let non: Vec<Value> = r["nonmembers"].as_array().map(|a| a.iter().map(|p| { let v = anch(p); json!({"v": v.to_string(), "contains": catch(|| rg.contains(v)).ok()}) }).collect()).unwrap_or_default();
    // term round trip, also across the wire
    let t: OwnedTerm = rg.into();
    let back = ElixirRange::from_term(&t);
    let wire = erltf::encode(&t).ok().and_then(|b| erltf::decode(&b).ok()).and_then(|t2| ElixirRange::from_term(&t2));
    json!({"first": f.to_string(), "last": l.to_string(), "step": s.to_string(),
           "len": len.ok().map(|x| x.to_string()), "iter": iter.ok().map(|v| v.iter().map(|x| x.to_string()).collect::<Vec<_>>()),
           "size_hint": hint.ok().map(|h| h.0.to_string()), "probes": probes, "elems_contains": extra, "nonmembers_contains": non.into_iter().chain(mem).collect::<Vec<Value>>(),
           "roundtrip": back == Some(rg), "wire_roundtrip": wire == Some(rg), "is_empty": rg.is_empty()})
}

fn from_term_kind(kind: &str, t: &OwnedTerm) -> Value {
    let r = catch(|| match kind {
        "date" => ElixirDate::from_term(t).map(|d| json!([d.year, d.month, d.day])),
        "time" => ElixirTime::from_term(t).map(|x| json!([x.hour, x.minute, x.second, x.microsecond_value, x.microsecond_precision])),
        "naive" => ElixirNaiveDateTime::from_term(t).map(|x| json!([x.year, x.month, x.day, x.hour, x.minute, x.second, x.microsecond_value, x.microsecond_precision])),
        "datetime" => ElixirDateTime::from_term(t).map(|x| json!([x.year, x.month, x.day, x.hour, x.minute, x.second, x.microsecond_value, x.microsecond_precision,
                                                                     x.time_zone.as_bytes(), x.zone_abbr.as_bytes(), x.utc_offset, x.std_offset])),
        "range" => ElixirRange::from_term(t).map(|r| json!([r.first.to_string(), r.last.to_string(), r.step.to_string()])),
        _ => None,
    });
    match r {
        Ok(Some(v)) => json!({"some": v}),
        Ok(None) => json!({"none": true}),
        Err(p) => json!({"panic": p}),
    }
}

fn wrappers() -> Vec<Value> {
    // x -> term -> x, and x -> term -> bytes -> term -> x, for every wrapper kind
    let mut out = Vec::new();
    macro_rules! rt {
        ($name:expr, $val:expr, $ty:ty) => {{
            let v: $ty = $val;
            let t: OwnedTerm = v.clone().into();
            let direct = <$ty>::from_term(&t);
            let wire = erltf::encode(&t).ok().and_then(|b| erltf::decode(&b).ok()).and_then(|t2| <$ty>::from_term(&t2));
            let wire_term = wire.clone().map(|w| denote(&OwnedTerm::from(w)));
            out.push(json!({"wrapper": $name, "value": format!("{:?}", v).chars().take(160).collect::<String>(), "direct_same": direct.as_ref() == Some(&v), "wire_same_repr": wire.as_ref() == Some(&v),
                            "term": denote(&t), "wire_back_term": wire_term}));
        }};
    }
    for (y, m, d) in [(2024, 2, 29), (0, 1, 1), (-1, 12, 31), (i32::MAX, 1, 1), (i32::MIN, 12, 31), (9999, 12, 31)] {
        rt!("date", ElixirDate::new(y, m, d), ElixirDate);
    }
    for (h, mi, s, us, p) in [(0, 0, 0, 0, 0), (23, 59, 59, 999_999, 6), (12, 30, 15, 123_000, 3), (1, 2, 3, 1, 6)] {
        rt!("time", ElixirTime::new(h, mi, s, us, p), ElixirTime);
        rt!("naive_datetime", ElixirNaiveDateTime::from_date_time(ElixirDate::new(2024, 2, 29), ElixirTime::new(h, mi, s, us, p)), ElixirNaiveDateTime);
        rt!("naive_datetime", ElixirNaiveDateTime::from_date_time(ElixirDate::new(i32::MIN, 1, 1), ElixirTime::new(h, mi, s, us, p)), ElixirNaiveDateTime);
    }
    for items in [vec![], vec![OwnedTerm::Integer(1)], vec![OwnedTerm::Integer(1), OwnedTerm::Integer(i64::MAX), OwnedTerm::Atom(Atom::new("a")), OwnedTerm::Binary(vec![1, 2])],
                  vec![OwnedTerm::Tuple(vec![OwnedTerm::Integer(1 << 40), OwnedTerm::Nil]), OwnedTerm::List(vec![OwnedTerm::Float(1.5)])]] {
        rt!("map_set", ElixirMapSet::from_values(items.clone()), ElixirMapSet);
    }
    // date-times with zones, offsets and extreme years
    for (y, us, p, tz, ab, uo, so) in [(2024, 0u32, 0u8, "Etc/UTC", "UTC", 0i32, 0i32), (i32::MAX, 999_999, 6, "Europe/Berlin", "CEST", 3600, 3600), (i32::MIN, 1, 6, "America/St_Johns", "NST", -12600, 0),
                                       (1, 123_000, 3, "Asia/Kathmandu", "+0545", 20700, 0), (9999, 0, 0, "é/zone", "", i32::MAX, i32::MIN), (2024, 0, 0, "Etc/UTC", "UTC", 3600, -1), (2024, 5, 6, "Etc/UTC", "X", 0, 7200)] {
        rt!("datetime", ElixirDateTime::with_timezone(y, 12, 31, 23, 59, 59, us, p, tz, ab, uo, so), ElixirDateTime);
    }
    rt!("datetime", ElixirDateTime::utc(2024, 2, 29, 0, 0, 0, 0, 0), ElixirDateTime);
    rt!("naive_datetime", ElixirNaiveDateTime::new(i32::MAX, 12, 31, 23, 59, 59, 999_999, 6), ElixirNaiveDateTime);
    // every value a public field can hold is a value of the wrapper: field values the constructors would not produce (built as literals)
    for p in [7u8, 9, 255] {
        rt!("naive_datetime", ElixirNaiveDateTime { year: 2024, month: 2, day: 29, hour: 23, minute: 59, second: 58, microsecond_value: 1, microsecond_precision: p }, ElixirNaiveDateTime);
        rt!("time", ElixirTime { hour: 23, minute: 59, second: 58, microsecond_value: 1, microsecond_precision: p }, ElixirTime);
        let mut dt = ElixirDateTime::utc(2024, 2, 29, 0, 0, 0, 1, 6);
        dt.microsecond_precision = p;
        rt!("datetime", dt, ElixirDateTime);
    }
    rt!("naive_datetime", ElixirNaiveDateTime { year: 2024, month: 13, day: 0, hour: 24, minute: 60, second: 61, microsecond_value: 1_000_000, microsecond_precision: 6 }, ElixirNaiveDateTime);
    rt!("time", ElixirTime { hour: 255, minute: 255, second: 255, microsecond_value: u32::MAX, microsecond_precision: 0 }, ElixirTime);
    rt!("naive_datetime", ElixirNaiveDateTime { year: i32::MIN, month: 255, day: 255, hour: 255, minute: 255, second: 255, microsecond_value: 1 << 31, microsecond_precision: 255 }, ElixirNaiveDateTime);
    {
        let mut dt = ElixirDateTime::utc(2024, 2, 29, 0, 0, 0, 1, 6);
        dt.microsecond_value = u32::MAX;
        rt!("datetime", dt, ElixirDateTime);
    }
    // map sets: duplicates in the input, nested sets, terms of every kind
    rt!("map_set", ElixirMapSet::from_values(vec![OwnedTerm::Integer(1), OwnedTerm::Integer(1), OwnedTerm::Float(1.0), OwnedTerm::Atom(Atom::new("a")), OwnedTerm::Atom(Atom::new("a"))]), ElixirMapSet);
    rt!("map_set", ElixirMapSet::from_values(vec![OwnedTerm::from(ElixirMapSet::from_values(vec![OwnedTerm::Integer(2)])), OwnedTerm::Nil, OwnedTerm::Map(Default::default())]), ElixirMapSet);
    rt!("map_set", ElixirMapSet::from_values((0..300).map(OwnedTerm::Integer).collect::<Vec<_>>()), ElixirMapSet);
    // the remaining exception structs
    rt!("key_error", KeyError::with_message(OwnedTerm::Integer(1), OwnedTerm::Nil, "no such key é"), KeyError);
    rt!("undefined_function_error", UndefinedFunctionError::with_reason("Mod", "f", 0, "module could not be loaded"), UndefinedFunctionError);
    rt!("undefined_function_error", UndefinedFunctionError::new("", "", 0), UndefinedFunctionError);
    rt!("arithmetic_error", ArithmeticError::bad_argument(), ArithmeticError);
    rt!("bad_function_error", BadFunctionError::new(OwnedTerm::Tuple(vec![OwnedTerm::Integer(i64::MAX)])), BadFunctionError);
    rt!("function_clause_error", FunctionClauseError::new("M", "fun", 255, OwnedTerm::List(vec![OwnedTerm::Integer(1), OwnedTerm::Integer(1 << 40)])), FunctionClauseError);
    rt!("function_clause_error", FunctionClauseError::empty(), FunctionClauseError);
    rt!("function_clause_error", FunctionClauseError { module: Some("M.Sub".into()), function: None, arity: Some(0), args: None }, FunctionClauseError);
    rt!("function_clause_error", FunctionClauseError { module: None, function: Some("f".into()), arity: None, args: Some(OwnedTerm::Nil) }, FunctionClauseError);
    // a module given with its Elixir. prefix names the same module: it comes back in the unprefixed form (normalisation, see DESIGN 10.6)
    {
        let alias = |name: &str, back: Option<String>, want: &str| json!({"wrapper": name, "alias": true, "value": want, "direct_same": back.as_deref() == Some(want), "wire_same_repr": true, "term": Value::Null, "wire_back_term": Value::Null});
        let t: OwnedTerm = FunctionClauseError::new("Elixir.M", "f", 1, OwnedTerm::Nil).into();
        out.push(alias("function_clause_error", FunctionClauseError::from_term(&t).and_then(|e| e.module), "M"));
        let t: OwnedTerm = UndefinedFunctionError::new("Elixir.Mod", "f", 0).into();
        out.push(alias("undefined_function_error", UndefinedFunctionError::from_term(&t).map(|e| e.module), "Mod"));
    }
    // an arity that does not fit is rejected, not wrapped
    for bad in [256i64, -1, 1 << 40, i64::MIN] {
        for which in ["function_clause_error", "undefined_function_error"] {
            let t: OwnedTerm = if which == "function_clause_error" { FunctionClauseError::new("M", "f", 3, OwnedTerm::Nil).into() } else { UndefinedFunctionError::new("M", "f", 3).into() };
            let t = match t { OwnedTerm::Map(mut m) => { m.insert(OwnedTerm::Atom(Atom::new("arity")), OwnedTerm::Integer(bad)); OwnedTerm::Map(m) } o => o };
            let rejected = |t: &OwnedTerm| if which == "function_clause_error" { FunctionClauseError::from_term(t).is_none() } else { UndefinedFunctionError::from_term(t).is_none() };
            let wire = erltf::encode(&t).ok().and_then(|b| erltf::decode(&b).ok());
            out.push(json!({"wrapper": which, "reject": true, "value": format!("arity {bad}"), "direct_same": rejected(&t), "wire_same_repr": wire.as_ref().map(|t2| rejected(t2)).unwrap_or(false), "term": denote(&t), "wire_back_term": Value::Null}));
        }
    }
    // atoms that mean something to somebody (absent / boolean / result markers) as ordinary field values of every wrapper: a function
    // called `undefined`, a key `nil`, a mismatched term `false` ... are values like any other
    for s in ["undefined", "true", "false", "null", "none", "ok", "error", "nil", "", "Elixir.X", "__struct__"] {
        let at = OwnedTerm::Atom(Atom::new(s));
        if s != "nil" {
            // (in an optional field the atom nil IS the absent value)
            rt!("function_clause_error", FunctionClauseError { module: Some("M".into()), function: Some(s.to_string()), arity: Some(1), args: Some(at.clone()) }, FunctionClauseError);
            rt!("function_clause_error", FunctionClauseError { module: None, function: Some(s.to_string()), arity: None, args: None }, FunctionClauseError);
            rt!("function_clause_error", FunctionClauseError { module: None, function: None, arity: None, args: Some(at.clone()) }, FunctionClauseError);
        }
        rt!("key_error", KeyError::new(at.clone(), at.clone()), KeyError);
        rt!("key_error", KeyError::with_message(at.clone(), OwnedTerm::Map(Default::default()), s), KeyError);
        rt!("match_error", MatchError::new(at.clone()), MatchError);
        rt!("bad_map_error", BadMapError::new(at.clone()), BadMapError);
        rt!("bad_function_error", BadFunctionError::new(at.clone()), BadFunctionError);
        rt!("case_clause_error", CaseClauseError::new(at.clone()), CaseClauseError);
        rt!("with_clause_error", WithClauseError::new(at.clone()), WithClauseError);
        rt!("undefined_function_error", UndefinedFunctionError::new("M", s, 2), UndefinedFunctionError);
        rt!("undefined_function_error", UndefinedFunctionError::with_reason("M", "f", 2, s), UndefinedFunctionError);
        rt!("argument_error", ArgumentError::new(s), ArgumentError);
        rt!("runtime_error", RuntimeError::new(s), RuntimeError);
        rt!("arithmetic_error", ArithmeticError::new(s), ArithmeticError);
        rt!("map_set", ElixirMapSet::from_values(vec![at.clone(), OwnedTerm::Tuple(vec![at.clone()])]), ElixirMapSet);
        // such an atom where a number belongs is a wrong shape
        if s != "nil" {
            for which in ["function_clause_error", "undefined_function_error"] {
                let t: OwnedTerm = if which == "function_clause_error" { FunctionClauseError::new("M", "f", 3, OwnedTerm::Nil).into() } else { UndefinedFunctionError::new("M", "f", 3).into() };
                let t = match t { OwnedTerm::Map(mut m) => { m.insert(OwnedTerm::Atom(Atom::new("arity")), at.clone()); OwnedTerm::Map(m) } o => o };
                let rejected = |t: &OwnedTerm| if which == "function_clause_error" { FunctionClauseError::from_term(t).is_none() } else { UndefinedFunctionError::from_term(t).is_none() };
                let wire = erltf::encode(&t).ok().and_then(|b| erltf::decode(&b).ok());
                out.push(json!({"wrapper": which, "reject": true, "value": format!("arity :{s}"), "direct_same": rejected(&t), "wire_same_repr": wire.as_ref().map(|t2| rejected(t2)).unwrap_or(false), "term": denote(&t), "wire_back_term": Value::Null}));
            }
        }
    }
    rt!("cond_clause_error", CondClauseError::new(), CondClauseError);
    rt!("argument_error", ArgumentError::new("bad argument é"), ArgumentError);
    rt!("runtime_error", RuntimeError::new(""), RuntimeError);
    rt!("key_error", KeyError::new(OwnedTerm::Atom(Atom::new("k")), OwnedTerm::Map(Default::default())), KeyError);
    rt!("match_error", MatchError::new(OwnedTerm::Integer(i64::MIN)), MatchError);
    rt!("undefined_function_error", UndefinedFunctionError::new("Mod", "fun", 255), UndefinedFunctionError);
    rt!("arithmetic_error", ArithmeticError::new("bad arith"), ArithmeticError);
    rt!("bad_map_error", BadMapError::new(OwnedTerm::Integer(1 << 33)), BadMapError);
    rt!("case_clause_error", CaseClauseError::new(OwnedTerm::Tuple(vec![])), CaseClauseError);
    rt!("with_clause_error", WithClauseError::new(OwnedTerm::Nil), WithClauseError);
    out
}

fn proplists() -> Vec<Value> {
    let a = |s: &str| OwnedTerm::Atom(Atom::new(s));
    let t2 = |k: OwnedTerm, v: OwnedTerm| OwnedTerm::Tuple(vec![k, v]);
    let mut out = Vec::new();
    let lists = vec![
        vec![],
        vec![t2(a("a"), OwnedTerm::Integer(1))],
        vec![t2(a("a"), OwnedTerm::Integer(1)), t2(a("b"), OwnedTerm::Binary(vec![1])), t2(OwnedTerm::Binary(b"k".to_vec()), OwnedTerm::Nil)],
        vec![a("flag"), t2(a("x"), OwnedTerm::Integer(i64::MAX))],
        vec![t2(a("a"), OwnedTerm::Integer(1)), t2(a("a"), OwnedTerm::Integer(2)), a("a")],
        vec![t2(a("z"), OwnedTerm::List(vec![t2(a("n"), OwnedTerm::Integer(1))])), t2(a("y"), OwnedTerm::Float(-0.0))],
    ];
    for l in lists {
        let pl = OwnedTerm::List(l.clone());
        let keys: Vec<OwnedTerm> = l.iter().map(|e| match e { OwnedTerm::Tuple(t) => t[0].clone(), other => other.clone() }).collect();
        let has_dups = { let mut k = keys.clone(); k.sort(); k.dedup(); k.len() != keys.len() };
        let m = pl.proplist_to_map();
        let back = m.as_ref().ok().and_then(|m| m.map_to_proplist().ok());
        let (kept_all_keys, kept_all_pairs) = match &back {
            Some(OwnedTerm::List(b)) => {
                let bk: Vec<OwnedTerm> = b.iter().filter_map(|e| match e { OwnedTerm::Tuple(t) if t.len() == 2 => Some(t[0].clone()), _ => None }).collect();
                let all_keys = keys.iter().all(|k| bk.contains(k));
                let norm: Vec<OwnedTerm> = l.iter().map(|e| match e { OwnedTerm::Atom(_) => t2(e.clone(), OwnedTerm::Atom(Atom::new("true"))), o => o.clone() }).collect();
                let all_pairs = norm.iter().all(|p| b.contains(p)) && b.len() == norm.len();
                (all_keys, all_pairs)
            }
            _ => (false, false),
        };
        // map -> proplist -> map
        let map_back = m.as_ref().ok().and_then(|m| m.map_to_proplist().ok()).and_then(|p| p.proplist_to_map().ok());
        out.push(json!({"proplist": denote(&pl), "has_duplicate_keys": has_dups, "to_map_ok": m.is_ok(), "kept_all_keys": kept_all_keys, "kept_all_pairs": kept_all_pairs,
                        "map_roundtrip_same": m.as_ref().ok().map(denote) == map_back.as_ref().map(denote)}));
    }
    out
}

fn builders() -> Vec<Value> {
    // what was put in is what a reader of the built term finds, before and after the wire
    let mut out = Vec::new();
    let vals: Vec<(&str, OwnedTerm)> = vec![
        ("a", OwnedTerm::Integer(1)), ("big", OwnedTerm::Integer(i64::MAX)), ("neg", OwnedTerm::Integer(i64::MIN)), ("w", OwnedTerm::Integer(1 << 31)),
        ("bin", OwnedTerm::Binary(vec![0, 255])), ("nested", OwnedTerm::List(vec![OwnedTerm::Tuple(vec![OwnedTerm::Atom(Atom::new("k")), OwnedTerm::Nil])])), ("é", OwnedTerm::Float(2.5)),
    ];
    for n in 0..=vals.len() {
        let mut kb = KeywordListBuilder::new();
        let mut mb = AtomKeyMapBuilder::new();
        for (k, v) in vals.iter().take(n) {
            kb = kb.put_term(k, v.clone());
            mb = mb.insert_term(k, v.clone());
        }
        let kl = kb.build();
        let m = mb.build();
        let wire = |t: &OwnedTerm| erltf::encode(t).ok().and_then(|b| erltf::decode(&b).ok());
        let pairs: Vec<Value> = vals.iter().take(n).map(|(k, v)| json!([denote(&OwnedTerm::Atom(Atom::new(*k))), denote(v)])).collect();
        out.push(json!({"n": n, "pairs": pairs, "keyword": denote(&kl), "keyword_wire": wire(&kl).as_ref().map(denote), "map": denote(&m), "map_wire": wire(&m).as_ref().map(denote),
                        "keyword_to_map": kl.proplist_to_map().ok().as_ref().map(denote), "map_to_keyword": m.map_to_proplist().ok().as_ref().map(denote)}));
    }
    out
}

/// proplist / map helpers on the lists of Elixir!PropCases
fn props(path: &str) -> Vec<Value> {
    read_ndjson(path).iter().map(|c| {
        let l = build(&c["list"]);
        let to_map = catch(|| l.proplist_to_map().ok());
        let back = to_map.clone().ok().flatten().and_then(|m| m.map_to_proplist().ok());
        let map_again = back.as_ref().and_then(|p| p.proplist_to_map().ok());
        let norm = catch(|| l.normalize_proplist().ok());
        // a bare atom is short for {Atom, true}: converting the list and converting its normal form must agree, duplicates or not
        let to_map_of_normal = catch(|| l.normalize_proplist().ok().and_then(|n| n.proplist_to_map().ok()));
        let rec = catch(|| l.to_map_recursive().ok());
        let d = |r: &Result<Option<OwnedTerm>, String>| match r { Ok(Some(t)) => denote(t), Ok(None) => json!({"error": true}), Err(p) => json!({"panic": p}) };
        json!({"to_map": d(&to_map), "to_map_of_normalized": d(&to_map_of_normal), "map_to_proplist": back.as_ref().map(denote), "map_again": map_again.as_ref().map(denote), "normalized": d(&norm), "recursive": d(&rec),
               "is_proplist": l.is_proplist()})
    }).collect()
}

/// the call sequences of Elixir!BuilderCases on both builders: what each builds, before and after the wire, and as a struct
fn builder_calls(path: &str) -> Vec<Value> {
    fn key(k: &str) -> &'static str {
        match k { "a" => "a", "b" => "b", "c" => "c", _ => "d" }
    }
    read_ndjson(path).iter().map(|c| {
        let mut kb = KeywordListBuilder::new();
        let mut mb = AtomKeyMapBuilder::new();
        let mut effective = 0usize;
        for o in c["ops"].as_array().cloned().unwrap_or_default() {
            let k = o["key"].as_str().unwrap_or("a");
            let n = o["val"].as_i64().unwrap_or(0);
            let on = o["on"].as_bool().unwrap_or(true);
            match o["op"].as_str().unwrap_or("") {
                "put" => { kb = kb.put(k, n); mb = mb.insert(k, n); effective += 1; }
                "put_atom" => { kb = kb.put_atom(k, "x"); mb = mb.insert_atom(k, "x"); effective += 1; }
                "put_flag" => { kb = kb.put_flag(k); mb = mb.insert_term(k, OwnedTerm::boolean(true)); effective += 1; }
                "put_if" => { kb = kb.put_if(on, k, n); mb = mb.insert_if(on, k, n); effective += on as usize; }
                "put_some" => { kb = kb.put_some(k, on.then_some(n)); mb = mb.insert_some(k, on.then_some(n)); effective += on as usize; }
                _ => {
                    let ps: Vec<(&'static str, i64)> = o["pairs"].as_array().map(|a| a.iter().map(|p| (key(p[0].as_str().unwrap_or("d")), p[1].as_i64().unwrap_or(0))).collect()).unwrap_or_default();
                    effective += ps.len();
                    kb = kb.extend(ps.clone());
                    mb = mb.extend(ps);
                }
            }
        }
        let (kl_len, m_len) = (kb.len(), mb.len());
        let kl = kb.clone().build();
        let m = mb.clone().build();
        let st = mb.build_struct("Mod");
        let wire = |t: &OwnedTerm| erltf::encode(t).ok().and_then(|b| erltf::decode(&b).ok());
        json!({"keyword": denote(&kl), "keyword_wire": wire(&kl).as_ref().map(denote), "map": denote(&m), "map_wire": wire(&m).as_ref().map(denote),
               "struct": denote(&st), "struct_wire": wire(&st).as_ref().map(denote), "keyword_len": kl_len, "map_len": m_len, "effective_calls": effective})
    }).collect()
}

pub fn run(args: &[String]) -> i32 {
    // elixir-run <ranges.ndjson> <cross.ndjson> <mutations.ndjson> <valid.ndjson> <out.ndjson> [<proplists.ndjson>]
    quiet_panics();
    let mut w = NdWriter::create(&args[4]);
    for (i, r) in read_ndjson(&args[0]).iter().enumerate() {
        let mut o = range_case(r);
        o["set"] = json!("range");
        o["i"] = json!(i);
        w.put(&o);
    }
    for (i, r) in read_ndjson(&args[1]).iter().enumerate() {
        let mut o = range_case(r);
        o["set"] = json!("cross");
        o["i"] = json!(i);
        w.put(&o);
    }
    for (i, m) in read_ndjson(&args[2]).iter().enumerate() {
        let kind = m["kind"].as_str().unwrap_or("");
        let direct = from_term_kind(kind, &build(&m["term"]));
        let wire = match erltf::decode(&bytes_of(&m["enc"])) {
            Ok(t) => from_term_kind(kind, &t),
            Err(e) => json!({"decode_error": format!("{e:?}")}),
        };
        w.put(&json!({"set": "mutation", "i": i, "direct": direct, "wire": wire}));
    }
    for (i, m) in read_ndjson(&args[3]).iter().enumerate() {
        let kind = m["kind"].as_str().unwrap_or("");
        let direct = from_term_kind(kind, &build(&m["term"]));
        let wire = match erltf::decode(&bytes_of(&m["enc"])) {
            Ok(t) => from_term_kind(kind, &t),
            Err(e) => json!({"decode_error": format!("{e:?}")}),
        };
        w.put(&json!({"set": "valid", "i": i, "direct": direct, "wire": wire}));
    }
    for (i, o) in wrappers().into_iter().enumerate() {
        let mut o = o;
        o["set"] = json!("wrapper");
        o["i"] = json!(i);
        w.put(&o);
    }
    for (i, o) in proplists().into_iter().enumerate() {
        let mut o = o;
        o["set"] = json!("proplist");
        o["i"] = json!(i);
        w.put(&o);
    }
    if let Some(pp) = args.get(5) {
        for (i, o) in props(pp).into_iter().enumerate() {
            let mut o = o;
            o["set"] = json!("props");
            o["i"] = json!(i);
            w.put(&o);
        }
    }
    for (i, o) in builders().into_iter().enumerate() {
        let mut o = o;
        o["set"] = json!("builder");
        o["i"] = json!(i);
        w.put(&o);
    }
    if let Some(bp) = args.get(6) {
        for (i, o) in builder_calls(bp).into_iter().enumerate() {
            let mut o = o;
            o["set"] = json!("builder_calls");
            o["i"] = json!(i);
            w.put(&o);
        }
    }
    w.finish();
    0
}
