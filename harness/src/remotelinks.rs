//! Beyond the listed properties (spec/RemoteLinks.tla): links and monitors that cross the connection -- what the node tells
//! the peer when a local process terminates, what it records of the peer's LINK / MONITOR_P, what it tells local processes
//! when the connection goes down.
use crate::inbound::Recorder;
use crate::io::NdWriter;
use crate::nodeenv::*;
use crate::rpc::connect_peer;
use edp_client::verif;
use edp_node::Node;
use erltf::{Atom, ExternalPid, ExternalReference, OwnedTerm};
use serde_json::{Value, json};
use std::sync::{Arc, Mutex};
use std::time::Duration;
use tokio::net::TcpListener;

const PEER: &str = "peer@127.0.0.1";

fn tags(frames: &[Vec<u8>]) -> Vec<i64> {
    // pass-through frames: 112, then the control tuple
    frames.iter().filter_map(|f| {
        if f.first() != Some(&112) {
            return None;
        }
        match erltf::decoder::decode_with_trailing(&f[1..]).ok().map(|(t, _)| t) {
            Some(OwnedTerm::Tuple(e)) => match e.first() {
                Some(OwnedTerm::Integer(i)) => Some(*i),
                _ => None,
            },
            _ => None,
        }
    }).collect()
}

pub fn run(args: &[String]) -> i32 {
    // remotelinks-run <out.ndjson>
    let rt = tokio::runtime::Builder::new_multi_thread().worker_threads(4).enable_all().build().expect("rt");
    let mut w = NdWriter::create(&args[0]);
    rt.block_on(async {
        let listener = TcpListener::bind("127.0.0.1:0").await.expect("bind");
        let (epmd_port, _e) = fake_epmd(listener.local_addr().unwrap().port()).await;
        verif::set_epmd_port(epmd_port);
        let mut node = Node::new("n1@127.0.0.1", COOKIE);
        if node.start(0).await.is_err() {
            w.put(&json!({"tool_error": "node start failed"}));
            return;
        }
        let node = Arc::new(node);
        let log: Arc<Mutex<Vec<Value>>> = Arc::new(Mutex::new(Vec::new()));
        let mk = |tag: &str| Recorder { tag: tag.to_string(), log: log.clone() };
        let Some(mut peer) = connect_peer(&node, &listener).await else {
            w.put(&json!({"tool_error": "could not connect"}));
            return;
        };
        let r = ExternalPid::new(Atom::new(PEER), 11, 0, 1);
        let die = OwnedTerm::Atom(Atom::new("die"));
        let settle = || tokio::time::sleep(Duration::from_millis(250));
        // 1. link asked for by the local side; the local process terminates
        let l1 = node.spawn(mk("l1")).await.expect("spawn");
        let link_ok = node.link(&l1, &r).await.is_ok();
        settle().await;
        let after_link = tags(&peer.frames.lock().unwrap());
        peer.frames.lock().unwrap().clear();
        let _ = node.send(&l1, die.clone()).await;
        settle().await;
        let after_l1_exit = tags(&peer.frames.lock().unwrap());
        peer.frames.lock().unwrap().clear();
        // 2. link asked for by the peer; the local process terminates
        let l2 = node.spawn(mk("l2")).await.expect("spawn");
        let link_in = pass_through(&OwnedTerm::Tuple(vec![OwnedTerm::Integer(1), OwnedTerm::Pid(r.clone()), OwnedTerm::Pid(l2.clone())]), None);
        let _ = write_dist_frame(&mut peer.wr, &link_in).await;
        settle().await;
        let l2_links = match node.registry().get(&l2).await {
            Some(h) => h.get_links().await.len(),
            None => 0,
        };
        let _ = node.send(&l2, die.clone()).await;
        settle().await;
        let after_l2_exit = tags(&peer.frames.lock().unwrap());
        peer.frames.lock().unwrap().clear();
        // 3. monitor asked for by the peer; the local process terminates
        let l4 = node.spawn(mk("l4")).await.expect("spawn");
        let mref = ExternalReference::new(Atom::new(PEER), 1, vec![7, 8, 9]);
        let mon_in = pass_through(&OwnedTerm::Tuple(vec![OwnedTerm::Integer(19), OwnedTerm::Pid(r.clone()), OwnedTerm::Pid(l4.clone()), OwnedTerm::Reference(mref)]), None);
        let _ = write_dist_frame(&mut peer.wr, &mon_in).await;
        settle().await;
        let l4_monitors = match node.registry().get(&l4).await {
            Some(h) => h.get_monitors().await.len(),
            None => 0,
        };
        let _ = node.send(&l4, die.clone()).await;
        settle().await;
        let after_l4_exit = tags(&peer.frames.lock().unwrap());
        peer.frames.lock().unwrap().clear();
        // 4. a local process linked to and monitoring R; the connection goes down
        let l3 = node.spawn(mk("l3")).await.expect("spawn");
        let link3 = node.link(&l3, &r).await.is_ok();
        let mon3 = node.monitor(&l3, &r).await.is_ok();
        settle().await;
        log.lock().unwrap().clear();
        peer.kill();
        let t0 = std::time::Instant::now();
        while node.connections().contains_key(PEER) && t0.elapsed() < Duration::from_secs(3) {
            tokio::time::sleep(Duration::from_millis(10)).await;
        }
        let deregistered = !node.connections().contains_key(PEER);
        tokio::time::sleep(Duration::from_millis(400)).await;
        let l3_notices: Vec<Value> = log.lock().unwrap().iter().filter(|e| e["proc"] == "l3").cloned().collect();
        w.put(&json!({"link_out_ok": link_ok, "frames_after_link_out": after_link, "frames_after_exit_of_a_process_that_linked_out": after_l1_exit,
                      "link_set_size_after_the_peers_LINK": l2_links, "frames_after_exit_of_a_process_the_peer_linked_to": after_l2_exit,
                      "monitor_set_size_after_the_peers_MONITOR_P": l4_monitors, "frames_after_exit_of_a_process_the_peer_monitors": after_l4_exit,
                      "link_and_monitor_out_ok": [link3, mon3], "connection_deregistered": deregistered,
                      "notices_to_the_local_process_after_the_connection_went_down": l3_notices}));
    });
    w.finish();
    0
}
