//! C18 (last clause): scripts of spec/Behaviours.tla executed on a real GenServerProcess and GenEventManager.
//! The request terms carry what the scripted server / handler is to do; callers are recording processes.
use crate::inbound::Recorder;
use crate::io::{NdWriter, read_ndjson};
use crate::nodeenv::*;
use edp_client::verif;
use edp_node::{CallResult, EventResult, GenEventCallResult, GenEventHandler, GenEventManager, GenServer, GenServerProcess, Message, Node};
use erltf::types::ExternalReference;
use erltf::{Atom, ExternalPid, OwnedTerm};
use serde_json::{Value, json};
use std::collections::HashMap;
use std::future::Future;
use std::pin::Pin;
use std::sync::{Arc, Mutex};
use std::time::{Duration, Instant};

const NODE: &str = "n1@127.0.0.1";
type Log = Arc<Mutex<Vec<Value>>>;

fn a(s: &str) -> OwnedTerm {
    OwnedTerm::Atom(Atom::new(s))
}
fn int(n: i64) -> OwnedTerm {
    OwnedTerm::Integer(n)
}
fn tup(v: Vec<OwnedTerm>) -> OwnedTerm {
    OwnedTerm::Tuple(v)
}
fn last_int(t: &OwnedTerm) -> i64 {
    match t {
        OwnedTerm::Integer(i) => *i,
        OwnedTerm::Tuple(e) | OwnedTerm::List(e) => e.iter().rev().map(last_int).find(|x| *x >= 0).unwrap_or(-1),
        _ => -1,
    }
}
/// {Mode, N}
fn mode_n(t: &OwnedTerm) -> (String, i64) {
    if let OwnedTerm::Tuple(e) = t
        && e.len() == 2
        && let (OwnedTerm::Atom(m), OwnedTerm::Integer(n)) = (&e[0], &e[1])
    {
        return (m.as_str().to_string(), *n);
    }
    ("?".into(), -1)
}

struct Server {
    log: Log,
}
impl GenServer for Server {
    async fn init(&mut self, _args: Vec<OwnedTerm>) -> edp_node::Result<()> {
        Ok(())
    }
    async fn handle_call(&mut self, msg: OwnedTerm, _from: ExternalPid) -> edp_node::Result<CallResult> {
        let (mode, n) = mode_n(&msg);
        self.log.lock().unwrap().push(json!(["call", n]));
        match mode.as_str() {
            "reply" => Ok(CallResult::Reply(tup(vec![a("gs"), int(n)]))),
            "noreply" => Ok(CallResult::NoReply),
            _ => Err(edp_node::Error::InvalidMessage("scripted failure".into())),
        }
    }
    async fn handle_cast(&mut self, msg: OwnedTerm) -> edp_node::Result<()> {
        self.log.lock().unwrap().push(json!(["cast", last_int(&msg)]));
        Ok(())
    }
    async fn handle_info(&mut self, msg: OwnedTerm) -> edp_node::Result<()> {
        self.log.lock().unwrap().push(json!(["info", last_int(&msg)]));
        Ok(())
    }
}

struct Handler {
    id: String,
    generation: i64,
    seen: Log,
    fail_init: bool,
}
impl Handler {
    fn next(&self) -> Box<dyn GenEventHandler> {
        Box::new(Handler { id: self.id.clone(), generation: self.generation + 1, seen: self.seen.clone(), fail_init: false })
    }
    /// a replacement whose init fails
    fn next_failing(&self) -> Box<dyn GenEventHandler> {
        Box::new(Handler { id: self.id.clone(), generation: self.generation + 1, seen: self.seen.clone(), fail_init: true })
    }
    fn my_act(&self, ev: &OwnedTerm) -> String {
        // {N, [{h1, Act}, {h2, Act}]}
        if let OwnedTerm::Tuple(e) = ev
            && e.len() == 2
            && let OwnedTerm::List(l) = &e[1]
        {
            for p in l {
                if let OwnedTerm::Tuple(kv) = p
                    && kv.len() == 2
                    && let (OwnedTerm::Atom(h), OwnedTerm::Atom(act)) = (&kv[0], &kv[1])
                    && h.as_str() == self.id
                {
                    return act.as_str().to_string();
                }
            }
        }
        "ok".into()
    }
}
impl GenEventHandler for Handler {
    fn init<'a>(&'a mut self, _args: OwnedTerm) -> Pin<Box<dyn Future<Output = edp_node::Result<()>> + Send + 'a>> {
        Box::pin(async move { if self.fail_init { Err(edp_node::Error::InvalidMessage("scripted init failure".into())) } else { Ok(()) } })
    }
    fn handle_event<'a>(&'a mut self, event: OwnedTerm) -> Pin<Box<dyn Future<Output = edp_node::Result<EventResult>> + Send + 'a>> {
        Box::pin(async move {
            let n = if let OwnedTerm::Tuple(e) = &event { last_int(&e[0]) } else { -1 };
            self.seen.lock().unwrap().push(json!({"h": self.id, "rec": ["event", self.generation, n]}));
            match self.my_act(&event).as_str() {
                "remove" => Ok(EventResult::Remove),
                "swap" => Ok(EventResult::SwapHandler(self.next(), a("swap_args"))),
                "swapfail" => Ok(EventResult::SwapHandler(self.next_failing(), a("swap_args"))),
                "fail" => Err(edp_node::Error::InvalidMessage("scripted failure".into())),
                _ => Ok(EventResult::Ok),
            }
        })
    }
    fn handle_call<'a>(&'a mut self, request: OwnedTerm) -> Pin<Box<dyn Future<Output = edp_node::Result<GenEventCallResult>> + Send + 'a>> {
        Box::pin(async move {
            let (mode, n) = mode_n(&request);
            self.seen.lock().unwrap().push(json!({"h": self.id, "rec": ["call", self.generation, n]}));
            let reply = tup(vec![a("ge"), int(n)]);
            match mode.as_str() {
                "remove" => Ok(GenEventCallResult::Remove(reply)),
                "swap" => Ok(GenEventCallResult::SwapHandler(self.next(), a("swap_args"), reply)),
                "swapfail" => Ok(GenEventCallResult::SwapHandler(self.next_failing(), a("swap_args"), reply)),
                "fail" => Err(edp_node::Error::InvalidMessage("scripted failure".into())),
                _ => Ok(GenEventCallResult::Reply(reply)),
            }
        })
    }
    fn handle_info<'a>(&'a mut self, msg: OwnedTerm) -> Pin<Box<dyn Future<Output = edp_node::Result<EventResult>> + Send + 'a>> {
        Box::pin(async move {
            self.seen.lock().unwrap().push(json!({"h": self.id, "rec": ["info", self.generation, last_int(&msg)]}));
            Ok(EventResult::Ok)
        })
    }
    fn id(&self) -> OwnedTerm {
        a(&self.id)
    }
}

fn mk_ref(node: &Node, n: u32) -> ExternalReference {
    ExternalReference::new(node.name().clone(), node.creation(), vec![n, 0, 0])
}

/// what a recording caller received, in the vocabulary of the spec
fn translate(body: &Value) -> Value {
    // body is a denoted term: {Ref, Value} | ok
    let b = crate::term_json::build(body);
    match &b {
        OwnedTerm::Atom(x) if x.as_str() == "ok" => json!({"t": "ok", "ref": 0, "v": "ge", "ids": []}),
        OwnedTerm::Tuple(e) if e.len() == 2 => {
            let r = if let OwnedTerm::Reference(r) = &e[0] { r.ids.first().copied().unwrap_or(0) as i64 } else { -1 };
            match &e[1] {
                OwnedTerm::Atom(x) => json!({"t": "reply", "ref": r, "v": x.as_str(), "ids": []}),
                OwnedTerm::Tuple(v) if v.len() == 2 => json!({"t": "reply", "ref": r, "v": if let OwnedTerm::Atom(x) = &v[0] { x.as_str().to_string() } else { "?".into() }, "ids": [], "n": last_int(&v[1])}),
                OwnedTerm::List(l) => {
                    let mut ids: Vec<String> = l.iter().map(|x| if let OwnedTerm::Atom(x) = x { x.as_str().to_string() } else { "?".into() }).collect();
                    ids.sort();
                    json!({"t": "which", "ref": r, "v": "ids", "ids": ids})
                }
                OwnedTerm::Nil => json!({"t": "which", "ref": r, "v": "ids", "ids": []}),
                other => json!({"t": "other", "debug": format!("{other:?}")}),
            }
        }
        other => json!({"t": "other", "debug": format!("{other:?}").chars().take(100).collect::<String>()}),
    }
}

async fn wait_for(log: &Log, tag: u32, within: Duration, node: &Arc<Node>, alive: Option<&ExternalPid>) -> bool {
    let t0 = Instant::now();
    loop {
        if let Some(p) = alive
            && node.registry().get(p).await.is_none()
        {
            return false;
        }
        let hit = log.lock().unwrap().iter().rev().take(6).any(|e| e["proc"] == "sync" && e["msg"]["k"] == "regular" && translate(&e["msg"]["body"])["ref"].as_i64() == Some(tag as i64));
        if hit {
            return true;
        }
        if t0.elapsed() > within {
            return false;
        }
        tokio::time::sleep(Duration::from_micros(200)).await;
    }
}

async fn run_one(node: &Arc<Node>, sc: &Value, serial: &mut u32) -> Value {
    let rec_log: Log = Arc::new(Mutex::new(Vec::new()));
    let gs_log: Log = Arc::new(Mutex::new(Vec::new()));
    let seen: Log = Arc::new(Mutex::new(Vec::new()));
    let mut pids: HashMap<String, ExternalPid> = HashMap::new();
    for k in ["k1", "k2", "sync"] {
        match node.spawn(Recorder { tag: k.into(), log: rec_log.clone() }).await {
            Ok(p) => {
                pids.insert(k.into(), p);
            }
            Err(e) => return json!({"tool_error": format!("spawn recorder: {e:?}")}),
        }
    }
    pids.insert("ghost".into(), ExternalPid::new(node.name().clone(), 999_990, 0, node.creation()));
    let gs = match node.spawn(GenServerProcess::new(Server { log: gs_log.clone() }, node.registry())).await {
        Ok(p) => p,
        Err(e) => return json!({"tool_error": format!("spawn gen_server: {e:?}")}),
    };
    let mut mgr = GenEventManager::new(node.registry());
    let mut initial: Vec<String> = sc["initial"].as_array().map(|x| x.iter().filter_map(|h| h.as_str().map(String::from)).collect()).unwrap_or_default();
    initial.sort();
    for h in &initial {
        let _ = mgr.add_handler(Box::new(Handler { id: h.clone(), generation: 1, seen: seen.clone(), fail_init: false }), a("args")).await;
    }
    let ge = match node.spawn(mgr).await {
        Ok(p) => p,
        Err(e) => return json!({"tool_error": format!("spawn gen_event: {e:?}")}),
    };
    let mut notes: Vec<String> = Vec::new();
    let mut unanswered: Vec<Value> = Vec::new();
    let mut send_results = Vec::new();
    let from_tuple = |pid: &ExternalPid, r: ExternalReference| tup(vec![OwnedTerm::Pid(pid.clone()), OwnedTerm::Reference(r)]);
    for op in sc["hist"].as_array().cloned().unwrap_or_default() {
        let kind = op[0].as_str().unwrap_or("");
        let f = op[1].as_str().unwrap_or("");
        let n = op[2].as_i64().unwrap_or(0);
        let fpid = pids.get(f).cloned().unwrap_or_else(|| pids["ghost"].clone());
        let r = mk_ref(node, n as u32);
        let to_gs = kind.starts_with("gs_");
        let msg = match kind {
            "gs_call" => tup(vec![a("$gen_call"), from_tuple(&fpid, r), tup(vec![a(op[3].as_str().unwrap_or("reply")), int(n)])]),
            "gs_cast" => tup(vec![a("$gen_cast"), int(n)]),
            "gs_info" | "ge_info" => tup(vec![a("hello"), int(n)]),
            "gs_badcall" => tup(vec![a("$gen_call"), a("not_a_from"), int(n)]),
            "ge_notify" | "ge_sync_notify" => {
                let acts: Vec<OwnedTerm> = op[3].as_object().map(|m| m.iter().map(|(h, act)| tup(vec![a(h), a(act.as_str().unwrap_or("ok"))])).collect()).unwrap_or_default();
                tup(vec![a(if kind == "ge_notify" { "$gen_notify" } else { "$gen_sync_notify" }), tup(vec![int(n), OwnedTerm::List(acts)])])
            }
            "ge_call" => tup(vec![a("$gen_call"), from_tuple(&fpid, r), a(op[3][0].as_str().unwrap_or("h1")), tup(vec![a(op[3][1].as_str().unwrap_or("reply")), int(n)])]),
            "ge_which" => tup(vec![a("$gen_which_handlers"), from_tuple(&fpid, r)]),
            other => {
                notes.push(format!("unknown op {other}"));
                continue;
            }
        };
        let target = if to_gs { &gs } else { &ge };
        let res = if kind == "ge_sync_notify" {
            // the reply goes to the message's sender field, which only a direct mailbox send carries
            match node.registry().get(target).await {
                Some(h) => h.send(Message::Regular { from: Some(fpid.clone()), body: msg }).await.is_ok(),
                None => false,
            }
        } else {
            node.send(target, msg).await.is_ok()
        };
        if to_gs {
            send_results.push(json!(if res { "ok" } else { "err" }));
        }
        // barrier: a call from the sync process behind the operation; its answer means everything before it was handled
        *serial += 1;
        let tag = 100_000 + *serial;
        let sr = mk_ref(node, tag);
        let sync_pid = pids["sync"].clone();
        if to_gs {
            if node.registry().get(&gs).await.is_some() {
                let _ = node.send(&gs, tup(vec![a("$gen_call"), from_tuple(&sync_pid, sr), tup(vec![a("reply"), int(tag as i64)])])).await;
                if !wait_for(&rec_log, tag, Duration::from_millis(400), node, Some(&gs)).await
                    && node.registry().get(&gs).await.is_some()
                    && !wait_for(&rec_log, tag, Duration::from_millis(4000), node, Some(&gs)).await
                    && node.registry().get(&gs).await.is_some()
                {
                    unanswered.push(json!({"after": [kind, n], "call": "gen_server call"}));
                    break;
                }
            }
        } else {
            let _ = node.send(&ge, tup(vec![a("$gen_which_handlers"), from_tuple(&sync_pid, sr)])).await;
            if !wait_for(&rec_log, tag, Duration::from_millis(400), node, None).await {
                // a which_handlers call to a live manager is itself a call the property wants answered: give it ample time before saying so
                if wait_for(&rec_log, tag, Duration::from_millis(4000), node, None).await {
                    continue;
                }
                if node.registry().get(&ge).await.is_some() {
                    unanswered.push(json!({"after": [kind, n], "call": "which_handlers"}));
                    break;
                }
                notes.push(format!("no barrier answer from the gen_event manager after {kind} {n}"));
            }
        }
    }
    tokio::time::sleep(Duration::from_millis(3)).await;
    // final state
    let gs_alive = node.registry().get(&gs).await.is_some();
    let entries = rec_log.lock().unwrap().clone();
    let mut inbox: HashMap<String, Vec<Value>> = HashMap::new();
    let mut last_which: Option<Value> = None;
    for e in entries.iter() {
        let p = e["proc"].as_str().unwrap_or("").to_string();
        if e["msg"]["k"] != "regular" {
            continue;
        }
        let t = translate(&e["msg"]["body"]);
        if p == "sync" {
            if t["t"] == "which" {
                last_which = Some(t["ids"].clone());
            }
            continue;
        }
        inbox.entry(p).or_default().push(t);
    }
    let gs_log_v: Vec<Value> = gs_log.lock().unwrap().iter().filter(|e| e[1].as_i64().unwrap_or(0) < 100_000).cloned().collect();
    let mut seen_by: HashMap<String, Vec<Value>> = HashMap::new();
    for e in seen.lock().unwrap().iter() {
        seen_by.entry(e["h"].as_str().unwrap_or("").to_string()).or_default().push(e["rec"].clone());
    }
    // tidy up
    for p in pids.values().chain([&gs, &ge]) {
        if let Some(h) = node.registry().get(p).await {
            drop(h);
        }
        node.registry().remove(p).await;
    }
    json!({"inbox": inbox, "gsLog": gs_log_v, "gsAlive": gs_alive, "seen": seen_by, "installed": last_which, "gs_send_results": send_results, "notes": notes, "unanswered": unanswered})
}

pub fn run(args: &[String]) -> i32 {
    // behaviours-run <scenarios.ndjson> <out.ndjson>
    let scen = read_ndjson(&args[0]);
    let rt = tokio::runtime::Builder::new_multi_thread().worker_threads(4).enable_all().build().expect("rt");
    let mut w = NdWriter::create(&args[1]);
    rt.block_on(async {
        let (epmd_port, _epmd) = fake_epmd(1).await;
        verif::set_epmd_port(epmd_port);
        let mut node = Node::new(NODE, COOKIE);
        if node.start(0).await.is_err() {
            w.put(&json!({"tool_error": "node start failed"}));
            return;
        }
        let node = Arc::new(node);
        let mut serial = 0u32;
        for sc in scen.iter() {
            let mut o = run_one(&node, sc, &mut serial).await;
            o["id"] = sc["id"].clone();
            w.put(&o);
        }
    });
    w.finish();
    0
}
