import lib


def run():
    lib.build_harness(release=True)
    lib.log("setup: harness built")
    return 0
