import lib


def run():
    lib.build_harness(release=True)
    lib.build_harness(release="asrepo")      # C02's second build (the workspace's own release settings)
    lib.log("setup: harness built")
    return 0
