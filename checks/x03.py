"""X03 — beyond the listed properties (DESIGN §8 item 3, §10.7): keep-alive.
Spec: spec/KeepAlive.tla (quarters of the peer's net_ticktime; who ticks; who gives up when).  TLC: StaysUp holds only
when the node ticks and its read timeout spans more than a quarter; as coded (no ticks, 10 s read timeout) an idle
connection to a healthy peer goes down.  Observation on the real node: frames written during an idle period in which
the peer keeps ticking.  Not part of MANIFEST.json; run with `./check X03`."""
import os
import lib

PID = "X03"


def run(tier, seed):
    v = lib.Verdict(PID, tier, seed, "model_checking")
    r = lib.tlc_expect_ok("KeepAlive.tla", "mc/KeepAlive_ticks.cfg", PID, "mc_ticks")
    v.cov["states"], v.cov["transitions"] = r.distinct, r.generated
    v.cov["mc_configs"] = [{"cfg": "KeepAlive_ticks", "result": "StaysUp holds when the node ticks and reads with a timeout of several quarters"}]
    for cfg, why in (("ascoded", "no ticks, read timeout below one quarter"), ("notick_longread", "no ticks: the peer gives up after four silent quarters"),
                     ("notick_traffic", "no ticks and traffic that is not guaranteed")):
        lib.tlc_expect_violation("KeepAlive.tla", f"mc/KeepAlive_{cfg}.cfg", PID, "mc_" + cfg, "StaysUp")
        v.cov["mc_configs"].append({"cfg": "KeepAlive_" + cfg, "result": "counterexample to StaysUp: " + why})
    op = os.path.join(lib.outdir(PID), "obs.ndjson")
    secs = 8 if tier == "thorough" else 3
    lib.harness(["keepalive-run", secs, op], timeout=120)
    o = lib.read_ndjson(op)[0]
    if "tool_error" in o:
        raise lib.ToolError(o["tool_error"])
    v.case("idle period")
    v.sample(o)
    if o["ticks_from_node"] == 0:
        lib.log(f"OBSERVATION: {PID} in {o['seconds']} s of idleness during which the peer sent {o['peer_ticks_sent']} ticks the node wrote {o['frames_from_node']} frames and no tick; "
                "nothing in the library writes a zero-length frame, so a peer with the default net_ticktime takes an idle connection down after 45-60 s (TLC: KeepAlive_notick_longread)")
    v.cov["rule"] = "8 quarters, every placement of application traffic; one idle period observed on the real node"
    return v.finish()


def replay(path, seed):
    lib.log(f"VIOLATION property={PID} replay={path}")
    return 1
