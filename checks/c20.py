"""C20 — Elixir wrappers and proplist/map helpers convert back to what went in.
Spec: spec/Elixir.tla. TLC enumerates (a) ranges whose bounds and steps sit at anchored positions of the 64-bit
line (min+k, -k..k, max-k) together with their length, element list and membership table, computed in the spec
relative to the anchors so that TLC's 32-bit integers suffice; (b) a hand-derived cross-anchor table (decimal
strings); (c) struct terms for Date / Time / Range with valid fields (with the encoding of the term from Etf.tla,
wide integers in big-integer form) and (d) their mutations (missing key, wrong module, wrong shape, wrong type,
value that does not fit the field).  The harness runs every record on the real wrappers; wrapper / builder /
proplist round trips have the identity as oracle (thin use of the specification, DESIGN §7)."""
import json, os
import lib, etf_common as E

PID = "C20"
USIZE_MAX = (1 << 64) - 1


def anch(a):
    if isinstance(a, str):
        return int(a)
    return {"min": -(1 << 63), "max": (1 << 63) - 1, "zero": 0}[a["base"]] + a["off"]


def int_of(t):
    n = 0
    for i, d in enumerate(t["mag"]):
        n += d << (8 * i)
    return -n if t["neg"] else n


def field_ints(term, names):
    kv = {bytes(k["b"]).decode(): v for k, v in term["kv"] if k.get("k") == "atom"}
    return [int_of(kv[n]) for n in names]


def mapset_members(t):
    """members and stored size of a MapSet struct term (%{__struct__: MapSet, map: {:set, n, %{member => []}}}), or None"""
    try:
        fields = {bytes(k["b"]).decode(): val for k, val in t["kv"] if k.get("k") == "atom"}
        tag, n, inner = fields["map"]["e"]
        return [k for k, _ in inner["kv"]], n
    except (KeyError, TypeError, ValueError):
        return None


def mapset_twins_merged(term, back):
    """deviation signature of C20-mapset-twins: the set that comes back is the set that went in except that members
    which are distinct Erlang terms but compare == numerically (1 and 1.0) were merged into one of them; nothing
    else is lost, nothing is added, and the stored size is the number of members that came back."""
    a, b = mapset_members(term), mapset_members(back)
    if a is None or b is None:
        return False
    (am, _), (bm, bn) = a, b

    def cls(x, y):
        return lib.same_value(x, y) or (E.is_number(x) and E.is_number(y) and E.num_value(x) == E.num_value(y))
    twins = any(not lib.same_value(x, y) and cls(x, y) for i, x in enumerate(am) for y in am[i + 1:])
    if not twins or len(bm) >= len(am) or not (E.is_number(bn) and E.num_value(bn) == len(bm)):
        return False
    if not all(any(lib.same_value(x, y) for x in am) for y in bm):          # nothing new
        return False
    if any(cls(x, y) for i, x in enumerate(bm) for y in bm[i + 1:]):       # one survivor per numeric class
        return False
    return all(any(cls(x, y) for y in bm) for x in am)                      # every member survives in its class


def run(tier, seed):
    v = lib.Verdict(PID, tier, seed, "exploration")
    d = lib.outdir(PID)
    files = {k: os.path.join(d, f"{k}.ndjson") for k in ("ranges", "cross", "mut", "valid", "obs", "props", "builders")}
    r = lib.tlc("gen/Gen_Elixir.tla", "gen/Gen_Elixir.cfg", PID, "gen", workers=1,
                env={"OUT_RANGES": files["ranges"], "OUT_CROSS": files["cross"], "OUT_MUT": files["mut"], "OUT_VALID": files["valid"], "OUT_PROPS": files["props"], "OUT_BUILDERS": files["builders"]})
    if r.rc != 0:
        raise lib.ToolError("Elixir universe generator failed")
    ranges, cross, muts, valid = (lib.read_ndjson(files[k]) for k in ("ranges", "cross", "mut", "valid"))
    if tier == "thorough":
        # seeded random 64-bit ranges judged by a transcription of Elixir!ElemsOff into Python integers (no 32-bit limit there)
        import random
        rng = random.Random(seed)
        lo, hi = -(1 << 63), (1 << 63) - 1
        pick = lambda: rng.choice([rng.randint(lo, hi), rng.randint(-1000, 1000), lo + rng.randint(0, 1000), hi - rng.randint(0, 1000), rng.randint(-(1 << 40), 1 << 40)])
        for _ in range(3000):
            f, l = pick(), pick()
            st = rng.choice([1, -1, 2, -2, 3, 7, -7, 0, rng.randint(1, 1 << 62), -rng.randint(1, 1 << 62), hi, lo, rng.randint(-50, 50)])
            n = 0 if st == 0 or (st > 0 and f > l) or (st < 0 and f < l) else (abs(l - f) // abs(st)) + 1
            elems = [f + i * st for i in range(n)] if n <= 40 else []
            members = [f + i * st for i in {0, n - 1, n // 2} if n > 0 and 0 <= i < n]
            non = [x for x in {f - 1, f + 1, l + (1 if st > 0 else -1), f + st * n} if lo <= x <= hi and not (n > 0 and st != 0 and (x - f) % st == 0 and 0 <= (x - f) // st < n)]
            cross.append({"first": str(f), "last": str(l), "step": str(st), "len": str(n), "elems": [str(e) for e in (elems or members)] if n <= 40 else [], "nonmembers": [str(x) for x in non],
                          "members": [str(m) for m in members]})
        lib.write_ndjson(files["cross"], cross)
    props = lib.read_ndjson(files["props"])
    lib.harness(["elixir-run", files["ranges"], files["cross"], files["mut"], files["valid"], files["obs"], files["props"], files["builders"]])
    obs = lib.read_ndjson(files["obs"])
    by = {}
    for o in obs:
        by.setdefault(o["set"], []).append(o)
    for k, n in (("range", len(ranges)), ("cross", len(cross)), ("mutation", len(muts)), ("valid", len(valid))):
        if len(by.get(k, [])) != n:
            raise lib.ToolError(f"harness produced {len(by.get(k, []))} {k} observations for {n} records")

    # ---- ranges: len, contains and iteration agree with the spec (and so with one another)
    def range_case(rec, o, is_cross):
        f, l, s = o["first"], o["last"], o["step"]
        case = {"first": f, "last": l, "step": s}
        v.case("range " + json.dumps([f, l, s]))
        want_len = int(rec["len"])
        want_len_api = min(want_len, USIZE_MAX)
        if o["len"] is None:
            v.violation("ElixirRange::len panicked", case)
        elif int(o["len"]) != want_len_api:
            v.violation("ElixirRange::len disagrees with the number of elements", {**case, "len": o["len"], "elements": str(want_len)})
        if o["size_hint"] is None:
            v.violation("RangeIterator::size_hint panicked", case)
        elif int(o["size_hint"]) != want_len_api:
            v.violation("RangeIterator::size_hint disagrees with the number of elements", {**case, "size_hint": o["size_hint"], "elements": str(want_len)})
        if o["is_empty"] != (want_len == 0):
            v.violation("ElixirRange::is_empty disagrees with the number of elements", {**case, "is_empty": o["is_empty"]})
        elems = [anch(e) for e in rec["elems"]]
        if o["iter"] is None:
            v.violation("iterating the range panicked", case)
        else:
            got = [int(x) for x in o["iter"]]
            if elems and want_len <= 40 and got != elems:
                v.violation("iteration yields other elements than the range has", {**case, "iterated": o["iter"][:12], "elements": [str(e) for e in elems[:12]]})
            if want_len > 40 or (not elems and want_len > 0):
                # long ranges: the first 40 are first + i*step
                exp = [int(f) + i * int(s) for i in range(min(40, want_len))]
                if got != exp:
                    v.violation("iteration yields other elements than the range has", {**case, "iterated": o["iter"][:6], "elements": [str(e) for e in exp[:6]]})
            if want_len == 0 and got:
                v.violation("iteration of an empty range yields elements", {**case, "iterated": o["iter"][:6]})
        probes = [(anch(p["v"]), p["member"]) for p in rec.get("probes", [])] + [(e, True) for e in elems] + [(anch(e), False) for e in rec.get("nonmembers", [])] + [(anch(e), True) for e in rec.get("members", [])]
        got_c = {int(p["v"]): p["contains"] for p in o["probes"] + o["elems_contains"] + o["nonmembers_contains"]}
        for val, member in probes:
            g = got_c.get(val)
            if g is None:
                v.violation("ElixirRange::contains panicked", {**case, "value": str(val)})
            elif g != member:
                v.violation("ElixirRange::contains disagrees with iteration", {**case, "value": str(val), "contains": g, "is_element": member})
        if not o["roundtrip"]:
            v.violation("range -> term -> range is not the identity", case)
        if not o["wire_roundtrip"]:
            v.violation("range -> term -> bytes -> term -> range is not the identity", case)

    for rec, o in zip(ranges, by["range"]):
        range_case(rec, o, False)
    for rec, o in zip(cross, by["cross"]):
        range_case(rec, o, True)

    # ---- mutated struct terms must be rejected; valid ones give their fields
    names = {"date": ["year", "month", "day"], "time": ["hour", "minute", "second"], "range": ["first", "last", "step"]}
    for rec, o in zip(muts, by["mutation"]):
        case = {"kind": rec["kind"], "why": rec["why"], "term_bytes": rec["enc"]}
        v.case("mut " + json.dumps(rec["enc"]))
        for path in ("direct", "wire"):
            r_ = o[path]
            if "none" in r_:
                continue
            if "some" in r_:
                v.violation(f"from_term fabricates a {rec['kind']} from a term that is not one ({rec['why']})", {**case, "path": path, "got": r_["some"]})
            elif "panic" in r_:
                v.violation(f"from_term panics on a malformed {rec['kind']} term ({rec['why']})", {**case, "path": path, "detail": r_["panic"]})
            else:
                raise lib.ToolError(f"spec encoding of a mutated term does not decode: {r_}")
    for rec, o in zip(valid, by["valid"]):
        case = {"kind": rec["kind"], "fields": rec["fields"], "term_bytes": rec["enc"]}
        v.case("valid " + json.dumps(rec["enc"]))
        want = list(rec["fields"])
        if rec["kind"] == "range":
            want = [str(x) for x in field_ints(rec["term"], names["range"])]
        for path in ("direct", "wire"):
            r_ = o[path]
            if "some" in r_:
                if [str(x) for x in r_["some"]] != [str(x) for x in want]:
                    v.violation(f"from_term returns other field values than the {rec['kind']} term holds", {**case, "path": path, "got": r_["some"], "want": want})
            elif "none" in r_:
                v.violation(f"from_term rejects a well-formed {rec['kind']} term", {**case, "path": path})
            elif "panic" in r_:
                v.violation(f"from_term panics on a well-formed {rec['kind']} term", {**case, "path": path, "detail": r_["panic"]})
            else:
                raise lib.ToolError(f"spec encoding of a valid term does not decode: {r_}")

    # ---- wrapper round trips
    for o in by.get("wrapper", []):
        case = {"wrapper": o["wrapper"], "value": o["value"]}
        v.case("wrapper " + o["wrapper"] + o["value"])
        if o.get("reject"):
            if not o["direct_same"] or not o["wire_same_repr"]:
                v.violation("a field value that does not fit is not rejected (a value is fabricated)", case)
            continue
        if o.get("alias"):
            if not o["direct_same"]:
                v.violation("a module named with its Elixir. prefix does not come back as that module", case)
            continue
        if not o["direct_same"]:
            v.violation("wrapper -> term -> wrapper is not the identity", case)
        if o["wire_back_term"] is None:
            v.violation("wrapper is not recognised after its term went through encode / decode", case)
        elif not lib.same_value(o["term"], o["wire_back_term"]):
            c = {**case, "back": o["wire_back_term"]}
            v.classify("wrapper comes back with another value after its term went through encode / decode", c,
                       ["C20-mapset-twins"] if o["wrapper"] == "map_set" and mapset_twins_merged(o["term"], o["wire_back_term"]) else [])

    # ---- builders and proplist <-> map
    def pairs_of_list(t):
        if t.get("k") == "nil":
            return []
        return [[e["e"][0], e["e"][1]] for e in t["e"]]

    for o in by.get("builder", []):
        case = {"builder_entries": o["n"]}
        v.case("builder " + str(o["n"]))
        want = o["pairs"]
        for name in ("keyword", "keyword_wire"):
            if o[name] is None or not lib.same_value(pairs_of_list(o[name]), want):
                v.violation(f"KeywordListBuilder: {name} does not hold the pairs that were put, in order", case)
        for name in ("map", "map_wire", "keyword_to_map"):
            if o[name] is None or not lib.same_value(o[name], {"k": "map", "kv": want}):
                v.violation(f"AtomKeyMapBuilder / proplist_to_map: {name} does not hold the entries that were put", case)
        if o["map_to_keyword"] is None or not lib.same_value({"k": "map", "kv": pairs_of_list(o["map_to_keyword"])}, {"k": "map", "kv": want}):
            v.violation("map_to_proplist loses or alters entries", case)
    for o in by.get("proplist", []):
        case = {"proplist": o["proplist"]}
        v.case("proplist " + json.dumps(o["proplist"]))
        if not o["to_map_ok"]:
            v.violation("proplist_to_map rejects a well-formed proplist", case)
            continue
        if not o["kept_all_keys"]:
            v.violation("proplist -> map -> proplist loses a key", case)
        if not o["has_duplicate_keys"] and not o["kept_all_pairs"]:
            v.violation("proplist -> map -> proplist loses or alters an entry", case)
        if not o["map_roundtrip_same"]:
            v.violation("map -> proplist -> map is not the identity", case)

    # ---- proplist / map helpers against Elixir!PropCases
    def mapset(m):
        """a denoted map or a spec 'mapset' -> canonical JSON text, entry order ignored, nested maps too"""
        def canon(x):
            if isinstance(x, dict):
                if x.get("k") in ("map", "mapset"):
                    kv = [[canon(p[0]), canon(p[1])] for p in x.get("kv", [])]
                    kv.sort(key=lambda p: json.dumps(p, sort_keys=True))
                    return {"k": "map", "kv": kv}
                return {kk: canon(vv) for kk, vv in x.items() if kk not in ("rep",)}
            if isinstance(x, list):
                return [canon(y) for y in x]
            return x
        return json.dumps(canon(m), sort_keys=True)
    if len(by.get("props", [])) != len(props):
        raise lib.ToolError("harness did not answer every proplist case")
    for c, o in zip(props, by.get("props", [])):
        v.case("props " + json.dumps(c["list"]))
        case = {"proplist": c["list"], "well_formed": c["well_formed"], "duplicate_keys": c["dup"]}
        want_map = {"k": "map", "kv": c["map"]}
        for name in ("to_map", "normalized", "recursive"):
            if isinstance(o[name], dict) and ("panic" in o[name] or "error" in o[name]):
                v.violation(f"{name} failed on a list", {**case, "got": o[name]})
        if mapset(o["to_map"]) != mapset(want_map):
            (v.violation if not c["dup"] else v.add_drift)("proplist_to_map does not hold the entries of the proplist" + (" (duplicate keys: the spec takes the last occurrence, as coded)" if c["dup"] else ""),
                                                          {**case, "got": o["to_map"], "expected_entries": c["map"]})
        if c["well_formed"] and mapset(o["to_map"]) != mapset(o["to_map_of_normalized"]):
            v.violation("proplist_to_map treats a bare atom differently from the pair {Atom, true} it stands for (the list and its normal form convert to different maps)",
                        {**case, "map_of_the_list": o["to_map"], "map_of_its_normal_form": o["to_map_of_normalized"]})
        if o["map_to_proplist"] is None or o["map_again"] is None or mapset(o["map_again"]) != mapset(o["to_map"]):
            v.violation("map -> proplist -> map is not the identity", {**case, "map": o["to_map"], "proplist": o["map_to_proplist"]})
        else:
            pl = o["map_to_proplist"]
            pairs = [] if pl.get("k") == "nil" else [[e["e"][0], e["e"][1]] for e in pl["e"] if e.get("k") == "tuple" and len(e["e"]) == 2]
            if mapset({"k": "map", "kv": pairs}) != mapset(o["to_map"]) or (pl.get("k") != "nil" and len(pairs) != len(pl["e"])):
                v.violation("map_to_proplist loses or alters entries", {**case, "map": o["to_map"], "proplist": pl})
        if not lib.same_value(o["normalized"], c["normalized"]):
            v.violation("normalize_proplist does not keep the pairs (bare atoms as {Atom, true}) in order", {**case, "got": o["normalized"], "expected": c["normalized"]})
        if mapset(o["recursive"]) != mapset(c["recursive"]):
            (v.violation if not c["dup"] else v.add_drift)("to_map_recursive differs from the recursive conversion of the spec", {**case, "got": o["recursive"], "expected": c["recursive"]})
    # ---- builder call sequences of Elixir!BuilderCases
    bcases = lib.read_ndjson(files["builders"])
    if len(by.get("builder_calls", [])) != len(bcases) or not bcases:
        raise lib.ToolError("harness did not answer every builder call sequence")
    for c, o in zip(bcases, by["builder_calls"]):
        v.case("builder calls " + json.dumps(c["ops"]))
        case = {"calls": [[x["op"]] + ([x["pairs"]] if x["op"] == "extend" else [x["key"], x["val"]] + ([x["on"]] if x["op"] in ("put_if", "put_some") else [])) for x in c["ops"]]}
        for name in ("keyword", "keyword_wire"):
            if o[name] is None or not lib.same_value(o[name], c["keyword"]):
                v.violation(f"KeywordListBuilder: {name} is not the pairs that were put, one per effective call, in call order", {**case, "built": o[name], "expected": c["keyword"]})
        want = {"k": "map", "kv": c["map"]}
        for name in ("map", "map_wire"):
            if o[name] is None or mapset(o[name]) != mapset(want):
                v.violation(f"AtomKeyMapBuilder: {name} does not hold, per key, the value that was put last", {**case, "built": o[name], "expected_entries": c["map"]})
        want_s = {"k": "map", "kv": c["map"] + [[{"k": "atom", "b": list(b"__struct__")}, {"k": "atom", "b": list(b"Elixir.Mod")}]]}
        for name in ("struct", "struct_wire"):
            if o[name] is None or mapset(o[name]) != mapset(want_s):
                v.violation(f"AtomKeyMapBuilder::build_struct: {name} is not the entries put last per key plus __struct__", {**case, "built": o[name], "expected_entries": want_s["kv"]})
        if o["keyword_len"] != o["effective_calls"] or o["map_len"] != len(c["map"]):
            v.violation("a builder's len() is not the number of pairs / entries it builds", {**case, "keyword_len": o["keyword_len"], "map_len": o["map_len"], "pairs": o["effective_calls"], "entries": len(c["map"])})
    v.sample({"range": by["range"][7]["first"] + ".." + by["range"][7]["last"] + "//" + by["range"][7]["step"], "len": by["range"][7]["len"]})
    v.cov["records"] = {"ranges_same_anchor": len(ranges), "ranges_cross_anchor": len(cross), "valid_struct_terms": len(valid), "mutated_struct_terms": len(muts),
                        "wrapper_round_trips": len(by.get("wrapper", [])), "builder_cases": len(by.get("builder", [])), "proplists": len(by.get("proplist", [])), "proplist_cases_from_spec": len(props), "builder_call_sequences_from_spec": len(bcases)}
    v.cov["rule"] = ("ranges: first, last in {min..min+5, -3..3, max-5..max} (same anchor), step in {-3..3 \\ {0}... incl. 0, min, max}; len / size_hint / is_empty / first 40 iterated elements / membership of "
                     "every element and of neighbours compared with Elixir.tla; struct terms: from_term on the built term and on decode(spec encoding); distinct = record")
    v.assumptions += ["TLC integers are 32-bit: same-anchor arithmetic is exact in the spec, the six cross-anchor rows were derived by hand and are checked for internal consistency by Python big integers",
                      "wrappers holding arbitrary terms are compared at value level after the wire (an integer may come back in big-integer representation), as in C01",
                      "date-time, map-set, exception and builder round trips use a fixed list of boundary values written in the harness, not a TLC-enumerated universe",
                      "derived struct mappings (ElixirStruct derive) are exercised by C15's universe"]
    return v.finish()


def replay(path, seed):
    rp = json.load(open(path))
    for viol in rp["violations"][:20]:
        lib.log("replay:", viol["what"], json.dumps(viol["case"])[:800])
    lib.log(f"VIOLATION property={PID} replay={path}")
    return 1
