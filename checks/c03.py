"""C03 — every valid external encoding of a value decodes to exactly that value.
Spec: spec/Etf.tla (Alts / AltsDeep / CompressedAlts give every admissible encoding of each node)."""
import json, os
import lib, etf_common as E

PID = "C03"


def candidates(val, why, d):
    """finding ids whose input class contains this case AND whose deviation signature matches the observation"""
    out = []
    if d.get("ok") is False and "panic" not in d:
        if "NEW_PORT_EXT" in why:
            out.append("C03-newport")
        if "(Latin-1 bytes >= 128)" in why:
            out.append("C03-latin1")
    return out


def judge_decode(v, val, why, d, case):
    if not d["ok"]:
        what = f"a valid encoding was rejected" + (" with a panic" if "panic" in d else "")
        v.classify(what, {**case, "why": why, "dec": d}, candidates(val, why, d))
        return
    if lib.same_value(d["den"], val):
        return
    c = {**case, "why": why, "decoded": E.short(d["den"], 500)}
    if E.has_numeric_twin_keys(val) and merged_only(val, d["den"]):
        v.classify("map entries whose keys are numerically equal were merged", c, ["C03-mapmerge"])
    else:
        v.violation("a valid encoding decoded to a different value", c)


def merged_only(val, den):
    """deviation signature of C03-mapmerge: the decoded value equals the expected one except that, in maps
    with numerically-equal distinct keys, entries of such keys were merged (decoded entries are a subset by key
    class, one entry per numeric class, key = one of the twins, value = one of the twins' values)."""
    if val.get("k") != den.get("k"):
        return False
    k = val.get("k")
    if k == "map":
        exp, got = val["kv"], den["kv"]
        if len(got) > len(exp):
            return False

        def key_match(ek, gk):
            return lib.same_value(ek, gk) or (E.is_number(ek) and E.is_number(gk) and E.num_value(ek) == E.num_value(gk)) \
                or (isinstance(ek, dict) and isinstance(gk, dict) and ek.get("k") == gk.get("k") and ek.get("k") in ("map", "tuple", "list", "fun") and merged_only(ek, gk))

        def val_match(ev, gv):
            return lib.same_value(ev, gv) or (isinstance(gv, dict) and isinstance(ev, dict) and merged_only(ev, gv))
        def num_class(k1, k2):
            return lib.same_value(k1, k2) or (E.is_number(k1) and E.is_number(k2) and E.num_value(k1) == E.num_value(k2))
        # every decoded entry: its key is one of the expected keys (up to merging inside it), its value one of the
        # values of the expected entries in the key's numeric class
        for gk, gv in got:
            cls = [i for i, (ek, ev) in enumerate(exp) if key_match(ek, gk)]
            if not cls:
                return False
            if not any(val_match(exp[i][1], gv) for i in cls):
                return False
        # every expected entry survives as, or was merged into, a decoded entry of its numeric class
        for ek, ev in exp:
            if not any(key_match(ek, gk) for gk, gv in got):
                return False
        # no two decoded keys in one numeric class beyond what the value has
        return True
    if k in ("tuple",):
        return len(val["e"]) == len(den["e"]) and all(lib.same_value(a, b) or merged_only(a, b) for a, b in zip(val["e"], den["e"]))
    if k == "list":
        return len(val["e"]) == len(den["e"]) and all(lib.same_value(a, b) or merged_only(a, b) for a, b in zip(val["e"], den["e"])) \
            and (lib.same_value(val["t"], den["t"]) or merged_only(val["t"], den["t"]))
    if k == "fun":
        return len(val["free"]) == len(den["free"]) and all(lib.same_value(a, b) or merged_only(a, b) for a, b in zip(val["free"], den["free"]))
    return False


def history(v, obs):
    """the last record of the run: every vector decoded again after a history of rejected inputs on the same thread"""
    h = [o for o in obs if o["id"] == "__history__"]
    if len(h) != 1 or h[0]["rejected_inputs_fed"] < 1000:
        raise lib.ToolError("history phase of the harness did not run")
    v.case("history")
    for c in h[0]["changed"]:
        v.violation("decoding is not a function of the bytes: after a history of rejected inputs (too deeply nested terms, truncations, oversized counts) on the same thread "
                    "a valid encoding decodes differently than before", c)
    if h[0]["concurrent_failures"]:
        v.violation("decoding depends on what other threads decode at the same time: a 100-level term that decodes on its own failed while seven other threads decoded the same term",
                    {"threads": 8, "decodes_per_thread": 300, "failed": h[0]["concurrent_failures"]})
    v.cov["vectors_decoded_again_after_rejected_inputs"] = h[0]["vectors"]
    return [o for o in obs if o["id"] != "__history__"]


def big_compressed(seed, thorough, first_id):
    """COMPRESSED sections far beyond the table of Etf!Deflated (zlib itself is outside the specification: the table pairs a stream with the plain
    bytes it stands for): binaries of 1 000 .. 70 000 (thorough: 200 000) bytes that compress well, badly and not at all, deflated at levels 0 (stored
    blocks: the stream is longer than the data), 1, 6 and 9, alone and inside a tuple.  The value is known by construction."""
    import random, struct, zlib
    rng = random.Random(seed)
    out = []
    sizes = [1000, 32767, 32768, 33000, 40000, 70000] + ([131072, 200000] if thorough else [])
    for n in sizes:
        for kind in ("random", "zeros", "pattern"):
            data = bytes(rng.getrandbits(8) for _ in range(n)) if kind == "random" else bytes(n) if kind == "zeros" else bytes((i * 7 + i // 251) % 256 for i in range(n))
            for wrapped in (False, True):
                plain = bytes([109]) + struct.pack(">I", n) + data
                val = {"k": "bin", "b": list(data)}
                if wrapped:
                    plain = bytes([104, 2, 119, 2, 111, 107]) + plain
                    val = {"k": "tuple", "e": [{"k": "atom", "b": [111, 107]}, val]}
                alts = [{"why": f"COMPRESSED: {kind} data of {n} bytes, deflate level {lvl}, stream of {len(z)} bytes", "bytes": [131, 80] + list(struct.pack(">I", len(plain))) + list(z)}
                        for lvl in (0, 1, 6, 9) for z in [zlib.compress(plain, lvl)]]
                out.append({"id": first_id + len(out), "v": val, "enc": [131] + list(plain), "alts": alts})
    return out


def run(tier, seed):
    v = lib.Verdict(PID, tier, seed, "exploration")
    thorough = tier == "thorough"
    _, vp, recs, unenc = E.check_and_gen(PID, "D2" if thorough else "D1", "D2", True, thorough)
    recs = recs + big_compressed(seed, thorough, max(r["id"] for r in recs) + 100001)
    recs_only = os.path.join(lib.outdir(PID), "vectors_only.ndjson")
    lib.write_ndjson(recs_only, recs)
    obs = E.run_obs(PID, recs_only, {"borrowed": False, "seed": seed, "history": True})
    obs = history(v, obs)
    by_id = {r["id"]: r for r in recs}
    n_alts = 0
    whys = {}
    for o in obs:
        rec = by_id[o["id"]]
        val = rec["v"]
        case = {"value": E.short(val, 500)}
        # canonical encoding from the spec
        v.case("canon" + json.dumps(val))
        judge_decode(v, val, "canonical (spec encoder)", o["dec_spec"], {**case, "bytes": rec["enc"][:120]})
        # trailing bytes
        t = o["trailing"]
        if t["accepted"] or t["panic"]:
            v.violation("bytes remaining after one complete term were not reported as an error", {**case, "bytes": rec["enc"][:120] + [0]})
        wt = t["with_trailing"]
        if not wt.get("ok") or wt.get("rest") != 1:
            if o["dec_spec"]["ok"]:
                v.violation("decode_with_trailing did not return the term and the one remaining byte", {**case, "obs": wt})
        for alt, ao in zip(rec["alts"], o["alts"]):
            n_alts += 1
            why = alt["why"]
            wk = why.split(": ")[-1]
            whys[wk] = whys.get(wk, 0) + 1
            v.case(json.dumps(alt["bytes"]))
            judge_decode(v, val, why, ao["dec"], {**case, "bytes": alt["bytes"][:160]})
            if ao["dec"]["ok"] and "trail_accepted" in ao:
                if ao["trail_accepted"]:
                    v.violation("bytes remaining after one complete term were not reported as an error", {**case, "encoding": why, "bytes": alt["bytes"][:160] + [0]})
                elif ao["trail_rest"] != 1:
                    v.violation("decode_with_trailing did not hand back the one remaining byte", {**case, "encoding": why, "bytes": alt["bytes"][:160] + [0], "rest": ao["trail_rest"]})
            if whys[wk] <= 1:
                v.sample({"value": E.short(val, 100), "alternative": why, "bytes": alt["bytes"][:40]})
    v.cov["alternative_encodings"] = n_alts
    v.cov["alternatives_by_kind"] = whys
    v.cov["rule"] = ("for every value of EtfUniverse!D2 the spec's canonical encoding and every member of AltsDeep (another admissible tag at the root "
                     "or at exactly one child: INTEGER/SMALL_BIG/LARGE_BIG incl. zero-padded, FLOAT_EXT, 4 atom tags, STRING_EXT, nested LIST_EXT tails, "
                     "LARGE_TUPLE, BIT_BINARY bits=8, PID/PORT/NEW_PORT/REFERENCE/NEW_REFERENCE, LOCAL_EXT wrapping, COMPRESSED) is decoded by the library "
                     "and projected; distinct = distinct byte strings")
    v.assumptions += ["spec/Etf.tla transcribes the External Term Format (self-check MC_Etf: all alternatives parse back to their value in the TLA+ parser)",
                      "FLOAT_EXT texts and zlib streams come from python (checks/tables.py)", "harness denote projection"]
    return v.finish()


def replay(path, seed):
    rp = json.load(open(path))
    for viol in rp["violations"][:20]:
        lib.log("replay:", viol["what"], json.dumps(viol["case"])[:800])
    lib.log(f"VIOLATION property={PID} replay={path}")
    return 1
