"""C04 — handshake: connected only after cookie proof; flags are the intersection; layouts.
Spec: spec/Handshake.tla.  Layer 1: API state machine model-checked by TLC, every transition replayed on
HandshakeStateMachine (B2).  Layer 2: every peer script against the real Connection::connect over TCP
(fake EPMD through the guarded port override), wire transcript compared with the spec's layouts and an
independent MD5."""
import hashlib, json, os
import lib

PID = "C04"
TIMEOUT_MS = 250


def md5_digest(cookie, chal):
    return list(hashlib.md5(bytes(cookie) + str(chal).encode()).digest())


def run(tier, seed):
    v = lib.Verdict(PID, tier, seed, "model_checking")
    thorough = tier == "thorough"
    mc = lib.tlc_expect_ok("mc/MC_Handshake.tla", "mc/MC_Handshake.cfg" if thorough else "mc/MC_Handshake_quick.cfg", PID, "mc", env={"MODE": "mc"})
    lib.tlc_expect_violation("mc/MC_Handshake.tla", "mc/MC_Handshake_noclear.cfg", PID, "mc_noclear", "ProofBeforeConnected", env={"MODE": "mc"})
    v.cov["states"], v.cov["transitions"] = mc.distinct, mc.generated
    v.cov["mc_configs"] = [{"cfg": "MC_Handshake", "distinct": mc.distinct, "generated": mc.generated, "result": "ProofBeforeConnected, ProofIsFresh, NegotiatedOnlyAfterChallenge hold for all call sequences"},
                           {"cfg": "MC_Handshake_noclear", "result": "counterexample to ProofBeforeConnected when disconnect keeps the challenge (as expected)"}]
    sp = os.path.join(lib.outdir(PID), "scripts.ndjson")
    pp = os.path.join(lib.outdir(PID), "params.ndjson")
    fp = os.path.join(lib.outdir(PID), "families.ndjson")
    r = lib.tlc("mc/MC_Handshake.tla", "gen/Gen_Handshake.cfg", PID, "gen", workers=1, env={"MODE": "scripts", "OUT": sp, "OUT_PARAMS": pp, "OUT_FAM": fp})
    edges = r.printed()
    if r.rc != 0 or not edges:
        raise lib.ToolError("handshake emitter failed")
    params = lib.read_ndjson(pp)
    scripts = lib.read_ndjson(sp)
    ep = os.path.join(lib.outdir(PID), "edges.ndjson")
    lib.write_ndjson(ep, edges)
    # ---- layer 1: API edges on every parameter set
    n = 0
    paths_total = 0
    for pi, p in enumerate(params):
        op = os.path.join(lib.outdir(PID), f"edges_obs_{pi}.ndjson")
        rc, out = lib.harness(["hs-edges", ep, op, json.dumps(p)])
        stats = json.loads(out.strip().splitlines()[-1])
        if stats["reached"] != stats["states"]:
            raise lib.ToolError("edge replay did not reach every model state")
        obs_all = lib.read_ndjson(op)
        # every call sequence up to 4 (thorough: 5) calls, not only one access path per model state: steps whose
        # observation differs from the access-path observation of the same model edge are judged as well
        pp_ = os.path.join(lib.outdir(PID), f"paths_obs_{pi}.ndjson")
        rc, out = lib.harness(["hs-paths", ep, pp_, json.dumps(p), "5" if thorough or pi == 0 else "4"])
        paths_total += json.loads(out.strip().splitlines()[-1])["paths"]
        diff = lib.read_ndjson(pp_)
        for o in diff:
            v.add_drift("the handshake state machine's observable behaviour depends on the call path to a model state", {"calls_before": o["path"], "call": o["act"]})
        for o in obs_all + diff:
            n += 1
            act, exp, got = o["act"], o["retA"], o["obs_ret"]
            v.case(json.dumps([pi, o["model_from"], act]))
            case = {"param_set": pi, "calls_before": o["path"], "call": act}
            if got.get("panic"):
                v.violation("handshake state machine panicked", case)
                continue
            if got["connected"] and not exp["proof"]:
                v.violation("connected state reached without the peer having proved knowledge of the cookie for the challenge of this handshake", {**case, "obs": got})
            if act["name"] == "handle_challenge_ack" and act["class"] in ("right", "right_extra_bytes") and exp["proof"] and not got["connected"]:
                if act["class"] == "right":
                    v.violation("a correct challenge ack did not lead to the connected state", {**case, "obs": got})
                else:
                    v.add_drift("ack with trailing bytes is rejected (outcome left open by the statement)", case)
            if act["name"] == "handle_challenge" and act["class"] == "good":
                if got["neg"] != p["layouts"]["negotiated"]:
                    v.violation("negotiated flags are not the intersection of both sides' flags", {**case, "expected": p["layouts"]["negotiated"], "got": got["neg"]})
            if act["name"] == "prepare_send_name" and got["bytes"] != p["layouts"]["send_name"]:
                v.violation("send_name message does not have the protocol's byte layout", {**case, "expected": p["layouts"]["send_name"], "got": got["bytes"]})
            if act["name"] == "prepare_complement" and got["bytes"] != p["layouts"]["complement"]:
                v.violation("complement message does not have the protocol's byte layout", {**case, "expected": p["layouts"]["complement"], "got": got["bytes"]})
            if act["name"] == "prepare_challenge_reply" and got["bytes"] is not None:
                b = got["bytes"]
                chal = int.from_bytes(bytes(p["peer_challenge"]), "big")
                if b[:3] != p["layouts"]["reply_head"] or len(b) != 23 or b[7:] != md5_digest(p["cookie"], chal):
                    v.violation("challenge reply does not carry the digest of the cookie and the peer's challenge in the protocol's layout", {**case, "got": b})
            if got["state"] != o["retI"]["state"]:
                v.add_drift(f"state name {got['state']} vs implementation layer {o['retI']['state']}", case)
            if (exp["ret"] == "err") != (got["ret"] == "err") and act["class"] not in ("good_extra_bytes", "right_extra_bytes"):
                v.add_drift(f"call result {got['ret']} vs model {exp['ret']}", case)
    v.cov["traces_validated_against_impl"] = n
    v.cov["call_paths_walked_on_impl"] = paths_total
    # ---- message families: every member of a message class is handled like the class's representative (the one the transitions above use)
    fam = lib.read_ndjson(fp)
    fo = os.path.join(lib.outdir(PID), "family_obs.ndjson")
    lib.harness(["hs-family", fp, pp, fo], timeout=600)
    fobs = lib.read_ndjson(fo)
    if len(fobs) != len(fam) * len(params):
        raise lib.ToolError("family runner returned too few observations")
    accepted = {("status", "ok"), ("status", "ok_simultaneous"), ("challenge", "good"), ("ack", "right")}
    for o in fobs:
        f = fam[o["i"]]
        v.case("family" + json.dumps([o["param"], o["i"]]))
        what = {k: (x if not isinstance(x, list) or len(x) <= 80 else x[:80] + ["..."]) for k, x in f.items()}
        case = {"param_set": o["param"], "message": what, "handled_as": o["member"], "class_representative_handled_as": o["representative"]}
        if o["representative"].get("panic") or ((f["msg"], f["class"]) in accepted) != (o["representative"].get("ret") == "ok") and f["class"] not in ("good_extra_bytes", "right_extra_bytes"):
            # (the model's transitions say which classes are accepted; the edge replay above judges the same call in every state)
            v.violation("a handshake message of class %s / %s is not handled as the model says (accepted exactly: status ok / ok_simultaneous, a good challenge, the right acknowledgement)" % (f["msg"], f["class"]), case)
            continue
        if o["member"].get("panic"):
            v.violation("a handshake message made its handler panic", case)
        elif o["member"] != o["representative"]:
            v.violation("a handshake message is not handled like the other messages of its class (result, state or negotiated flags differ)", case)
    v.cov["family_members_run"] = len(fobs)
    # ---- layer 2: scripted peer over TCP
    use_params = params if thorough else params[:2]
    pp2 = os.path.join(lib.outdir(PID), "params_used.ndjson")
    lib.write_ndjson(pp2, use_params)
    wo = os.path.join(lib.outdir(PID), "wire_obs.ndjson")
    lib.harness(["hs-wire", sp, wo, pp2, TIMEOUT_MS], timeout=2400)
    by_script = {json.dumps(s["script"]): s for s in scripts}
    wn = 0
    for o in lib.read_ndjson(wo):
        wn += 1
        s = by_script[json.dumps(o["script"])]
        p = use_params[o["param"]]
        v.case("wire" + json.dumps([o["param"], o["script"]]))
        case = {"param_set": o["param"], "peer_script": o["script"], "result": o.get("result"), "elapsed_ms": o.get("elapsed_ms")}
        if "panic" in o:
            v.violation("Connection::connect panicked", {**case, "panic": o["panic"]})
            continue
        if s["expect"] == "connected":
            if not o["ok"]:
                if s["open"]:
                    v.add_drift("handshake with trailing bytes after a well-formed message is refused (left open)", case)
                else:
                    v.violation("conforming peer: handshake did not reach the connected state", case)
            else:
                if o["state"] != "connected":
                    v.violation("connect returned Ok but the state is not connected", case)
                if o["neg"] != p["layouts"]["negotiated"]:
                    v.violation("negotiated flags are not the intersection of both sides' flags", {**case, "expected": p["layouts"]["negotiated"], "got": o["neg"]})
        else:
            if o["ok"] or o["state"] == "connected":
                v.violation("handshake reached the connected state although the peer deviated", case)
            if o["elapsed_ms"] > 4 * TIMEOUT_MS + 400:
                v.violation("deviating peer: no error within the configured timeout", case)
        # wire transcript as seen by the peer: frames are payloads (length prefix stripped by the peer's reader)
        seen = o["peer"].get("seen", [])
        if seen:
            if [0, len(seen[0])] + seen[0] != p["layouts"]["send_name"] and (len(seen[0]) // 256, len(seen[0]) % 256) is not None:
                exp = p["layouts"]["send_name"]
                if seen[0] != exp[2:]:
                    v.violation("send_name on the wire does not have the protocol's byte layout", {**case, "expected": exp, "got": seen[0]})
        for f in seen[1:]:
            if f and f[0] == 99 and f != p["layouts"]["complement"][2:]:
                v.violation("complement on the wire does not have the protocol's byte layout", {**case, "got": f})
            if f and f[0] == 114:
                chal = int.from_bytes(bytes(p["peer_challenge"]), "big")
                if len(f) != 21 or f[5:] != md5_digest(p["cookie"], chal):
                    v.violation("challenge reply on the wire does not carry MD5(cookie ++ peer challenge)", {**case, "got": f})
        if wn % 40 == 1:
            v.sample({"peer_script": o["script"], "result": o.get("result"), "elapsed_ms": o.get("elapsed_ms")})
    v.cov["wire_scripts_run"] = wn
    v.cov["exhaustive"] = True
    v.cov["rule"] = ("layer 1: every transition of the API model (8 methods x message classes incl. stale / wrong / truncated / mis-tagged arguments, reuse after disconnect) "
                     "replayed on HandshakeStateMachine from its source state, for 4 parameter sets (empty / 300-byte non-ASCII cookies, 250-byte and UTF-8 names, all-ones / zero / "
                     "random 64-bit flags, challenges 0, 2^31, 2^32-1); layer 2: all 85 peer scripts (each deviation at each of the peer's three turns) x 2 (quick) / 4 parameter sets "
                     "against Connection::connect over TCP; distinct = (parameter set, state, call) and (parameter set, script)")
    v.assumptions += ["MD5 itself is uninterpreted in the spec; digests are checked with python hashlib and an RFC 1321 transcription in the harness",
                      "handshake layouts transcribed from the distribution protocol document"]
    return v.finish()


def replay(path, seed):
    rp = json.load(open(path))
    for viol in rp["violations"][:20]:
        lib.log("replay:", viol["what"], json.dumps(viol["case"])[:800])
    lib.log(f"VIOLATION property={PID} replay={path}")
    return 1
