"""C07 — each send operation emits exactly one well-formed frame with the right content.
Spec: spec/Connection.tla (lock + partial writes, model-checked), spec/Control.tla + spec/Etf.tla +
spec/DistHeader.tla as the independent reader of the wire (Parse_Wire).  Single task: every operation
x argument class x both framing modes; concurrent: several tasks through one Node incl. the weakened
spec's adversarial schedule (a task parked between the partial writes of its frame)."""
import json, os
import lib, tables, etf_common as E

PID = "C07"


def reduce_big(v, f, op, mode):
    """a summarised big frame (body without the length prefix: head, total length, trailing run of 7s) -> the same frame with a 3-byte
    binary as payload, after checking that the binary's length field and the frame length agree with the 6 MB that were sent"""
    n = op.get("inflate")
    head = f["head"]
    case = {"operation": op["op"], "mode": mode, "payload_bytes": n, "frame_bytes_read_by_peer": f["len"], "trailing_payload_bytes": f["run_of_7"]}
    if n is None or f["run_of_7"] < n:
        v.violation("a frame with a large payload arrived incomplete or with other content than was sent", case)
        return head[:40]
    cut = f["len"] - n                      # bytes before the payload's content
    if cut < 5 or cut > len(head) or head[cut - 5] != 109 or int.from_bytes(bytes(head[cut - 4:cut]), "big") != n:
        v.violation("the binary payload of a large frame is not announced with its length where the encoding puts it", {**case, "head": head[:64]})
        return head[:40]
    return head[:cut - 4] + [0, 0, 0, 3, 7, 7, 7]


def run(tier, seed):
    v = lib.Verdict(PID, tier, seed, "model_checking")
    thorough = tier == "thorough"
    tables.write(lib.ROOT)
    mc = lib.tlc_expect_ok("mc/MC_Connection.tla", "mc/MC_Connection.cfg" if thorough else "mc/MC_Connection_quick.cfg", PID, "mc")
    lib.tlc_expect_ok("mc/MC_Connection.tla", "mc/MC_Connection_unconnected.cfg", PID, "mc_unconnected")
    adv = lib.tlc_expect_violation("mc/MC_Connection.tla", "mc/MC_Connection_nolock.cfg", PID, "mc_nolock", "FramesIntact")
    lib.tlc_expect_violation("mc/MC_Connection.tla", "mc/MC_Connection_shortwrite.cfg", PID, "mc_shortwrite", "FramesIntact")
    v.cov["states"], v.cov["transitions"] = mc.distinct, mc.generated
    v.cov["mc_configs"] = [{"cfg": "MC_Connection_shortwrite", "result": "counterexample to FramesIntact when an operation may return after a short write (exercised on the real connection with 6 MB payloads)"},
                           {"cfg": "MC_Connection", "distinct": mc.distinct, "generated": mc.generated, "result": "FramesIntact, OrderPerTask, NoWriteBeforeConnected hold under every interleaving of the partial writes"},
                           {"cfg": "MC_Connection_nolock", "result": "counterexample to FramesIntact without the per-connection lock (schedule: second task starts writing while the first is between two writes)"}]
    # ---- single task: all operations
    op_path = os.path.join(lib.outdir(PID), "ops.ndjson")
    r = lib.tlc("gen/Gen_Conn.tla", "gen/Gen_Conn.cfg", PID, "gen", workers=1, env={"OUT": op_path})
    if r.rc != 0:
        raise lib.ToolError("operation generator failed")
    ops = lib.read_ndjson(op_path)
    # frames larger than the socket buffers (the kernel takes a write in pieces): the same operations with a 6 MB binary as payload;
    # what the peer reads is reduced to a 3-byte binary before it goes to the TLA+ reader
    BIG = 6 * 1024 * 1024
    small = {"k": "bin", "b": [7, 7, 7]}
    for proto in [o for o in ops if o["op"] == "send"][:1] + [o for o in ops if o["op"] == "send_to_name"][:1]:
        ops.append({**proto, "c": small, "payload": [small], "inflate": BIG})
    # around what a distribution header can list (255 atoms): payloads naming 245 .. 260 distinct atoms next to those of the control message.
    # Such a send may be refused (the library does not fall back to atoms written in place) -- then nothing may reach the wire --
    # or it is written, and then it must be readable like any other.
    for proto in [o for o in ops if o["op"] == "send"][:1] + [o for o in ops if o["op"] == "send_to_name"][:1]:
        for n in range(245, 261):
            lst = {"k": "list", "e": [{"k": "atom", "b": [97 + (i % 26), 48 + (i % 10), 65 + (i // 26)]} for i in range(n)], "t": {"k": "nil"}}
            ops.append({**proto, "c": lst, "payload": [lst], "may_fail": True})
    for i, o in enumerate(ops):
        o["id"] = i
    lib.write_ndjson(op_path, ops)
    obs_path = os.path.join(lib.outdir(PID), "send_obs.ndjson")
    lib.harness(["conn-send", op_path, obs_path], timeout=1200)
    obs = lib.read_ndjson(obs_path)
    if any("tool_error" in o for o in obs):
        raise lib.ToolError("connection harness could not connect to the scripted peer")
    inj = [o for o in obs if o.get("id") == -1]
    stalled = [o for o in obs if o.get("id") == -2]
    obs = [o for o in obs if o.get("id") not in (-1, -2)]
    if len(stalled) != 2:
        raise lib.ToolError("the stalled-peer scenario did not run in both modes")
    for o in stalled:
        v.case("stalled " + o["mode"])
        ok_ops = [i for i, r in enumerate(o["results"]) if r == "ok"]
        case = {"mode": o["mode"], "scenario": "the peer stops reading for 2.6 s (connection timeout 1.5 s) while a send with a 24 MiB payload is in progress, then a link and a small send follow",
                "operations_returned": o["results"], "whole_frames_read_by_the_peer": len(o["frames"]), "stream_ends_inside_a_frame": o["stream_ends_inside_a_frame"],
                "connection_state_afterwards": o["state_after"]}
        if len(o["frames"]) != len(ok_ops):
            v.violation("what the peer reads is not one whole frame per operation that reported success: an operation gave up between two writes of its frame "
                        "and the connection stayed usable, so the frames written after it are read as the rest of the torn one", case)
        v.cov.setdefault("stalled_peer", {})[o["mode"]] = {"returned": o["results"], "frames": len(o["frames"]), "state_after": o["state_after"]}
    if len(inj) != 2 or any(o["failed_operations_injected"] < 10 for o in inj):
        raise lib.ToolError(f"the operations meant to fail in the encoder did not fail: {inj}")
    v.cov["operations_issued_after_failed_ones"] = sum(1 for o in obs if o.get("after_failed_operations"))
    # frames -> TLA+ reader
    to_parse = []
    for j, o in enumerate(obs):
        for fi, f in enumerate(o["frames"]):
            if isinstance(f, dict):
                f = reduce_big(v, f, ops[o["id"]], o["mode"])
                o["frames"][fi] = f
            to_parse.append({"id": len(to_parse), "obs": j, "bytes": f})
    ip = os.path.join(lib.outdir(PID), "wire_in.ndjson")
    pp = os.path.join(lib.outdir(PID), "wire_out.ndjson")
    lib.write_ndjson(ip, [{"id": t["id"], "bytes": t["bytes"]} for t in to_parse])
    if os.path.exists(pp):
        os.remove(pp)
    pr = lib.tlc("gen/Parse_Wire.tla", "gen/Parse_Wire.cfg", PID, "parse", workers=2, env={"IN": ip, "OUT": pp})
    if pr.rc != 0 or not os.path.exists(pp):
        raise lib.ToolError("TLA+ wire reader failed")
    parsed = {p["id"]: p for p in lib.read_ndjson(pp)}
    by_obs = {}
    for t in to_parse:
        by_obs.setdefault(t["obs"], []).append(parsed[t["id"]])
    for j, o in enumerate(obs):
        op = ops[o["id"]]
        v.case(json.dumps([o["mode"], o.get("offer"), op["op"], op["b"], op["c"]])[:3000])
        case = {"operation": op["op"], "mode": o["mode"], "args": E.short([op["b"], op["c"]], 300)}
        if o.get("after_failed_operations"):
            case["issued_after"] = "two sends that fail (or may fail) in the encoder: over-long atom, 300 distinct atoms"
        if o.get("offer"):
            case["distribution_header_capability_offered_by"] = o["offer"]
        if o["mode"].startswith("refused:"):
            if o["connect_ok"]:
                raise lib.ToolError("the scripted refusal of the handshake was accepted by the connection")
            if o["result_ok"] or o["stray_bytes_on_the_wire"]:
                v.violation("an operation on a connection whose handshake was refused did not fail, or wrote to the wire", {**case, "returned_ok": o["result_ok"], "bytes_written": o["stray_bytes_on_the_wire"]})
            continue
        if o["mode"] == "unconnected":
            if o["result_ok"]:
                v.violation("an operation before the handshake completed did not fail", case)
            continue
        if not o["result_ok"]:
            if op.get("may_fail"):
                if by_obs.get(j) or o["frames"]:
                    v.violation("an operation that reported failure wrote to the wire", {**case, "err": o.get("err"), "frames": len(o["frames"])})
                continue
            v.violation("a send-side operation failed on a connected connection", {**case, "err": o.get("err")})
            continue
        frames = by_obs.get(j, [])
        if len(frames) != 1:
            if op.get("inflate") and not frames:
                v.violation("a frame with a 6 MB payload did not arrive whole: the peer could not read the number of bytes its length prefix announces", case)
            else:
                v.violation(f"the operation wrote {len(frames)} frames instead of exactly one", case)
            continue
        f = frames[0]
        raw = o["frames"][0]
        in_mode = (raw[:1] == [112]) if o["mode"] == "pass_through" else (raw[:2] == [131, 68])
        if not in_mode:
            v.violation("the frame is not in the framing mode that was negotiated (pass-through unless both sides offered the distribution header)", {**case, "frame_head": raw[:12]})
            continue
        if not f["ok"]:
            v.violation("the frame is not readable by an independent implementation of the protocol in the negotiated framing mode", {**case, "frame": o["frames"][0][:120]})
            continue
        want = [op["control"]] + op["payload"]
        if len(f["terms"]) != len(want) or not all(lib.same_value(a, b) for a, b in zip(f["terms"], want)):
            v.violation("the frame does not carry the control tuple the protocol assigns to the operation followed by the given payload and nothing else",
                        {**case, "expected": E.short(want, 400), "read": E.short(f["terms"], 400)})
        elif j % 60 == 0:
            v.sample({"operation": op["op"], "mode": o["mode"], "frame_head": o["frames"][0][:24]})
    # ---- concurrent senders through one Node
    scen = [{"tasks": 2, "per_task": 3, "gate": "send.after_len"}, {"tasks": 2, "per_task": 3, "gate": "send.after_control"},
            {"tasks": 3, "per_task": 8 if thorough else 4, "gate": ""}, {"tasks": 4, "per_task": 12 if thorough else 5, "gate": ""},
            # volume: callers that never give way between their sends, thousands of frames; read by the Python frame reader below, whose
            # frame prefix (length excluded: control message and its version byte) is the one the TLA+ reader accepted in the scenarios above
            {"tasks": 4, "per_task": 6000 if thorough else 1500, "gate": "", "yield": False, "volume": True},
            {"tasks": 8 if thorough else 6, "per_task": 2000 if thorough else 400, "gate": "", "yield": True, "volume": True}]
    for i, s in enumerate(scen):
        s["id"] = i
    cp = os.path.join(lib.outdir(PID), "conc.ndjson")
    co = os.path.join(lib.outdir(PID), "conc_obs.ndjson")
    lib.write_ndjson(cp, scen)
    lib.harness(["conn-conc", cp, co], timeout=1200)
    cobs = lib.read_ndjson(co)
    if len(cobs) != len(scen):
        raise lib.ToolError("concurrent sender harness did not complete")
    items = []
    for o in cobs:
        if scen[o["id"]].get("volume"):
            continue
        for n, f in enumerate(o["frames"]):
            items.append({"id": len(items), "obs": o["id"], "n": n, "bytes": f})
    ip2 = os.path.join(lib.outdir(PID), "conc_in.ndjson")
    pp2 = os.path.join(lib.outdir(PID), "conc_out.ndjson")
    lib.write_ndjson(ip2, [{"id": t["id"], "bytes": t["bytes"]} for t in items])
    if os.path.exists(pp2):
        os.remove(pp2)
    pr2 = lib.tlc("gen/Parse_Wire.tla", "gen/Parse_Wire.cfg", PID, "parse_conc", workers=2, env={"IN": ip2, "OUT": pp2})
    if pr2.rc != 0:
        raise lib.ToolError("TLA+ wire reader failed on the concurrent stream")
    parsed2 = {p["id"]: p for p in lib.read_ndjson(pp2)}
    traces = 0
    prefixes = set()        # what precedes the message term in a frame the TLA+ reader accepted as {SEND...} ++ message

    def msg_bytes(t, k, size):
        i = lambda n: [97, n] if n < 256 else [98] + list(n.to_bytes(4, "big"))
        return [131, 104, 3] + i(t) + i(k) + [109] + list(size.to_bytes(4, "big")) + [(t * 16 + k) % 256] * size

    def read_msg(b):
        """the message term {T, K, Binary} at the end of a frame -> (t, k, size) or None"""
        def rd_int(p):
            if b[p] == 97:
                return b[p + 1], p + 2
            if b[p] == 98:
                return int.from_bytes(bytes(b[p + 1:p + 5]), "big"), p + 5
            raise ValueError
        try:
            if b[:3] != [131, 104, 3]:
                return None
            t, p = rd_int(3)
            k, p = rd_int(p)
            if b[p] != 109:
                return None
            n = int.from_bytes(bytes(b[p + 1:p + 5]), "big")
            return (t, k, n) if b[p + 5:] == [(t * 16 + k) % 256] * n else None
        except (ValueError, IndexError):
            return None

    for o in cobs:
        s = scen[o["id"]]
        traces += 1
        if s.get("volume"):
            v.case("conc" + json.dumps(s))
            case = {"scenario": s}
            if not prefixes:
                raise lib.ToolError("no frame prefix learnt from the frames the TLA+ reader accepted")
            last, seen, bad = {}, set(), False
            for n, f in enumerate(o["frames"]):
                got = None
                for pre in prefixes:
                    if f[:len(pre)] == list(pre):
                        got = read_msg(f[len(pre):])
                if got is None or got[2] != ((got[0] * 37 + got[1] * 101) % 5) * 300 or (got[0], got[1]) in seen:
                    v.violation("a frame from concurrent senders is not one issued message behind the send control message (interleaved, altered or duplicated)", {**case, "frame_no": n, "bytes": f[:80]})
                    bad = True
                    break
                seen.add((got[0], got[1]))
                if last.get(got[0], 0) > got[1]:
                    v.violation("messages of one caller reached the peer out of the order in which it issued them", {**case, "task": got[0], "k": got[1], "after": last[got[0]], "frame_no": n})
                    bad = True
                    break
                last[got[0]] = got[1]
            if len(seen) != s["tasks"] * s["per_task"] and o["sent_ok"] >= s["tasks"] * s["per_task"] and not bad:
                v.violation("not every issued message arrived as one frame", {**case, "arrived": len(seen), "issued": s["tasks"] * s["per_task"]})
            continue
        v.case("conc" + json.dumps(s))
        case = {"scenario": s}
        if o["notes"]:
            v.add_drift("schedule could not be forced: " + "; ".join(o["notes"]), case)
        last = {}
        seen = set()
        for t in [x for x in items if x["obs"] == o["id"]]:
            p = parsed2[t["id"]]
            if not p["ok"] or len(p["terms"]) != 2:
                v.violation("bytes of different frames were interleaved on the wire (a frame from concurrent senders is not readable)", {**case, "frame_no": t["n"], "bytes": t["bytes"][:80]})
                break
            msg = p["terms"][1]
            try:
                tk = (msg["e"][0]["mag"] or [0])[0], (msg["e"][1]["mag"] or [0])[0]
                size = len(msg["e"][2]["b"])
            except Exception:
                v.violation("a frame from concurrent senders does not carry an issued message", {**case, "read": E.short(msg, 200)})
                break
            mb = msg_bytes(tk[0], tk[1], size)
            if t["bytes"][-len(mb):] == mb:
                prefixes.add(tuple(t["bytes"][:-len(mb)]))
            exp_size = ((tk[0] * 37 + tk[1] * 101) % 5) * 300
            if size != exp_size or tk in seen:
                v.violation("a frame from concurrent senders is altered or duplicated", {**case, "task": tk[0], "k": tk[1], "size": size})
            seen.add(tk)
            if last.get(tk[0], 0) > tk[1]:
                v.violation("messages of one caller reached the peer out of the order in which it issued them", {**case, "task": tk[0], "k": tk[1], "after": last[tk[0]]})
            last[tk[0]] = tk[1]
        if len(seen) != s["tasks"] * s["per_task"] and o["sent_ok"] + (2 if s["gate"] else 0) >= s["tasks"] * s["per_task"]:
            v.violation("not every issued message arrived as one frame", {**case, "arrived": len(seen), "issued": s["tasks"] * s["per_task"]})
        b = o.get("blocked")
        if s["gate"] and b:
            if b["t2_reached_a_write_point"] or b["complete_frames_seen_meanwhile"] > 0:
                v.add_drift("a second sender got to write while the first was parked inside its frame (the adversarial schedule was feasible)", {**case, "obs": b})
        v.sample({"scenario": s, "frames": len(o["frames"]), "second_sender_blocked": b})
    v.cov["traces_validated_against_impl"] = traces + len(obs)
    v.cov["operations"] = len(ops)
    v.cov["rule"] = ("single task: 120 operations (send / send_to_name x 12 payloads, link, unlink x 7 ids over the 64-bit range, monitor, demonitor; pids and references incl. node-local form, "
                     "names of 0 / 255 bytes / UTF-8) x pass-through and distribution-header mode, each frame read by the TLA+ reader and compared with the control tuple from Control.tla; "
                     "unconnected connection; concurrent: 2-4 tasks x 3-12 messages through one Node, incl. a sender parked after the length / after the control term while a second sender "
                     "tries to write; distinct = (mode, operation, arguments) and scenarios")
    v.assumptions += ["at Node level only pass-through frames occur (the node does not negotiate distribution headers); header mode is exercised at Connection level",
                      "partial-write interleavings are forced at the two guarded hook points of the pass-through path"]
    return v.finish()


def replay(path, seed):
    rp = json.load(open(path))
    for viol in rp["violations"][:20]:
        lib.log("replay:", viol["what"], json.dumps(viol["case"])[:800])
    lib.log(f"VIOLATION property={PID} replay={path}")
    return 1
