"""Shared machinery of ./check: TLC runner, harness builder/runner, known-findings classifier,
evidence writer, verdict/exit-code protocol.  Stdlib only."""
import json, os, re, subprocess, sys, time, hashlib, shutil

ROOT = os.path.dirname(os.path.dirname(os.path.abspath(__file__)))
SPEC = os.path.join(ROOT, "spec")
# development aid (tools/try_seed_iso.sh): VERIF_OUT relocates out/ and evidence/, VERIF_HARNESS_DIR points at a copy of harness/ whose
# path dependencies name a scratch copy of the repository, so that a seeded change can be tried while /repo itself stays untouched.
# Registered commands never set them.
OUT = os.environ.get("VERIF_OUT") or os.path.join(ROOT, "out")
EVID = os.path.join(os.environ["VERIF_OUT"], "evidence") if os.environ.get("VERIF_OUT") else os.path.join(ROOT, "evidence")
HARNESS_DIR = os.environ.get("VERIF_HARNESS_DIR") or os.path.join(ROOT, "harness")
TLA_CP = "/opt/veriftools/tla/tla2tools.jar:/opt/veriftools/tla/CommunityModules-deps.jar"


class ToolError(Exception):
    pass


def log(*a):
    print(*a, flush=True)


def outdir(pid, *sub):
    d = os.path.join(OUT, pid, *sub)
    os.makedirs(d, exist_ok=True)
    return d


# ---------------------------------------------------------------------------------- TLC
class TlcResult:
    def __init__(self, rc, text, wall):
        self.rc, self.text, self.wall = rc, text, wall
        m = re.search(r"(\d+) states generated, (\d+) distinct states found", text)
        self.generated = int(m.group(1)) if m else 0
        self.distinct = int(m.group(2)) if m else 0
        self.violated = re.findall(r"Error: Invariant (\S+) is violated", text)
        self.violated += re.findall(r"Error: Action property (\S+) is violated", text)
        if "Temporal properties were violated" in text:
            self.violated.append("temporal")
        self.ok = (rc == 0 and "Model checking completed. No error has been found." in text)
        self.assume_failed = "Assumption" in text and "is false" in text
        self.postcondition_failed = "Postcondition" in text or "POSTCONDITION" in text and "violated" in text

    def printed(self):
        """Values printed with PrintT(ToJson(x)): a quoted, escaped JSON string per line."""
        res = []
        for line in self.text.splitlines():
            if line.startswith('"{') or line.startswith('"['):
                try:
                    res.append(json.loads(json.loads(line)))
                except Exception:
                    pass
        return res


def tlc(spec_rel, cfg_rel, pid, tag, workers=8, env=None, timeout=1800, extra=(), deadlock=False,
        simulate=None, heap=None):
    """Run TLC on SPEC/spec_rel with SPEC/cfg_rel. Returns TlcResult. Raises ToolError on
    parse errors / timeouts."""
    meta = outdir(pid, "tlc", tag)
    shutil.rmtree(meta, ignore_errors=True)
    os.makedirs(meta, exist_ok=True)
    spec_path = os.path.join(SPEC, spec_rel)
    cmd = ["java", "-Xss1g", "-XX:+UseParallelGC"]
    if heap:
        cmd.append("-Xmx" + heap)
    cmd += ["-DTLA-Library=" + SPEC + os.pathsep + os.path.join(SPEC, "gen") + os.pathsep + os.path.join(SPEC, "trace")
            + os.pathsep + os.path.join(SPEC, "mc"),
            "-Dtlc2.tool.queue.IStateQueue=StateDeque" if tag.startswith("trace") else "-Dverif=1",
            "-cp", TLA_CP, "tlc2.TLC", "-workers", str(workers), "-metadir", meta, "-noGenerateSpecTE",
            "-config", os.path.join(SPEC, cfg_rel)]
    if simulate:
        cmd += ["-simulate", simulate]
    cmd += list(extra)
    cmd += [spec_path]
    e = dict(os.environ)
    e.pop("JAVA_TOOL_OPTIONS", None)
    if env:
        e.update({k: str(v) for k, v in env.items()})
    t0 = time.time()
    try:
        p = subprocess.run(cmd, cwd=os.path.dirname(spec_path), env=e, stdout=subprocess.PIPE,
                           stderr=subprocess.STDOUT, timeout=timeout)
    except subprocess.TimeoutExpired:
        raise ToolError(f"TLC timed out after {timeout}s on {spec_rel} / {cfg_rel}")
    text = p.stdout.decode("utf-8", "replace")
    with open(os.path.join(OUT, pid, f"tlc_{tag}.log"), "w") as f:
        f.write(text)
    shutil.rmtree(meta, ignore_errors=True)
    r = TlcResult(p.returncode, text, time.time() - t0)
    if "Parsing or semantic analysis failed" in text or "Fatal errors while parsing" in text \
            or "***Parse Error***" in text or "TLC threw an unexpected exception" in text and "Assumption" not in text:
        raise ToolError(f"TLC could not run {spec_rel} / {cfg_rel}: see out/{pid}/tlc_{tag}.log\n" + text[-1500:])
    return r


def tlc_expect_ok(spec_rel, cfg_rel, pid, tag, **kw):
    r = tlc(spec_rel, cfg_rel, pid, tag, **kw)
    if not r.ok:
        raise ToolError(f"model check {cfg_rel} did not pass (design-level refinement is expected to hold): "
                        f"violated={r.violated} rc={r.rc}; see out/{pid}/tlc_{tag}.log")
    return r


def tlc_expect_violation(spec_rel, cfg_rel, pid, tag, inv, **kw):
    """A weakened / as-coded configuration must produce a counterexample to `inv` (non-vacuity of
    the invariant and source of adversarial scenarios)."""
    r = tlc(spec_rel, cfg_rel, pid, tag, **kw)
    if inv not in r.violated:
        raise ToolError(f"{cfg_rel}: expected a counterexample to {inv}, TLC reported {r.violated or 'none'} "
                        f"(rc={r.rc}); the model no longer distinguishes this switch")
    return r


# ---------------------------------------------------------------------------------- harness
_built = {}


def build_harness(release=True):
    """release: True (harness release profile) | False (debug) | "asrepo" (the release settings of the workspace under test:
    opt-level 3, lto, one codegen unit -- stack use is measured under the settings the crates ship with)"""
    if release is True and os.environ.get("VERIF_HARNESS_PROFILE"):
        release = os.environ["VERIF_HARNESS_PROFILE"]          # e.g. "checked": overflow checks and debug assertions on (exploration, DESIGN 10.4)
    key = release if isinstance(release, str) else ("release" if release else "debug")
    if key in _built:
        return _built[key]
    t0 = time.time()
    cmd = ["cargo", "build", "--offline", "--quiet"] + (["--profile", key] if isinstance(release, str) else ["--release"] if release else [])
    env = dict(os.environ)
    env["CARGO_NET_OFFLINE"] = "true"
    p = subprocess.run(cmd, cwd=HARNESS_DIR, env=env, stdout=subprocess.PIPE, stderr=subprocess.STDOUT)
    if p.returncode != 0:
        raise ToolError("harness build failed (the code under test no longer compiles with the hooks on?):\n"
                        + p.stdout.decode("utf-8", "replace")[-4000:])
    path = os.path.join(HARNESS_DIR, "target", key, "harness")
    _built[key] = path
    log(f"[build] harness ({key}) built in {time.time()-t0:.1f}s")
    return path


def harness(args, timeout=900, env=None, release=True, check=True, stdin=None):
    """Run a harness subcommand. Returns (rc, stdout_text). A non-zero rc is a tool error unless
    check=False (the caller then interprets signals/aborts as data about the code under test)."""
    exe = build_harness(release)
    e = dict(os.environ)
    if env:
        e.update({k: str(v) for k, v in env.items()})
    try:
        p = subprocess.run([exe] + [str(a) for a in args], cwd=ROOT, env=e, stdout=subprocess.PIPE,
                           stderr=subprocess.PIPE, timeout=timeout, input=stdin)
    except subprocess.TimeoutExpired:
        if check:
            raise ToolError(f"harness {args[0]} timed out after {timeout}s")
        return (-999, "")
    if check and p.returncode != 0:
        raise ToolError(f"harness {args} failed rc={p.returncode}:\n" + p.stderr.decode("utf-8", "replace")[-3000:])
    return (p.returncode, p.stdout.decode("utf-8", "replace"))


# ---------------------------------------------------------------------------------- ndjson
def write_ndjson(path, records):
    with open(path, "w") as f:
        for r in records:
            f.write(json.dumps(r, separators=(",", ":")))
            f.write("\n")


def read_ndjson(path):
    res = []
    with open(path) as f:
        for line in f:
            line = line.strip()
            if line:
                res.append(json.loads(line))
    return res


# ---------------------------------------------------------------------------------- abstract values
def norm(v):
    """Canonical form of an abstract value (Etf!Val as JSON): map entries sorted, hints dropped."""
    if isinstance(v, dict):
        k = v.get("k")
        if k == "map":
            kv = [[norm(p[0]), norm(p[1])] for p in v.get("kv", [])]
            kv.sort(key=lambda p: json.dumps(p[0], sort_keys=True))
            return {"k": "map", "kv": kv}
        return {kk: norm(vv) for kk, vv in v.items() if kk not in ("rep", "num_free", "wrap")}
    if isinstance(v, list):
        return [norm(x) for x in v]
    return v


def same_value(a, b):
    return json.dumps(norm(a), sort_keys=True) == json.dumps(norm(b), sort_keys=True)


# ---------------------------------------------------------------------------------- findings
def load_findings():
    with open(os.path.join(ROOT, "known_findings.json")) as f:
        return json.load(f)


class Verdict:
    """Collects per-case outcomes; decides exit code; writes evidence and replay files."""

    def __init__(self, pid, tier, seed, level):
        self.pid, self.tier, self.seed, self.level = pid, tier, seed, level
        self.t0 = time.time()
        self.findings = {f["id"]: f for f in load_findings()["findings"] if f["property"] == pid}
        self.known_hits = {}      # finding id -> count
        self.known_examples = {}
        self.violations = []      # dicts
        self.drift = []
        self.notes = []
        self.cov = {"evaluations": 0, "distinct_nontrivial": 0, "rule": "", "samples": []}
        self.assumptions = []
        self._distinct = set()

    # -- case accounting
    def case(self, key=None, nontrivial=True):
        self.cov["evaluations"] += 1
        if nontrivial and key is not None:
            h = hashlib.blake2b(key.encode() if isinstance(key, str) else key, digest_size=8).digest()
            self._distinct.add(h)

    def sample(self, s, limit=6):
        if len(self.cov["samples"]) < limit:
            self.cov["samples"].append(s)

    def known(self, fid, example=None):
        f = self.findings.get(fid)
        if f is None or f.get("status") != "open":
            return False
        self.known_hits[fid] = self.known_hits.get(fid, 0) + 1
        if example is not None and fid not in self.known_examples:
            self.known_examples[fid] = example
        return True

    def classify(self, what, case, dev_ids):
        """A property-level expectation failed on `case`. dev_ids: finding ids whose deviation
        switch predicts exactly the observed outcome (computed by the caller from the spec's
        implementation layer). If every one of them is an open finding, it is a KNOWN-FINDING;
        otherwise a VIOLATION."""
        dev_ids = [d for d in dev_ids if d]
        if dev_ids and all(self.findings.get(d, {}).get("status") == "open" for d in dev_ids):
            for d in dev_ids:
                self.known(d, {"what": what, "case": case})
            return "known"
        self.violation(what, case)
        return "violation"

    def violation(self, what, case):
        self.violations.append({"what": what, "case": case})

    def add_drift(self, what, case=None):
        if len(self.drift) < 50:
            self.drift.append({"what": what, "case": case})

    def note(self, s):
        self.notes.append(s)

    # -- finish
    def finish(self):
        self.cov["distinct_nontrivial"] = max(self.cov.get("distinct_nontrivial", 0), len(self._distinct))
        wall = time.time() - self.t0
        for fid, n in sorted(self.known_hits.items()):
            f = self.findings[fid]
            log(f"KNOWN-FINDING: property={self.pid} {fid}: {f['what']} ({n} cases this run)")
        for fid, f in sorted(self.findings.items()):
            if f.get("status") == "open" and fid not in self.known_hits:
                self.notes.append(f"open finding {fid} did not show on this run")
        for d in self.drift[:10]:
            log(f"DRIFT: property={self.pid} {d['what']}")
        for n in self.notes[:20]:
            log(f"NOTE: {n}")
        ev = {
            "property_id": self.pid, "tier": self.tier, "seed": self.seed, "level": self.level,
            "coverage": self.cov, "assumptions": self.assumptions, "wall_s": round(wall, 2),
            "violations": len(self.violations),
            "known_findings": {k: {"cases": v, "example": self.known_examples.get(k)} for k, v in self.known_hits.items()},
            "drift": self.drift[:20], "notes": self.notes[:40],
        }
        os.makedirs(EVID, exist_ok=True)
        # checks beyond the listed properties (ids X..) keep their evidence with their other output
        with open(os.path.join(EVID, f"{self.pid}.json") if not self.pid.startswith("X") else os.path.join(outdir(self.pid), "evidence.json"), "w") as f:
            json.dump(ev, f, indent=1, default=str)
        if self.violations:
            rp = os.path.join(outdir(self.pid), f"replay_{self.tier}_{self.seed}.json")
            with open(rp, "w") as f:
                json.dump({"property": self.pid, "tier": self.tier, "seed": self.seed,
                           "violations": self.violations[:200]}, f, indent=1, default=str)
            for v in self.violations[:5]:
                log(f"  violation: {v['what']}: {json.dumps(v['case'], default=str)[:600]}")
            log(f"VIOLATION property={self.pid} replay={rp}")
            return 1
        log(f"OK property={self.pid} tier={self.tier} evaluations={self.cov['evaluations']} "
            f"distinct={self.cov['distinct_nontrivial']} wall={wall:.1f}s")
        return 0
