"""C06 — receiving delivers each peer message exactly once, in order, and survives junk.
Spec: spec/gen/Gen_Recv.tla (frame-sequence model over the spec's own writers: Etf!Encode, DistHeader!MsgBytes,
protocol fragmentation) — scenarios sampled by TLC simulation; a scripted peer sends them over TCP with
arbitrary segmentation to a real Connection whose receive_message / receive_message_from_read_half is called."""
import json, os, random
import lib, tables, etf_common as E

PID = "C06"


def scenarios(mode, n, seed):
    r = lib.tlc("gen/Gen_Recv.tla", f"gen/Gen_Recv_{mode}.cfg", PID, f"gen_{mode}", workers=1, simulate=f"num={n}", extra=["-depth", "6", "-seed", str(seed)], timeout=1500)
    b = r.printed()
    if not b:
        raise lib.ToolError("no receive scenarios generated")
    return list({json.dumps(x["hist"]): x for x in b}.values()), r


def cache_scenarios(thorough, rng):
    """exhaustive three-frame histories over cache definitions / re-use in two segments; the ones where a re-use follows a
    definition of the same internal index in the other segment are always taken"""
    r = lib.tlc("gen/Gen_Recv.tla", "gen/Gen_Recv_cache.cfg", PID, "gen_cache", workers=4, timeout=900)
    b = list({json.dumps(x["hist"]): x for x in r.printed()}.values())
    reuse = [x for x in b if any(k[0].startswith("hdr_reuse") for k in x["hist"])]
    if not reuse:
        raise lib.ToolError("no cache re-use scenarios generated")

    def cross(x):
        h = x["hist"]
        return h[2][0].startswith("hdr_reuse") and not h[1][0].startswith("hdr_reuse") and (h[1][0] == "hdr_s3") != (h[2][0] == "hdr_reuse_s3") and h[1][1] != h[2][1]
    def across_junk(x):
        h = x["hist"]
        return h[1][0] in ("junk_truncated", "junk_badheader") and h[2][0].startswith("hdr_reuse") and not h[0][0].startswith("hdr_reuse") and h[0][1] == h[2][1] \
            and (h[0][0] == "hdr_s3") == (h[2][0] == "hdr_reuse_s3")
    first = [x for x in reuse if cross(x) or across_junk(x)]
    rest = [x for x in reuse if not (cross(x) or across_junk(x))]
    return first + (rest if thorough else rng.sample(rest, min(len(rest), 12))), r


def run(tier, seed):
    v = lib.Verdict(PID, tier, seed, "model_checking")
    thorough = tier == "thorough"
    rng = random.Random(seed)
    tables.write(lib.ROOT)
    hdr, r1 = scenarios("TRUE", 60 if thorough else 12, seed)
    pt, r2 = scenarios("FALSE", 60 if thorough else 12, seed)
    v.cov["states"] = max(1, r1.distinct + r2.distinct)
    v.cov["transitions"] = max(1, r1.generated + r2.generated)
    n_each = 400 if thorough else 55
    pick = lambda xs: rng.sample(xs, min(len(xs), n_each))
    scen = []
    cache, r3 = cache_scenarios(thorough, rng)
    v.cov["states"] += r3.distinct
    v.cov["transitions"] += r3.generated
    for s in cache:
        scen.append({**s, "cut": 0, "via_read_half": False})
    for s in pick(hdr) + pick(pt):
        for cut in ((0, 1, 13) if thorough else (0, rng.choice([1, 5, 13]))):
            scen.append({**s, "cut": cut, "via_read_half": False})
    # a malformed frame travelling between the fragments of a sequence costs its own error and nothing else: always taken
    between = [x for x in hdr if any(h[0] in ("frag2i", "frag3i") and j + 1 < len(x["hist"]) and x["hist"][j + 1][0].startswith("junk") for j, h in enumerate(x["hist"]))]
    for s in (between if thorough else rng.sample(between, min(len(between), 10))):
        scen.append({**s, "cut": 0, "via_read_half": False})
    # headers that list as many atoms as a header can (254 / 255 new entries, then the same message referring to them): Gen_RecvMany
    mp = os.path.join(lib.outdir(PID), "many.ndjson")
    rm = lib.tlc("gen/Gen_RecvMany.tla", "gen/Gen_RecvMany.cfg", PID, "gen_many", workers=1, env={"OUT": mp})
    if rm.rc != 0:
        raise lib.ToolError("Gen_RecvMany failed")
    for s in lib.read_ndjson(mp):
        for cut in (0, 13):
            scen.append({**s, "cut": cut, "via_read_half": False})
    # the node's own read loop (pass-through frames only)
    for s in pick(pt)[: (200 if thorough else 30)]:
        scen.append({**s, "cut": rng.choice([0, 3]), "via_read_half": True})
    # slow delivery: the first frame's length prefix arrives late in the read-timeout window and its body after the window would have
    # ended, with no single wait longer than the timeout (both APIs)
    slow_src = [s for s in pick(pt) if s["hist"] and s["hist"][0][0] == "pt"][:2]
    for s in slow_src:
        scen.append({**s, "cut": 0, "via_read_half": True, "slow": True})
        scen.append({**s, "cut": 0, "via_read_half": False, "slow": True})
    # soak: a long history of malformed frames (every proper prefix of every frame of the scenario, many times over) before the
    # scenario itself: "a malformed frame yields an error for that frame only" also after thousands of them
    def valid_frames(s):
        return sum(1 for r_ in s["results"] if r_["k"] != "err")
    def has_frag(x):
        return any(k[0].startswith("frag") or k[0] == "junk_fraghdr" for k in x["hist"])
    for src, n in ((hdr + cache, 2), (pt, 1)):
        # malformed frames cut out of fragment frames as well (from a scenario whose sequences this one does not use)
        donors = [x for x in src if has_frag(x)]
        for s in sorted([x for x in src if not has_frag(x)], key=valid_frames, reverse=True)[:n]:
            scen.append({**s, "cut": 0, "via_read_half": False, "soak": 120 if thorough else 25, "junk_from": donors[0]["frames"] if donors else []})
    for s in sorted(pt, key=valid_frames, reverse=True)[:1]:
        scen.append({**s, "cut": 0, "via_read_half": True, "soak": 25})
    # bodies far larger than one read returns: a SEND with a 200 000-byte (and a 65 537-byte) binary payload, a tick and a small SEND, delivered
    # in pieces of 4096 / 1000 bytes and in one write, through both read loops
    for n_big in (200000, 65537):
        for cut in (4096, 1000, 0):
            for rh in (False, True):
                scen.append({"hist": [["big_send", n_big], ["tick", 0], ["send", 42]], "header_mode": False, "frames": [], "results": [], "cut": cut, "via_read_half": rh, "big": n_big})
    for i, s in enumerate(scen):
        s["id"] = i
    sp = os.path.join(lib.outdir(PID), "scenarios.ndjson")
    op = os.path.join(lib.outdir(PID), "obs.ndjson")
    lib.write_ndjson(sp, scen)
    lib.harness(["conn-recv", sp, op], timeout=3000)
    obs = lib.read_ndjson(op)
    if len(obs) != len(scen):
        raise lib.ToolError("receive harness did not complete")
    for o in obs:
        s = scen[o["id"]]
        v.case(json.dumps([s["hist"], s["header_mode"], s["cut"], s["via_read_half"], s.get("slow", False), s.get("soak", 0)]))
        case = {"frames": s["hist"], "header_mode": s["header_mode"], "segmentation": s["cut"], "api": "receive_message_from_read_half" if s["via_read_half"] else "receive_message", "slow_delivery": s.get("slow", False), "malformed_frames_sent_before": ("every proper prefix of these frames, %d times over" % s["soak"]) if s.get("soak") else 0}
        if "tool_error" in o:
            raise lib.ToolError("receive harness could not connect")
        if o["panicked"]:
            v.violation("a frame from the peer panicked the receiving task", case)
            continue
        if s.get("big"):
            if not o["big_delivered_intact"] or not o["following_message_delivered_intact"] or o["messages_returned"] != 2:
                v.violation("a message with a large payload delivered in pieces (or the message after it) did not come out as the peer sent it",
                            {"payload_bytes": s["big"], "segmentation": s["cut"], "api": case["api"], "big_delivered_intact": o["big_delivered_intact"],
                             "following_message_delivered_intact": o["following_message_delivered_intact"], "results": o["results"]})
            continue
        got = [r for r in o["results"] if r["k"] in ("msg", "err")]
        exp = s["results"]
        if s.get("soak"):
            # the stream was read to its end: the scenario's own frames are the last ones (the harness took the deep message off)
            got = got[-len(exp):] if exp else []
            if o["deep_delivered"] is not True:
                v.violation("after a long run of malformed frames a well-formed message whose payload nests 250 deep (within what the decoder accepts on a fresh connection) was not delivered", case)
        if s["via_read_half"]:
            # this loop stops at the first error it cannot attribute to a frame? no: every frame is read whole, errors are per frame
            pass
        gi = 0
        for e in exp:
            if gi >= len(got):
                v.violation("a complete message from the peer was never returned (or the stream was abandoned after a bad frame)", {**case, "missing": e["kind"], "returned": [g["k"] for g in got]})
                break
            g = got[gi]
            gi += 1
            if e["k"] == "err":
                if g["k"] != "err":
                    v.violation("an undecodable frame did not yield an error for that frame", {**case, "frame": e["kind"], "got": E.short(g, 200)})
                continue
            frag = e["kind"] in ("frag2", "frag3", "frag2i", "frag3i")
            if g["k"] != "msg":
                v.classify("a well-formed message from the peer was not delivered", {**case, "form": e["kind"], "got": g}, ["C06-fragments"] if frag else [])
                continue
            ok = lib.same_value(g["control"], e["control"]) and ((g["payload"] is None and not e["payload"]) or (e["payload"] and g["payload"] is not None and lib.same_value(g["payload"], e["payload"][0])))
            if not ok:
                v.classify("a message was delivered with a different control message or payload than the peer sent", {**case, "form": e["kind"], "sent": E.short([e["control"], e["payload"]], 300), "got": E.short([g["control"], g["payload"]], 300)},
                           ["C06-fragments"] if frag else [])
        else:
            if len(got) > len(exp):
                v.violation("the receiving API returned more than the peer sent (duplicate delivery or a surfaced tick)", {**case, "extra": E.short(got[len(exp):], 300)})
        if o["id"] % 50 == 0:
            v.sample({"frames": s["hist"], "header_mode": s["header_mode"], "segmentation": s["cut"], "returned": [g["k"] for g in got]})
    v.cov["traces_validated_against_impl"] = len(obs)
    v.cov["rule"] = ("TLC-simulated sequences of 5 frames over 8 messages (SEND, REG_SEND, LINK, EXIT, MONITOR_P_EXIT, UNLINK_ID with a 2^63 id, SEND_SENDER with a big-integer payload, an unknown control kind) "
                     "in pass-through form, header form with new entries, header form referencing entries of an earlier message, protocol fragmentation into 2 / 3 fragments, ticks, and 6 kinds of "
                     "malformed frames at any position; bytes from the spec's writers; written to the socket whole, in pieces of 1 / 5 / 13 bytes; both read loops; distinct = (sequence, mode, cut, api)")
    v.assumptions += ["scenario space is sampled by TLC simulation, not enumerated", "a frame with trailing garbage after a well-formed message is not judged (left open by the statement)"]
    return v.finish()


def replay(path, seed):
    rp = json.load(open(path))
    for viol in rp["violations"][:20]:
        lib.log("replay:", viol["what"], json.dumps(viol["case"])[:800])
    lib.log(f"VIOLATION property={PID} replay={path}")
    return 1
