"""Maintains MANIFEST.json from checks/registry.py (single source for the claimed checks)."""
import json, os, subprocess, sys
ROOT = os.path.dirname(os.path.dirname(os.path.abspath(__file__)))
sys.path.insert(0, os.path.join(ROOT, "checks"))
import registry


def main():
    props = [json.loads(l) for l in open(os.path.join(ROOT, "properties.jsonl"))]
    m = json.load(open(os.path.join(ROOT, "MANIFEST.json")))
    commits = subprocess.run(["git", "-C", "/repo", "log", "--format=%H %s"], stdout=subprocess.PIPE).stdout.decode().splitlines()
    m["hooks"]["source_commits"] = [c.split()[0] for c in commits if c.split(" ", 1)[1].startswith("verif hooks")]
    checks, na = [], []
    for p in props:
        pid = p["id"]
        r = registry.CHECKS.get(pid)
        if r is None:
            na.append({"property_id": pid, "reason": registry.NOT_APPLICABLE.get(pid, "check under construction in this session; not yet bound to the code")})
            continue
        checks.append({
            "property_id": pid,
            "quick_cmd": f"./check {pid} --tier quick",
            "thorough_cmd": f"./check {pid} --tier thorough",
            "evidence_file": f"/verif/evidence/{pid}.json",
            "replay_cmd_template": f"./check {pid} --replay {{path}}",
            "engine": "tlc+harness",
            "level_claimed": {"category": r["level"], "text": r["text"], "design_ref": r["design_ref"]},
            "level_note": r["note"],
            "technique": r["technique"],
        })
    m["checks"] = checks
    m["not_applicable"] = na
    for e in m["engines"]:
        e["serves_properties"] = [c["property_id"] for c in checks]
    json.dump(m, open(os.path.join(ROOT, "MANIFEST.json"), "w"), indent=1)
    print(f"{len(checks)} checks claimed, {len(na)} not applicable")


main()
