"""X01 — beyond the listed properties (DESIGN §8 item 1, §10.7): the EPMD client.
Spec: spec/Epmd.tla.  TLC checks the lease model (a name is registered while its connection is open) with the
protection KeepsLease and shows the counterexample for the behaviour as coded; Gen_Epmd enumerates daemon answers
(well-formed with boundary fields, every truncation, wrong tags / types / lengths, refusals) with the outcome class
the client must report, and the requests the client must write.  The real EpmdClient runs against a scripted daemon.
Not part of MANIFEST.json (no listed property covers EPMD); run with `./check X01`."""
import json, os
import lib

PID = "X01"


def run(tier, seed):
    v = lib.Verdict(PID, tier, seed, "model_checking")
    r = lib.tlc_expect_ok("mc/MC_Epmd.tla", "mc/Epmd_lease.cfg", PID, "mc_lease")
    v.cov["states"], v.cov["transitions"] = r.distinct, r.generated
    lib.tlc_expect_violation("mc/MC_Epmd.tla", "mc/Epmd_ascoded.cfg", PID, "mc_ascoded", "RunningIsFindable")
    v.cov["mc_configs"] = [{"cfg": "Epmd_lease", "distinct": r.distinct, "result": "RunningIsFindable, DownIsForgotten hold when the registering connection is kept"},
                           {"cfg": "Epmd_ascoded", "result": "counterexample to RunningIsFindable: the connection is closed when register_node returns, the daemon forgets the name"}]
    d = lib.outdir(PID)
    f = {k: os.path.join(d, f"{k}.ndjson") for k in ("lookup", "reg", "req", "obs")}
    g = lib.tlc("gen/Gen_Epmd.tla", "gen/Gen_Epmd.cfg", PID, "gen", workers=1, env={"OUT_LOOKUP": f["lookup"], "OUT_REG": f["reg"], "OUT_REQ": f["req"]})
    if g.rc != 0:
        raise lib.ToolError("Gen_Epmd failed")
    lookups, regs, req = lib.read_ndjson(f["lookup"]), lib.read_ndjson(f["reg"]), lib.read_ndjson(f["req"])[0]
    lib.harness(["epmd-run", f["lookup"], f["reg"], f["obs"]], timeout=900)
    obs = lib.read_ndjson(f["obs"])
    by = {}
    for o in obs:
        by.setdefault(o["set"], []).append(o)
    for c, o in zip(lookups, by["lookup"]):
        v.case("lookup " + json.dumps(c["answer"]))
        case = {"daemon_answer": c["answer"], "spec_outcome": c["outcome"], "client": o["got"]}
        if o["request"] != req["port"]:
            v.violation("PORT_PLEASE2_REQ differs from the layout of the spec", {"written": o["request"], "spec": req["port"]})
        if o["got"]["k"] != c["outcome"]:
            v.violation("lookup_node's outcome differs from the spec's reading of the daemon's answer", case)
        elif c["outcome"] == "ok":
            a = c["answer"]
            nl = a[10] * 256 + a[11]
            want = {"port": a[2] * 256 + a[3], "ty": a[4], "hi": a[6] * 256 + a[7], "lo": a[8] * 256 + a[9], "name": a[12:12 + nl], "extra": a[14 + nl:]}
            got = {k: o["got"][k] for k in want}
            if got != want:
                v.violation("lookup_node returns other field values than the answer holds", {**case, "want": want})
    for c, o in zip(regs, by["register"]):
        v.case("register " + json.dumps(c["answer"]))
        case = {"daemon_answer": c["answer"], "spec_outcome": c["outcome"], "client": o["got"]}
        if o["request"] != req["alive"]:
            v.violation("ALIVE2_REQ differs from the layout of the spec", {"written": o["request"], "spec": req["alive"]})
        if o["got"]["k"] != c["outcome"]:
            v.violation("register_node's outcome differs from the spec's reading of the daemon's answer", case)
        elif c["outcome"] == "ok":
            a = c["answer"]
            want = a[2] * 256 + a[3] if a[0] == 121 else int.from_bytes(bytes(a[2:6]), "big")
            if o["got"]["creation"] != want:
                v.violation("register_node returns another creation than the answer holds", {**case, "want": want})
    nm = by["names"][0]
    v.case("names")
    if nm["request"] != req["names"] or nm["got"]["k"] != "ok":
        v.violation("NAMES_REQ exchange differs from the spec", nm)
    lease = by["lease"][0]
    v.case("lease")
    if lease["client_closed_registering_connection_after_ms"] is not None:
        lib.log(f"OBSERVATION: {PID} lease: register_node closes the registering connection when it returns (after {lease['client_closed_registering_connection_after_ms']} ms); "
                "a real daemon forgets the name at that moment (MC: Epmd_ascoded). The node never listens for inbound connections, so registration only serves to obtain a creation.")
        v.note("behaviour as coded corresponds to KeepsLease = FALSE")
    silent = by["silent"][0]
    v.case("silent")
    if silent["returned_within_ms"] is None:
        lib.log(f"OBSERVATION: {PID} silent daemon: lookup_node did not return within 2500 ms with a configured timeout of {silent['configured_timeout_ms']} ms "
                "(the timeout covers connect only; a daemon that accepts and stays silent blocks Node::connect for ever)")
        v.note("lookup_node has no read timeout")
    v.sample({"lookup_answer": lookups[0]["answer"], "outcome": lookups[0]["outcome"]})
    v.cov["rule"] = "lease model: 2 nodes, <= 4 connections, every interleaving; 174 lookup answers and 14 register answers from Gen_Epmd against the real client; distinct = answer"
    v.assumptions += ["the daemon is scripted by the harness; answers are followed by the daemon closing the connection"]
    return v.finish()


def replay(path, seed):
    rp = json.load(open(path))
    for viol in rp["violations"][:20]:
        lib.log("replay:", viol["what"], json.dumps(viol["case"])[:800])
    lib.log(f"VIOLATION property={PID} replay={path}")
    return 1
