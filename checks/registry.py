"""Claimed checks (source for MANIFEST.json; run `python3 checks/manifest_tool.py` after editing)."""
CHECKS = {
 "C09": {
  "level": "model_checking",
  "technique": "TLA+ spec (Fragments.tla) model-checked with TLC; every model transition replayed on the real FragmentAssembler (state-graph edge replay), then every PATH of the graphs up to a depth; expiry per sequence in FragmentsTimed.tla with ticks bound through a guarded hook",
  "text": "TLC exhaustively checks that the implementation-shaped layer of Fragments.tla refines the protocol-level layer (return value on every call, held data, isolation) for 2-3 interleaved sequences, every arrival order, duplicates, out-of-range ids, header first/middle/last, expiry and clear; the as-coded and the weakened switch settings are required to produce counterexamples (non-vacuity). Every transition of the emitted state graph is then executed on the real object from its source state and the returned bytes and held pieces are compared with the abstract layer. Each edge is replayed with three payload maps, one of them giving the header fragment an atom-cache section, which must come out in front of the message. FragmentsTimed.tla adds per-sequence ages (abstract and implementation layer), Tick and a cleanup that forgets exactly the expired sequences (invariants HoldsExactly, AgesAgree; switch LateHeaderRefreshes must yield a counterexample); its graph is replayed the same way, time passing through the hook verif_backdate. Because the real object may keep state the correct model does not distinguish, every path of the graphs (4 steps untimed, 6 timed: 908 022 paths) is also driven and each step compared with the access-path observation of the same model edge.",
  "design_ref": "DESIGN.md §5 C09, §2.2 B2",
  "note": "Bounded: <=2 sequences x n<=4 (thorough) / n<=3 (quick) fragments in the replayed graph; tokens stand for payloads (two payload maps). Trusted: TLC, harness edge replayer, guarded hooks verif_snapshot (read-only) and verif_backdate (time).",
 },
}
CHECKS.update({
 "C01": {
  "level": "exploration",
  "technique": "TLA+ reference model of the External Term Format (Etf.tla) evaluated by TLC: universe + canonical encoder replayed into the Rust codec, and the library's bytes parsed back by the TLA+ parser",
  "text": "Every boundary of the quantifier is a leaf of the TLC-enumerated universe (containers to depth 2, plus seeded random deep terms from the harness); the library's encoding of each value is read by an independent implementation (the TLA+ recursive-descent parser) and must denote the same value, the library's decoder must return a term denoting it, re-encoding must reproduce the bytes, and unencodable sizes must be reported as errors; encode_to_writer must deliver the same bytes to a Vec and to writers that accept 1 / 7 bytes per call, and must fail on a writer that is full. Bounded universe + differential reference model, hence exploration. The quick universe includes a 16384-word reference (16-bit count x 4), the thorough one 65535-word references, 65535/65536-element lists and 65535-byte atoms.",
  "design_ref": "DESIGN.md §5 C01, §2.2 B1/B1'",
  "note": "Trusted: transcription of the format into Etf.tla (self-checked: parser inverts encoder and every alternative on the universe), harness build/denote projection, TLC. Depth > 2 only through random terms.",
 },
 "C03": {
  "level": "exploration",
  "technique": "TLA+ reference model (Etf.tla AltsDeep/CompressedAlts) enumerates every admissible encoding per node with TLC; vectors replayed into the Rust decoder and compared with the spec's value",
  "text": "For each value of the universe TLC emits the canonical encoding and every alternative tag choice at the root or at one child (legacy, text-float, string, big-integer widths incl. zero padding, LOCAL_EXT wrapping, COMPRESSED); the library must decode each to exactly the value and reject trailing bytes. The trailing-byte test is applied to the canonical and to every alternative encoding (also after a top-level COMPRESSED section): decode must fail, decode_with_trailing must hand the byte back. Decoding is a function of the bytes (Etf!Parse has no state): after about 1500 rejected inputs on the same thread (nests deeper than the limit in every container kind, truncations of the vectors, counts that promise more than there is) every vector is decoded again and must give what it gave before.",
  "design_ref": "DESIGN.md §5 C03",
  "note": "One alternative per encoding (root or one child), FLOAT_EXT texts and zlib streams from python tables. Open finding C03-mapmerge is matched by input class (numerically-equal distinct keys) and deviation (entries merged, nothing else changed).",
 },
 "C10": {
  "level": "exploration",
  "technique": "TLA+ model of identifiers with node-local form (Etf.tla, EtfUniverse!IdUniverse) enumerated by TLC; bytes replayed through decode, conversion scripts and encode in the Rust code",
  "text": "All identifier kinds x plain/3 node-local hashes x 13-14 nesting contexts x all clone/borrow/move scripts up to length 2 (quick) / 4 (thorough): re-encoding must give back the spec's bytes; plain and node-local twins must agree under ==, hash, cmp and set lookup in both term types. Twins are plain <-> node-local and node-local <-> node-local with different opaque bytes.",
  "design_ref": "DESIGN.md §5 C10",
  "note": "Bounded universe of identifiers and contexts; LOCAL_EXT layout as the code models it (8 opaque bytes + term).",
 },
 "C13": {
  "level": "exploration",
  "technique": "TLA+ reference model supplies the corpus (valid modern/legacy encodings, classified by the spec) plus truncations and seeded mutations; owned and zero-copy decoders compared differentially",
  "text": "On every corpus input: zero-copy Ok implies owned Ok with structurally identical term (Debug rendering, denotation, re-encoding); spec-classified modern-tag valid encodings accepted by the owned decoder must be accepted by the zero-copy decoder; reported offsets lie within the input; no panic; and the same history test as C03 (both decoders again after a history of rejected inputs on the same thread).",
  "design_ref": "DESIGN.md §5 C13",
  "note": "Differential oracle; corpus bounded by the universe, all truncation offsets of encodings <= 400 bytes and 8 (quick) / 60 (thorough) mutations per encoding.",
 },
})
CHECKS["C02"] = {
  "level": "exploration",
  "technique": "attack grammar and resource contract written in TLA+ (EtfAttack.tla), inputs enumerated by TLC and replayed through every decoding entry point under OS-level monitors (2 MiB thread, counting allocator, process isolation)",
  "text": "TLC enumerates every tag x 15 boundary values of each length/arity/count field x data tails (also nested one level), header and fragment-header lies and 14 nest templates expanded to depth 10^5 (10^6 thorough); python adds compressed sections that lie about their size (64 MB bombs, 300-level nesting), every truncation and seeded mutations/splices of valid encodings. Each input goes through 9 entry points; panic, process death and the largest single allocation (vs 256*(len+inflated)+65536) are observed.",
  "design_ref": "DESIGN.md §5 C02, §7",
  "note": "The specification generates the attack surface and states the contract; crash and allocation are facts about a process observed by the harness, not by TLC. Release build in quick, dev build of the nest set in thorough.",
}
CHECKS["C12"] = {
  "level": "exploration",
  "technique": "Erlang's term order written in TLA+ (EtfOrder.tla, exact integer/float arithmetic on digit and bit sequences) evaluated by TLC over a boundary universe; all ordered pairs replayed on OwnedTerm and BorrowedTerm",
  "text": "TLC computes Cmp for every ordered pair of a 159 (quick) / 182 (thorough) value universe; the harness evaluates Ord::cmp for every representation of every value (191+ terms, 36k+ ordered pairs, both term types), sorts the universe and iterates a BTreeMap; every pair must agree in sign (only inequality is required among distinct identifiers/funs).",
  "design_ref": "DESIGN.md §5 C12",
  "note": "Bounded universe (all pairs, not all terms); the spec's order is self-checked for reflexivity/antisymmetry (and transitivity in the thorough tier).",
}
CHECKS["C11"] = {
  "level": "exploration",
  "technique": "laws of a total preorder consistent with ==/hash stated in TLA+ (EtfOrder.tla law operators, Laws_Order.tla) and evaluated by TLC over the relation observed on the real term types; transitivity over all triples by the driver",
  "text": "Full cmp/==/hash matrices are observed for every representation of the C12 universe; TLC evaluates antisymmetry, == => Equal, == => equal hashes and borrowed = owned over all ordered pairs; all triples are checked for transitivity; sort, BTreeMap and HashMap scripts over the whole universe must neither panic, lose, duplicate nor misplace an entry.",
  "design_ref": "DESIGN.md §5 C11",
  "note": "Laws are decided on the bounded universe only; finite floats and minimal big-integer digits (well-formed terms).",
}
CHECKS["C08"] = {
  "level": "exploration",
  "technique": "the protocol's control-message table and parse/serialise contract written in TLA+ (Control.tla); TLC enumerates all tag x arity tuples and the table, replayed through ControlMessage::from_term/to_term/into_term and the wire codec",
  "text": "Every tuple headed by a tag 0..255 with arity 1..10 (distinguishable fillers), unlink messages with ids on both sides of 2^31/2^63/2^64, and non-messages: parses-or-rejects as the spec says, serialises back to the same value by both serialisers and after encode/decode; each of the 30 named operations is compared with the protocol table (tag, arity, field order).",
  "design_ref": "DESIGN.md §5 C08",
  "note": "Exhaustive over tags and arities 1..10 with one filler assignment per tuple; table transcribed from the protocol document (trusted). Open finding C08-spawn-arity matched by operation name + exact shape of the deviation.",
}
CHECKS["C14"] = {
  "level": "model_checking",
  "technique": "TLA+ spec of the distribution header layout and of the sender/receiver atom-cache state machine (DistHeader.tla), model-checked by TLC; library header bytes parsed by the TLA+ reader; every model transition replayed on decode_with_atom_cache",
  "text": "TLC checks on all histories of <= 3/4 messages (4 atoms, 3 slots in 3 segments, both header orders, new/re-used/overwritten entries) that the spec's conforming writer and reader agree (Resolved, CachesAgree) and that a reader keyed by index alone does not (non-vacuity); each transition's bytes are then fed to the real decoder with a persistent cache from the transition's source state and the resolved terms compared with the sender's. Encoder side: 72 control/payload pairs (0..300 atoms, odd/even counts, long atoms) encoded by the library and read back by the TLA+ reader.",
  "design_ref": "DESIGN.md §5 C14",
  "note": "Bounded histories and universe; the header layout is transcribed from the protocol document (trusted) and cross-checked writer-vs-reader inside the spec.",
}
CHECKS["C05"] = {
  "level": "model_checking",
  "technique": "TLA+ spec of framer, nondeterministic transport and two-phase deframer (Framing.tla) model-checked by TLC; every finished behaviour's chunk schedule replayed on MessageDeframer::read_framed / MessageFramer::write_framed through scripted AsyncRead/AsyncWrite",
  "text": "TLC checks OutIsPrefixOfSent, AllDeliveredWhenConsumed, NoShortMessage, OverCapRefused over every chunking / pending / close behaviour of four small streams (both prefix widths, zero-length frames, an over-cap frame) and requires a counterexample for the weakened deframer; all schedules of two streams (tens of thousands; sampled to 40 000 in the quick tier) drive the real deframer and its returned messages, error/no-error outcome and consumption are compared with the model; streaming writer vs one-shot framing under partial writes, each schedule on a plain writer and on a gathering writer (a vectored write takes any non-empty prefix across the buffers offered); cap and 2^16 classes with real sizes under the counting allocator. Bodies of 65537 to 200000 bytes followed by three more frames are read under four coalescing schedules. The same message sequences also go over real sockets through FramedTransport (transport.rs): a 2-byte-prefix part followed by a 4-byte-prefix part in one stream, one write or pieces, after which the reader switches the frame mode or takes the read half and continues with its own MessageDeframer; FramedTransport::write must produce the same bytes as the spec's framing.",
  "design_ref": "DESIGN.md §5 C05",
  "note": "Streams of <= 15 wire bytes exhaustively; larger sizes only as length classes. Read timeouts of FramedTransport (a delay longer than the timeout) are outside this model.",
}
CHECKS["C04"] = {
  "level": "model_checking",
  "technique": "TLA+ spec of the handshake (Handshake.tla): API state machine model-checked by TLC with a weakened variant, every transition replayed on HandshakeStateMachine and every call sequence up to 4-5 calls walked on it; peer-deviation scripts enumerated from the spec and run against the real Connection::connect over TCP with the wire transcript compared with the spec's byte layouts",
  "text": "TLC checks ProofBeforeConnected / ProofIsFresh / NegotiatedOnlyAfterChallenge over all call sequences (any order, valid and invalid argument classes, reuse after disconnect) and finds the counterexample when disconnect keeps the challenge. Every model transition is executed on the real object for 4 parameter sets: Connected implies the model's proof, a right ack connects, flags are the bytewise AND, emitted messages equal the spec layouts, digests equal an independent MD5; all call sequences of up to 4 (first parameter set and thorough: 5, 12 M) calls are walked as well and any step that behaves differently from the access-path replay of the same model edge is judged too. All 65 peer scripts (each deviation at each peer turn incl. silence, close, oversized, out-of-order, reflected digest) run over TCP: connected exactly on the conforming path, an error within 4x timeout otherwise.",
  "design_ref": "DESIGN.md §5 C04",
  "note": "MD5 uninterpreted in the spec (interpreted by python hashlib + RFC 1321 transcription). Guarded hook: EPMD port override. Real time with a 250 ms handshake timeout.",
}
CHECKS["C16"] = {
  "level": "model_checking",
  "technique": "TLA+ spec of the allocators with one action per atomic step (PidAlloc.tla) model-checked by TLC over all interleavings; real allocator executed under a deterministic thread scheduler (guarded sync points, lock probe) on enumerated, random and adversarial (weakened-spec counterexample) schedules; recorded traces validated by TLC (Trace_PidAlloc.tla)",
  "text": "TLC explores every interleaving of 2-3 concurrent allocate() calls from the start, the id wrap and the serial wrap (scaled constants) and of two make_reference calls, with the environment putting creation values in force that recur (SetCreation; per-epoch origin), and finds the duplicate-pid schedule when the mutex is not enforced and the duplicate when set_creation restarts the numbering (switch CreationRewinds). That schedule, every interleaving of two allocations (sampled in the quick tier) and seeded random schedules of 2-4 threads are forced on the real PidAllocator / Node::make_reference at the real wrap positions (2^20 ids, 2^32 serials, u32 counter); TLC then accepts the recorded trace as a behaviour of the spec with Unique, CreationInForce and RefUnique checked in every state, falling back to the lock-free spec to separate drift from a property violation. The fall-back chain is locked spec -> no mutual exclusion -> reads of non-current values -> only calls and results bound; the invariants include NoReissue (nothing before the observation's origin is issued again) and IssuedIsSequence (what was issued is exactly the first n members of the closed-form sequence SeqIssue, TLC-checked against the step spec). Scenarios in which the creation changes between bursts of allocations and comes back to earlier values are recorded with a set_creation event and validated the same way (Unique over the whole scenario). Free-running bulk runs (3.1 M allocations across the 32-bit serial wrap and three trips; 300 000 references) are compared with SeqIssue / the counter values. Thorough tier: Apalache discharges the inductive invariant of spec/apalache/PidAllocInd.tla (unbounded allocations, any MaxId).",
  "design_ref": "DESIGN.md §5 C16, §2.4",
  "note": "Interleavings are controlled only at the guarded hook points (one per atomic step); preemption between two hooks is not explored. Serials / words logged relative to their start value (bijection) because TLC integers are 32-bit.",
}
CHECKS["C17"] = {
  "level": "model_checking",
  "technique": "TLA+ spec of callers, outstanding-call table, receiver and peer (Rpc.tla) model-checked by TLC incl. weakened variants; TLC-generated behaviours (exhaustive / simulated) executed step by step on the real Node through guarded async scheduling points against a scripted peer; outcomes compared with the model",
  "text": "TLC checks OwnReplyOnly, AtMostOnce and NothingLeft over every interleaving of 2-3 callers with own, duplicate, stray and late replies and connection up / absent / broken, and finds the leak counterexamples for LeakOnSendError and for a missing removal on timeout. Behaviours of the model (schedules of alloc / insert / send / timeout / cleanup / reply / route steps) drive the real rpc_call_raw_with_timeout and receiver task; each caller's result must be its own reply or an error, a reply in time must be delivered, and the outstanding-call table must be empty at the end. Peer replies include ones addressed to the reply pid of another incarnation of the node (same number and serial, other creation), which must complete nothing (protection MatchCreation with its own counterexample).",
  "design_ref": "DESIGN.md §5 C17, §2.4",
  "note": "Hook-point granularity; real-time timers (60 ms / 4 s); one node reused across scenarios; fake EPMD through the guarded port override.",
}
CHECKS["C19"] = {
  "level": "model_checking",
  "technique": "TLA+ spec of inbound routing and receiver survival (Inbound.tla) model-checked by TLC; TLC-generated frame sequences sent by a scripted peer over TCP to a real Node with recording process handlers, receiver followed through guarded hooks, outcomes compared with the model",
  "text": "TLC checks ExactRouting, StopsOnlyOnFatal and DeregisteredIffStopped over all sequences of 3 frames (5 good kinds x live / named / terminated / never-existing recipients and an outstanding call, 9 junk kinds, 3 fatal kinds, a local termination in between). Sequences (every kind at both positions of 2-frame sequences, TLC-simulated 5-frame sequences) are sent to a real node: each handler must have been given exactly the model's deliveries in order with sender / reference / reason intact, the outstanding call gets its reply, and the connection stays registered and usable exactly when the model says the receiver is alive. Thorough tier adds real-time quiet periods with ticks (known finding C19-idle-timeout). Recipients include the number and serial of a live process under another creation / another node name (must be dropped). Some scenarios have the peer send its first frame in one piece with its last handshake message. Quiet periods with ticks every 4 s (must survive) and every 12 s (known finding C19-idle-timeout) run in a second runner process in both tiers.",
  "design_ref": "DESIGN.md §5 C19",
  "note": "One connection, pass-through frames only (the node's receiver reads nothing else); fake EPMD via the guarded port override; delivery observed after a 30 ms settle time.",
}
CHECKS["C18"] = {
  "level": "model_checking",
  "technique": "TLA+ spec of registry, mailboxes, links, monitors and exit propagation (LocalProc.tla) and of the gen_server / gen_event behaviours (Behaviours.tla) model-checked by TLC over all interleavings of two client tasks with the process steps; TLC-generated operation sequences and behaviour scripts executed on a real Node (recording processes, scripted GenServer / GenEventHandler); adversarial race schedules forced through guarded hooks; TLC-simulated interleaved behaviours (client operations and process-task steps in one order) forced step by step on a real Node",
  "text": "TLC checks NameFreedAfterExit, HandledOnceInOrder, NoticeAtMostOnce on every interleaving (2 clients, 2-3 processes, 5 operations, two-step send_to_name and link) and LinkedNotifiedSeq on the sequential behaviours; it must find the counterexamples for NamesSurviveExit and for the late link. Operation sequences over spawn / register / unregister / send / send_to_name / kill / link / unlink / monitor / demonitor (length 4 exhaustive or sampled, length 8 simulated) run on a real node: per process the handled messages in order, the exit / down notices with identifier and reference, name resolution, liveness and each operation's outcome must equal the model's. Links / monitors only: every sequence of 4 operations on two live processes (4754), the 244 with a removal followed by a termination always executed. Behaviours: AnswerOnce, AnswerToCaller, Answered, GeAnswered, EventOnce model-checked (2 callers + a ghost, 2 handlers, 2-3 operations: 37 k / 2.5 M states); scripts of 2 operations (sampled) and 7 operations (simulated) run on a real GenServerProcess and GenEventManager: caller inboxes, callback logs, handler instances, which_handlers and send outcomes must equal the model's. The late-link schedule is forced on the real code and reported as KNOWN-FINDING C18-late-link. Races: MC_LocalProcRace keeps the order of all steps of interleaved behaviours (3 processes, 6 operations over kill / send / link / unlink / monitor / demonitor); of 11 000 simulated ones the 140 (thorough: 2000) preferring overlapping exits and operations during an exit are forced on a real Node -- message handling gated in the recording processes, the exit path at proc.failed / links_snapshot / removing -- and judged by what the property says for sure (a watcher that never fails and whose relation was in place when the target failed and was not taken back hears of it exactly once; nothing twice; handled messages once, in order; terminated processes stop resolving), everything else against the model as drift.",
  "design_ref": "DESIGN.md §5 C18",
  "note": "Race schedules are followed at the grain of the guarded points (exit notices, monitor snapshot and down notices are one stretch; link / monitor single calls). Fake EPMD via the guarded port override.",
}
CHECKS["C07"] = {
  "level": "model_checking",
  "technique": "TLA+ spec of the send path with per-connection lock and partial writes (Connection.tla) model-checked by TLC incl. the lock-free variant; every send operation's frame, captured by a scripted peer, is read by the TLA+ implementation of the protocol (Parse_Wire over Etf/DistHeader) and compared with the control tuple from Control.tla; concurrent senders with a task parked between partial writes",
  "text": "TLC checks FramesIntact, OrderPerTask and NoWriteBeforeConnected over all interleavings of the partial writes of 2-3 tasks and finds the interleaved-bytes counterexample without the lock. 120 operations x both framing modes are issued on a real Connection; exactly one frame must arrive, readable by the spec's reader as the protocol's control tuple plus payload. Through one Node, 2-4 tasks send concurrently, once with the first sender parked after the length prefix / after the control term (the counterexample's schedule): the second sender must not reach the wire, every frame must parse, be complete, unique and in per-caller order. The protection WritesWhole (an operation goes on until the kernel has taken the whole frame) has its own expected counterexample; on the real connection two operations carry a 6 MB payload in both framing modes, the peer starting to read while the operation is in progress.",
  "design_ref": "DESIGN.md §5 C07",
  "note": "Header mode only at Connection level (the node never negotiates it). Hook-point granularity for the forced schedules; free-running concurrency otherwise.",
}
CHECKS["C06"] = {
  "level": "model_checking",
  "technique": "TLA+ model of the peer's frame stream (Gen_Recv.tla over the spec's writers Etf!Encode / DistHeader!MsgBytes / protocol fragmentation, with the sender's atom-cache state) sampled by TLC simulation; a scripted peer replays the frames over TCP with arbitrary segmentation into the real Connection; the surfaced results are compared with the model's",
  "text": "Frame sequences (5 frames over 8 control-message kinds in pass-through, header-with-new-entries, header-referencing-earlier-entries and 2/3-fragment form, ticks, 6 malformed kinds at any position) are generated from the specification, written to the socket whole or in 1/5/13-byte pieces, and read with receive_message and receive_message_from_read_half: each complete message must be returned once, in order, with the control message and payload the peer sent; a malformed frame yields exactly one error and nothing else; ticks never surface; no panic. Header frames define and re-use cache entries in two segments with the same internal indices; every three-frame history over definitions / re-use in both segments is generated exhaustively and the cross-segment ones are always executed.",
  "design_ref": "DESIGN.md §5 C06",
  "note": "Sampled (TLC -simulate), not exhaustive; real sockets, real time. Open finding C06-fragments matched by frame form (fragmented) + deviation (error / different message at the final fragment only).",
}
CHECKS["C15"] = {
  "level": "exploration",
  "technique": "typed value universe written in TLA+ (Serde.tla) and enumerated by TLC; each value materialised in the harness' concrete Rust type and sent through to_term/from_term and to_bytes/from_bytes with an identity oracle",
  "text": "726 boundary values over 46 concrete types (every integer width with its min/max and the 2^31 / 2^63 neighbours, floats incl. -0.0 and extremes, chars up to U+10FFFF, strings that look like atoms, options, sequences, tuples, maps with string and integer keys, plain and ElixirStruct-derived structs, all four enum variant shapes, two-level nestings, options around empty / atom-like values: Some([]), Some(\"\"), Some(empty map), Some(unit variant)): the value must come back equal (== and Debug rendering) by both paths, or serialisation must fail; never a different value, a panic or an unreadable encoding.",
  "design_ref": "DESIGN.md §5 C15, §7",
  "note": "Thin use of the specification: it is the enumerator; the oracle is the identity. Bounded universe.",
}
CHECKS["C20"] = {
  "level": "exploration",
  "technique": "range arithmetic and Elixir struct-term shapes written in TLA+ (Elixir.tla, on top of the Etf.tla codec) and enumerated by TLC with anchored 64-bit positions; records replayed into the real wrappers (len / contains / iteration / from_term on built and on decoded terms); identity oracle for wrapper, builder and proplist round trips",
  "text": "1598 ranges with bounds at min..min+5, -3..3, max-5..max and steps incl. 0, min, max (+6 cross-anchor rows): len, size_hint, is_empty, iteration and membership must agree with the spec's element list; 264 valid Date/Time/NaiveDateTime/DateTime/Range struct terms (date-times: every zone with every utc/std offset) (also decoded from the spec's encoding, wide integers in big form) must give their fields and 90 mutated ones (missing key, wrong module, wrong shape, wrong type, value not fitting the field) must be rejected; about 70 wrapper values (all exception structs incl. absent fields, date-times with zones, map sets), builder methods and proplists must survive term and wire round trips; an arity that does not fit is rejected.",
  "design_ref": "DESIGN.md §5 C20, §7",
  "note": "Bounded universe; date-time / map-set / exception / builder values are a fixed boundary list. Three defects fixed (52c837a range overflow, 875107e field narrowing, 9c97430 FunctionClauseError nil fields / arity); one recorded (C20-mapset-twins). Exception module names are compared in their unprefixed form (DESIGN 10.6).",
}
NOT_APPLICABLE = {}
