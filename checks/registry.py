"""Claimed checks (source for MANIFEST.json; run `python3 checks/manifest_tool.py` after editing)."""
CHECKS = {
 "C09": {
  "level": "model_checking",
  "technique": "TLA+ spec (Fragments.tla) model-checked with TLC; every model transition replayed on the real FragmentAssembler (state-graph edge replay)",
  "text": "TLC exhaustively checks that the implementation-shaped layer of Fragments.tla refines the protocol-level layer (return value on every call, held data, isolation) for 2-3 interleaved sequences, every arrival order, duplicates, out-of-range ids, header first/middle/last, expiry and clear; the as-coded and the weakened switch settings are required to produce counterexamples (non-vacuity). Every transition of the emitted state graph is then executed on the real object from its source state and the returned bytes and held pieces are compared with the abstract layer.",
  "design_ref": "DESIGN.md §5 C09, §2.2 B2",
  "note": "Bounded: <=2 sequences x n<=4 (thorough) / n<=3 (quick) fragments in the replayed graph; tokens stand for payloads (two payload maps). Trusted: TLC, harness edge replayer, guarded read-only hook verif_snapshot.",
 },
}
NOT_APPLICABLE = {}
