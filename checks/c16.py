"""C16 — allocated pids and references are unique under any interleaving.
Spec: spec/PidAlloc.tla (one action per atomic step of allocate(), mutex, wrap; reference counter).
TLC model-checks all interleavings of small configurations; the real allocator is run under a
deterministic thread scheduler (guarded sync points + lock probe) on enumerated, random and
adversarial schedules, and the recorded traces are validated by TLC (binding B3)."""
import itertools, json, os, random, re
import lib

PID = "C16"
MAXID = 1048576


def adversarial_schedules(v):
    r = lib.tlc("mc/MC_PidAllocH.tla", "mc/MC_PidAllocH_nolock.cfg", PID, "mc_nolock_h", workers=1)
    if "UniqueWhileBounded" not in r.violated:
        raise lib.ToolError("weakened spec (no lock) no longer yields a duplicate-pid counterexample")
    scheds = re.findall(r"sched = <<([0-9, ]*)>>", r.text)
    if not scheds:
        raise lib.ToolError("could not read the counterexample schedule")
    longest = max(scheds, key=len)
    s = [int(x) for x in longest.split(",") if x.strip()]
    v.cov["mc_configs"].append({"cfg": "MC_PidAllocH_nolock", "result": "counterexample to Unique without the mutex; schedule " + str(s)})
    return s


def validate(v, trace_path, tag):
    r = lib.tlc("trace/Trace_PidAlloc.tla", "trace/Trace_PidAlloc_TRUE.cfg", PID, "trace_" + tag, workers=1, env={"TRACE": trace_path}, timeout=3000)
    return r


def apalache_inductive(v):
    """unbounded safety of the design: the inductive invariant of spec/apalache/PidAllocInd.tla (any MaxId in 2..2^20, three threads,
    any number of allocations) is discharged by Apalache in three steps"""
    import subprocess, shutil
    d = os.path.join(lib.SPEC, "apalache")
    out = lib.outdir(PID, "apalache")
    steps = [("Init => IndInv", ["--init=Init", "--inv=IndInv", "--length=0"]),
             ("IndInv /\\ Next => IndInv'", ["--init=IndInit", "--inv=IndInv", "--length=1"]),
             ("IndInv => NoReturnOfIssued", ["--init=IndInit", "--inv=NoReturnOfIssued", "--length=0"])]
    res = []
    for name, args in steps:
        try:
            p = subprocess.run(["apalache-mc", "check", "--cinit=ConstInit", f"--out-dir={out}"] + args + ["PidAllocInd.tla"], cwd=d, stdout=subprocess.PIPE, stderr=subprocess.STDOUT, timeout=1500)
        except (subprocess.TimeoutExpired, FileNotFoundError) as e:
            raise lib.ToolError(f"apalache-mc did not run: {e}")
        text = p.stdout.decode("utf-8", "replace")
        with open(os.path.join(out, "log_" + args[1].split("=")[1] + "_" + args[2].split("=")[1] + ".txt"), "w") as f:
            f.write(text)
        if "The outcome is: NoError" not in text:
            raise lib.ToolError(f"Apalache did not discharge '{name}' (see out/{PID}/apalache)")
        res.append(name)
    shutil.rmtree(os.path.join(d, "_apalache-out"), ignore_errors=True)
    v.cov["mc_configs"].append({"cfg": "apalache/PidAllocInd.tla", "result": "inductive invariant discharged by Apalache (" + "; ".join(res) + "): no identifier is returned twice, for any MaxId in 2..2^20, "
                                "3 threads and any number of allocations (serial as an unbounded counter)"})


def run(tier, seed):
    v = lib.Verdict(PID, tier, seed, "model_checking")
    thorough = tier == "thorough"
    rng = random.Random(seed)
    states = trans = 0
    v.cov["mc_configs"] = []
    for c in ("start", "wrap", "quick", "refs", "creations"):
        if c == "start" and not thorough:
            continue
        r = lib.tlc_expect_ok("PidAlloc.tla", f"mc/PidAlloc_{c}.cfg", PID, f"mc_{c}")
        states += r.distinct
        trans += r.generated
        v.cov["mc_configs"].append({"cfg": f"PidAlloc_{c}", "distinct": r.distinct, "generated": r.generated, "result": "UniqueWhileBounded, CreationInForce, RefUnique, SerialAdvancesOnWrap hold under every interleaving"})
    lib.tlc_expect_violation("PidAlloc.tla", "mc/PidAlloc_nolock.cfg", PID, "mc_nolock", "UniqueWhileBounded")
    lib.tlc_expect_violation("PidAlloc.tla", "mc/PidAlloc_refs_giveback.cfg", PID, "mc_refs_giveback", "RefUnique")
    v.cov["mc_configs"].append({"cfg": "PidAlloc_refs_giveback", "result": "counterexample to RefUnique when a failing operation hands the words it drew back to the counter (as expected)"})
    lib.tlc_expect_violation("PidAlloc.tla", "mc/PidAlloc_rewind.cfg", PID, "mc_rewind", "UniqueWhileBounded")
    v.cov["mc_configs"].append({"cfg": "PidAlloc_rewind", "result": "counterexample to Unique when set_creation restarts the numbering and a creation value recurs (as expected)"})
    if thorough:
        apalache_inductive(v)
    adv = adversarial_schedules(v)
    v.cov["states"], v.cov["transitions"] = states, trans
    # ---- scenarios for the real allocator
    starts = [(1, 0), (MAXID - 1, 0), (MAXID, 5), (MAXID - 1, 2 ** 32 - 2), (MAXID, 2 ** 32 - 1), (7, 2 ** 33 - 1), (MAXID, 2 ** 40 + 2 ** 32 - 1)]
    scen = []
    for (sid, sser) in starts:
        scen.append({"kind": "adversarial", "threads": 2, "allocs": 1, "start_id": sid, "start_serial": sser, "creation": 3, "schedule": adv})
        scen.append({"kind": "adversarial", "threads": 2, "allocs": 2, "start_id": sid, "start_serial": sser, "creation": 3, "schedule": adv + [1, 2] * 10})
    # every interleaving of two single allocations (7 scheduler slices each) from a plain and a wrap position
    slices = 7
    combos = list(itertools.combinations(range(2 * slices), slices))
    if not thorough:
        combos = rng.sample(combos, 250)
    for (sid, sser) in ((1, 0), (MAXID, 2 ** 32 - 1)):
        for c in combos:
            sched = [2] * (2 * slices)
            for i in c:
                sched[i] = 1
            scen.append({"kind": "enumerated", "threads": 2, "allocs": 1, "start_id": sid, "start_serial": sser, "creation": 1, "schedule": sched})
    for i in range(400 if thorough else 80):
        sid, sser = rng.choice(starts)
        scen.append({"kind": "random", "threads": rng.choice([2, 3, 4]), "allocs": rng.choice([1, 2, 3]), "refs": rng.choice([0, 1, 2]), "start_id": sid, "start_serial": sser,
                     "start_ctr": rng.choice([0, 5, 2 ** 32 - 4]), "creation": rng.choice([1, 2 ** 32 - 1]), "schedule": [], "seed": rng.randrange(10 ** 9),
                     "via_node": rng.random() < 0.5})
    # free-running bulk runs: what was issued must be exactly the first n members of PidAlloc!SeqIssue (hence pairwise distinct),
    # across the 32-bit serial wrap and three more trips round the number space
    bulk_total = 3 * MAXID + 50
    for th in ((1, 4) if thorough else (1, 4)):
        scen.append({"kind": "bulk", "threads": th, "total": bulk_total - bulk_total % th, "start_id": MAXID - 10, "start_serial": 2 ** 32 - 2, "creation": 7})
    scen.append({"kind": "bulk", "threads": 2, "total": MAXID + 10, "start_id": 1, "start_serial": 0, "creation": 2 ** 32 - 1})
    # references in bulk: more than 2^18 of them (the first word's significant width in the old reference format), pairwise distinct,
    # their words exactly the counter values (PidAlloc!RefWordsAreCounter)
    for th in (1, 4):
        scen.append({"kind": "bulk_refs", "threads": th, "total": 300000, "start_ctr": 5})
    # the same while other threads issue operations that draw from the counter and then fail (monitor / unlink towards a node whose
    # connection is not connected): PidAlloc!RefFail -- what a failed operation drew is not handed out again
    scen.append({"kind": "bulk_refs", "threads": 2, "total": 200000, "start_ctr": 5, "failing": True})
    # across the wrap of the 32-bit word counter: the words go round, the references stay distinct
    scen.append({"kind": "bulk_refs", "threads": 1, "total": 12, "start_ctr": 2 ** 32 - 4})
    scen.append({"kind": "bulk_refs", "threads": 3, "total": 60000, "start_ctr": 2 ** 32 - 9000})
    # the creation changes between bursts of allocations and comes back to values that were in force before (PidAlloc!SetCreation)
    for i, (th, sid) in enumerate(((1, 1), (2, 5), (3, MAXID - 2), (1, MAXID))):
        scen.append({"kind": "creations", "threads": th, "allocs": 2, "start_id": sid, "start_serial": 0, "creation": 1, "schedule": [], "seed": seed + i,
                     "phases": [{"creation": 2, "allocs": 2}, {"creation": 1, "allocs": 2}, {"creation": 1, "allocs": 1}, {"creation": 3, "allocs": 1}, {"creation": 2, "allocs": 2}]})
    # sequential allocations across several wraps
    scen.append({"kind": "sequential", "threads": 1, "allocs": 40, "start_id": MAXID - 3, "start_serial": 2 ** 32 - 2, "creation": 9, "schedule": []})
    sp = os.path.join(lib.outdir(PID), "scenarios.ndjson")
    tp = os.path.join(lib.outdir(PID), "trace.ndjson")
    up = os.path.join(lib.outdir(PID), "summary.ndjson")
    lib.write_ndjson(sp, scen)
    lib.harness(["pid-run", sp, tp, up], timeout=1800)
    summ = lib.read_ndjson(up)
    events = lib.read_ndjson(tp)
    if any(e.get("ev") == "watchdog" for e in events):
        raise lib.ToolError("thread scheduler watchdog fired (a worker did not reach its next scheduling point)")
    # adversarial schedules must be infeasible on the real allocator
    for s, sm in zip(scen, summ):
        v.case(json.dumps(s))
        if s["kind"] == "bulk_refs":
            case = {"threads": s["threads"], "references": sm["made"]}
            if s.get("failing"):
                case["failed_monitor_and_unlink_operations_alongside"] = sm["failed_operations_alongside"]
                if sm["failed_operations_alongside"] < 1000:
                    raise lib.ToolError("the operations meant to fail next to the reference makers did not fail")
            if sm["duplicates"]:
                v.violation("the same reference was made twice", {**case, "duplicates": sm["duplicates"], "first": sm["first_duplicate"]})
            elif not sm["words_are_the_counter_values"] or sm["wrong_shape"]:
                v.violation("the words of the references made are not the successive values of the node's counter, each once: references (and unlink ids drawn from the same counter) will coincide",
                            {**case, "first_deviation": sm["first_deviation"], "references_without_three_words": sm["wrong_shape"]})
            continue
        if s["kind"] == "bulk":
            case = {"threads": s["threads"], "allocations": sm["issued"], "from": [s["start_id"], s["start_serial"]]}
            if sm["duplicates"]:
                v.violation("the same process identifier was issued twice", {**case, "duplicates": sm["duplicates"], "first": sm["first_duplicate"]})
            elif sm["not_in_spec_sequence"] or sm["sequence_members_not_issued"]:
                v.violation("issued identifiers are not the first n of the allocator's sequence (number 1..max round and round, serial = wraps so far): identifiers of different trips will coincide",
                            {**case, "issued_but_not_in_sequence": sm["not_in_spec_sequence"], "sequence_members_not_issued": sm["sequence_members_not_issued"]})
            if sm["wrong_creation"]:
                v.violation("identifiers issued with another creation than the one in force", {**case, "count": sm["wrong_creation"]})
            continue
        if s["kind"] == "adversarial" and not sm["infeasible_steps"]:
            v.add_drift("the duplicate-producing schedule of the lock-free model was feasible on the real allocator", s)
    # ---- TLC validates the whole recorded trace (one JVM; scenarios separated by reset events)
    r = validate(v, tp, "strict")
    n_events = len(events)
    if r.ok:
        v.cov["traces_validated_against_impl"] = len(scen)
    else:
        def rejected_at(res):
            m = re.search(r'TRACE REJECTED at event",\s*(\d+)', res.text)
            return int(m.group(1)) if m else None

        def issued_of(res):
            st = re.findall(r"issued = (<<.*?>>)\n", res.text, re.S)
            return re.sub(r"\s+", " ", st[-1])[:600] if st else None

        pos = rejected_at(r)
        ev = events[pos - 1] if pos and pos - 1 < len(events) else None
        if r.violated:
            # an invariant of C16 fails in a state of the recorded execution
            v.violation(f"recorded execution of the real allocator violates {r.violated}", {"issued": issued_of(r), "tlc_log": f"out/{PID}/tlc_trace_strict.log"})
        else:
            # the execution is not a behaviour of the implementation-shaped spec: explain it with the named deviations
            # (no mutual exclusion; then also reads of non-current counter values) and evaluate C16's invariants on it
            decided = False
            for cfg, name in (("FALSE", "without mutual exclusion"), ("STALE", "without mutual exclusion and with reads of non-current counter values"),
                              ("OBSERVED", "that binds only the calls and what they returned")):
                r2 = lib.tlc("trace/Trace_PidAlloc.tla", f"trace/Trace_PidAlloc_{cfg}.cfg", PID, "trace_" + cfg.lower(), workers=1, env={"TRACE": tp}, timeout=3000)
                if r2.violated:
                    v.violation(f"recorded execution of the real allocator violates {r2.violated} (it is not a behaviour of the locked spec from event {pos}: {json.dumps(ev)}; explained by the spec {name})",
                                {"first_unmatched_event": ev, "issued": issued_of(r2), "tlc_log": f"out/{PID}/tlc_trace_{cfg.lower()}.log"})
                    decided = True
                    break
                if r2.ok:
                    v.add_drift(f"recorded execution is not a behaviour of the locked spec from event {pos} on (explained by the spec {name}), but every C16 invariant holds on it", {"event": ev})
                    v.cov["traces_validated_against_impl"] = len(scen)
                    decided = True
                    break
            if not decided:
                raise lib.ToolError(f"trace rejected by every trace spec at event {rejected_at(r2)}: see out/{PID}/tlc_trace_*.log")
    kinds = {}
    for s in scen:
        kinds[s["kind"]] = kinds.get(s["kind"], 0) + 1
    v.cov["scenarios"] = kinds
    v.cov["trace_events"] = n_events
    v.sample({"scenario": scen[0], "infeasible_steps": summ[0]["infeasible_steps"]})
    v.sample({"events_head": events[:12]})
    v.cov["rule"] = ("TLC: all interleavings of 2-3 threads x 2-3 allocations from the start, the id wrap and the serial wrap (scaled constants) and of 2 threads x 2 references; "
                     "real allocator: the lock-free model's duplicate schedule at 7 start positions (must be infeasible), every interleaving of two allocations (3432; 250 sampled in quick) "
                     "from a plain and a wrap position, seeded random schedules of 2-4 threads incl. Node::make_reference and the u32 counter wrap, 40 sequential allocations over "
                     "several wraps; the whole recorded trace validated by TLC against the spec with Unique / CreationInForce / RefUnique checked in every state; distinct = scenarios")
    v.assumptions += ["interleavings are controlled at the guarded sync points only (one per atomic step of allocate / make_reference)",
                      "serials and reference words are logged relative to their start value so that TLC's 32-bit integers can hold them (a bijection, so uniqueness is preserved)"]
    return v.finish()


def replay(path, seed):
    rp = json.load(open(path))
    for viol in rp["violations"][:20]:
        lib.log("replay:", viol["what"], json.dumps(viol["case"])[:800])
    lib.log(f"VIOLATION property={PID} replay={path}")
    return 1
