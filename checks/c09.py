"""C09 — fragment reassembly returns the original message once, in any arrival order.
Spec: spec/Fragments.tla.  Binding B2 (state-graph edge replay on FragmentAssembler)."""
import json, os
import lib

PID = "C09"


def piece(mode, seq, i):
    if mode == "pair":
        return [seq & 255, i & 255]
    r = (seq + i) % 3
    if r == 0:
        return []
    if r == 1:
        return [(16 * seq + i) & 255]
    return [(k * 7 + 31 * seq + i) & 255 for k in range(1000)]


def concat(mode, tokens):
    out = []
    for t in tokens:
        out += piece(mode, t[0], t[1])
    return out


def model_checks(v, tier):
    cov = v.cov
    fixed = "mc/Fragments_fixed.cfg" if tier == "thorough" else "mc/Fragments_fixed_quick.cfg"
    r = lib.tlc_expect_ok("Fragments.tla", fixed, PID, "mc_fixed")
    cov["states"] = r.distinct
    cov["transitions"] = r.generated
    cov["mc_configs"] = [{"cfg": fixed, "distinct": r.distinct, "generated": r.generated, "result": "Refines, HeldOnlyIncomplete, CountMatchesSlots, Isolation hold"}]
    if tier == "thorough":
        r3 = lib.tlc_expect_ok("Fragments.tla", "mc/Fragments_fixed3.cfg", PID, "mc_fixed3")
        cov["states"] += r3.distinct
        cov["transitions"] += r3.generated
        cov["mc_configs"].append({"cfg": "mc/Fragments_fixed3.cfg", "distinct": r3.distinct, "generated": r3.generated, "result": "holds (3 interleaved sequences)"})
    # non-vacuity: each protection switched off / the as-coded deviation must yield a counterexample
    for cfg, inv in (("mc/Fragments_ascoded.cfg", "Refines"), ("mc/Fragments_nodup.cfg", "Refines"),
                     ("mc/Fragments_norange.cfg", "Refines"), ("mc/Fragments_noremove.cfg", "HeldOnlyIncomplete")):
        rr = lib.tlc_expect_violation("Fragments.tla", cfg, PID, "mc_" + os.path.basename(cfg)[10:-4], inv)
        cov["mc_configs"].append({"cfg": cfg, "result": f"counterexample to {inv} found as expected", "distinct": rr.distinct})
    rt = lib.tlc_expect_ok("FragmentsTimed.tla", "mc/FragmentsTimed_fixed.cfg", PID, "mc_timed")
    cov["states"] += rt.distinct
    cov["transitions"] += rt.generated
    cov["mc_configs"].append({"cfg": "mc/FragmentsTimed_fixed.cfg", "distinct": rt.distinct, "generated": rt.generated,
                              "result": "Refines, HoldsExactly, AgesAgree, CountMatchesSlots hold (expiry per sequence, ticks)"})
    rr = lib.tlc_expect_violation("FragmentsTimed.tla", "mc/FragmentsTimed_lateheader.cfg", PID, "mc_timed_lateheader", "HoldsExactly")
    cov["mc_configs"].append({"cfg": "mc/FragmentsTimed_lateheader.cfg", "result": "counterexample to HoldsExactly found as expected", "distinct": rr.distinct})


def run(tier, seed):
    v = lib.Verdict(PID, tier, seed, "model_checking")
    model_checks(v, tier)
    size = "thorough" if tier == "thorough" else "quick"
    traces = 0
    edges_total = 0
    paths_total = 0
    for expire in ("all", "none"):
        r = lib.tlc("gen/Gen_Fragments.tla", f"gen/Gen_Fragments_{expire}_{size}.cfg", PID, f"gen_{expire}", workers=1)
        edges = r.printed()
        if not edges or r.rc != 0:
            raise lib.ToolError(f"edge emitter produced {len(edges)} edges rc={r.rc}")
        ep = os.path.join(lib.outdir(PID), f"edges_{expire}.ndjson")
        lib.write_ndjson(ep, edges)
        # third run: the header fragment also carries an atom cache section, which is the start of the message
        runs = [("pair", [1, 2], False), ("mixed", [0, 18446744073709551615], False), ("pair", [3, 4], True)]
        if tier == "thorough":
            runs.append(("pair", [seed % 1000 + 5, 2 ** 63], False))
            runs.append(("mixed", [7, 8], True))
        for mode, seq_map, cache in runs:
            op = os.path.join(lib.outdir(PID), f"obs_{expire}_{mode}{'_cache' if cache else ''}.ndjson")
            cfg = {"expire": expire, "payload": mode, "seq_map": seq_map, "cache": cache}
            rc, out = lib.harness(["frag-edges", ep, op, json.dumps(cfg)])
            stats = json.loads(out.strip().splitlines()[-1])
            if stats["reached"] != stats["states"]:
                raise lib.ToolError(f"edge replay reached {stats['reached']} of {stats['states']} model states")
            edges_total += stats["edges_taken"]
            for o in lib.read_ndjson(op):
                traces += 1
                judge(v, o, mode, cfg)
            if mode == "pair" and not cache:
                paths_total += all_paths(v, ep, cfg, mode, 5 if tier == "thorough" else 4, f"{expire}")
    # ---- the timed model: expiry per sequence (ticks through the guarded hook verif_backdate)
    r = lib.tlc("gen/Gen_FragmentsTimed.tla", f"gen/Gen_FragmentsTimed_{size}.cfg", PID, "gen_timed", workers=1)
    edges = r.printed()
    if not edges or r.rc != 0:
        raise lib.ToolError(f"timed edge emitter produced {len(edges)} edges rc={r.rc}")
    ep = os.path.join(lib.outdir(PID), "edges_timed.ndjson")
    lib.write_ndjson(ep, edges)
    for mode, seq_map, cache in [("pair", [1, 2], False), ("mixed", [9, 4], True)]:
        op = os.path.join(lib.outdir(PID), f"obs_timed_{mode}.ndjson")
        cfg = {"expire": "none", "timed": True, "payload": mode, "seq_map": seq_map, "cache": cache}
        rc, out = lib.harness(["frag-edges", ep, op, json.dumps(cfg)])
        stats = json.loads(out.strip().splitlines()[-1])
        if stats["reached"] != stats["states"]:
            raise lib.ToolError(f"timed edge replay reached {stats['reached']} of {stats['states']} model states")
        edges_total += stats["edges_taken"]
        for o in lib.read_ndjson(op):
            traces += 1
            judge(v, o, mode, cfg)
        if mode == "pair":
            paths_total += all_paths(v, ep, cfg, mode, 7 if tier == "thorough" else 6, "timed")
    v.cov["traces_validated_against_impl"] = traces
    v.cov["paths_walked_on_impl"] = paths_total
    v.cov["exhaustive"] = True
    v.cov["rule"] = ("every transition of the Fragments model (2 sequence ids, all arrival orders, duplicates, ids 0 and n+1, "
                     "header first/middle/last, cleanup/clear) replayed once on the real FragmentAssembler after driving it to the "
                     "transition's source state; distinct = distinct (source state, action) pairs; the timed model (per-sequence ages, ticks through the "
                     "guarded hook verif_backdate) the same way; in addition EVERY path of the graphs up to 4 (timed: 6) steps is driven on the real "
                     "assembler and each step's observation compared with the access-path observation of the same model edge")
    v.assumptions += ["TLC (explicit-state) and the CommunityModules Json module", "harness/src/edges.rs + frag.rs (projection via guarded hook verif_snapshot)",
                      "tokens <<seq,id>> stand for arbitrary payloads: two payload maps (distinct 2-byte pieces; lengths 0/1/1000)"]
    return v.finish()


def all_paths(v, ep, cfg, mode, depth, tag):
    """every path of the model graph up to `depth` steps driven on the real assembler; the steps whose observation differs
    from the access-path replay of the same model edge (already judged) come back and are judged like any observation"""
    op = os.path.join(lib.outdir(PID), f"paths_{tag}.ndjson")
    rc, out = lib.harness(["frag-paths", ep, op, json.dumps(cfg), str(depth)])
    stats = json.loads(out.strip().splitlines()[-1])
    for o in lib.read_ndjson(op):
        nv = len(v.violations)
        judge(v, o, mode, cfg)
        if len(v.violations) == nv:
            v.add_drift("the real assembler's observable state depends on the path taken to a model state", {"path": o["path"], "act": o["act"]})
    return stats["paths"]


def judge(v, o, mode, cfg):
    act = o["act"]
    key = json.dumps([o["model_from"], act, cfg])
    v.case(key)
    case = {"cfg": cfg, "path": o["path"], "act": act}
    retA, retI = o["retA"], o["retI"]
    cache = (lambda toks: [200 + toks[0][0], 201, 202]) if cfg.get("cache") else (lambda toks: [])
    exp = None if not retA else cache(retA) + concat(mode, retA)
    obs = o["obs_ret"]
    if obs != exp:
        pred = None if not retI else cache(retI) + concat(mode, retI)
        case.update({"expected_tokens": retA, "observed_len": None if obs is None else len(obs),
                     "observed": None if obs is None else obs[:16]})
        n_frag = len(retA)
        if obs == pred and n_frag >= 2 and exp is not None and obs is not None:
            v.classify("returned bytes are not the original message (pieces in the wrong order)", case, ["C09-order"])
        else:
            what = "assembler returned a message where none is due" if exp is None else \
                   ("assembler returned nothing although the last missing fragment arrived" if obs is None
                    else "returned bytes differ from the original message")
            v.violation(what, case)
    else:
        if exp is not None:
            v.sample({"path": o["path"], "act": act, "returned_tokens": retA, "payload_mode": mode})
    # held data: every piece the real object holds belongs to a sequence the abstract layer still waits for
    mt = o["model_to"]
    seqs = o["obs_after"]["seqs"]
    for ms, info in seqs.items():
        ms = int(ms)
        if ms == 0:
            v.violation("assembler holds data under a sequence id nobody sent", case)
            continue
        agot = set(mt[ms - 1]["agot"])
        held = set(info["ids"])
        if not held <= agot:
            c = dict(case); c.update({"held_ids": sorted(held), "abstract_incomplete_ids": sorted(agot)})
            v.violation("assembler still holds pieces of a sequence that is complete, expired or never sent them", c)
        exp_bytes = sum(len(piece(mode, ms, i)) for i in held)
        if info["bytes"] != exp_bytes:
            c = dict(case); c.update({"bytes_held": info["bytes"], "expected": exp_bytes})
            v.violation("bytes held differ from the pieces held", c)
        if cfg.get("timed") and held != agot:
            c = dict(case); c.update({"held_ids": sorted(held), "ids_of_the_incomplete_unexpired_sequence": sorted(agot)})
            v.violation("assembler lost pieces of a sequence that is neither complete nor expired", c)
        impl_held = set(mt[ms - 1]["slots"]) | set(mt[ms - 1]["pend"])
        if held != impl_held:
            v.add_drift("held ids differ from the implementation layer of the spec", case)
    if cfg.get("timed"):
        for i, ms_ in enumerate(mt):
            if ms_["agot"] and str(i + 1) not in seqs:
                c = dict(case); c.update({"sequence": i + 1, "ids_of_the_incomplete_unexpired_sequence": ms_["agot"]})
                v.violation("assembler lost a sequence that is neither complete nor expired", c)
    # pending_count is compared with the implementation layer only as drift
    model_present = sum(1 for s in mt if s["present"])
    if o["obs_after"]["pending_count"] != model_present:
        v.add_drift(f"pending_count {o['obs_after']['pending_count']} vs model {model_present}", case)


def replay(path, seed):
    with open(path) as f:
        rp = json.load(f)
    import subprocess
    bad = 0
    for viol in rp["violations"][:20]:
        c = viol["case"]
        edges = [{"from": i, "to": i + 1, "act": a, "retA": [], "retI": []} for i, a in enumerate(c["path"] + [c["act"]])]
        ep = os.path.join(lib.outdir(PID), "replay_edges.ndjson")
        op = os.path.join(lib.outdir(PID), "replay_obs.ndjson")
        lib.write_ndjson(ep, edges)
        lib.harness(["frag-edges", ep, op, json.dumps(c["cfg"])])
        obs = lib.read_ndjson(op)[-1]
        lib.log(f"replay: {viol['what']}\n  path={c['path']}\n  act={c['act']}\n  spec expected tokens={c.get('expected_tokens')}\n  code returned={obs['obs_ret'] if obs['obs_ret'] is None else obs['obs_ret'][:32]} held={obs['obs_after']}")
        bad += 1
    if bad:
        lib.log(f"VIOLATION property={PID} replay={path}")
        return 1
    return 0
