"""Shared by C01 / C03 / C10 / C13: universe generation (TLC), codec observations (harness),
TLA+ parsing of library bytes (TLC), value helpers."""
import json, os
import lib, tables


def gen_vectors(pid, universe="D2", alts=True, heavy=False, tag="gen"):
    tables.write(lib.ROOT)
    out = os.path.join(lib.outdir(pid), f"universe_{tag}.ndjson")
    unenc = os.path.join(lib.outdir(pid), f"unenc_{tag}.ndjson")
    twins = os.path.join(lib.outdir(pid), f"twins_{tag}.ndjson")
    cfg = "gen/Gen_Etf_heavy.cfg" if heavy else "gen/Gen_Etf.cfg"
    r = lib.tlc("gen/Gen_Etf.tla", cfg, pid, tag, workers=2,
                env={"OUT": out, "OUT_UNENC": unenc, "OUT_TWINS": twins, "UNIVERSE": universe, "ALTS": "1" if alts else "0"}, timeout=3000)
    if r.rc != 0 or not os.path.exists(out):
        raise lib.ToolError(f"vector generator failed rc={r.rc}; see out/{pid}/tlc_{tag}.log")
    recs = lib.read_ndjson(out)
    for i, rec in enumerate(recs):
        rec["id"] = i
    n = len(recs)
    un = lib.read_ndjson(unenc)
    for j, rec in enumerate(un):
        rec["id"] = n + j
        rec["enc"] = []
        rec["alts"] = []
        rec["unenc"] = True
    vp = os.path.join(lib.outdir(pid), f"vectors_{tag}.ndjson")
    lib.write_ndjson(vp, recs + un)
    return vp, recs, un


def self_check(pid, universe="D1", tag="selfcheck"):
    tables.write(lib.ROOT)
    r = lib.tlc("mc/MC_Etf.tla", "mc/MC_Etf.cfg", pid, tag, workers=2, env={"UNIVERSE": universe}, timeout=3000)
    if r.rc != 0 or "FAIL" in r.text or "ACCEPTED" in r.text or r.assume_failed:
        raise lib.ToolError(f"reference model self-check failed (spec/Etf.tla encoder vs parser); see out/{pid}/tlc_{tag}.log")
    return r


def check_and_gen(pid, check_universe, gen_universe, alts, heavy):
    """the spec's self-check and the vector generation are independent TLC runs: side by side"""
    from concurrent.futures import ThreadPoolExecutor
    with ThreadPoolExecutor(max_workers=2) as ex:
        f1 = ex.submit(self_check, pid, check_universe)
        f2 = ex.submit(gen_vectors, pid, gen_universe, alts, heavy)
        sc = f1.result()
        vp, recs, unenc = f2.result()
    return sc, vp, recs, unenc


def run_obs(pid, vec_path, opts, tag="obs"):
    op = os.path.join(lib.outdir(pid), f"{tag}.ndjson")
    lib.harness(["etf-obs", vec_path, op, json.dumps(opts)])
    return lib.read_ndjson(op)


def tlc_parse(pid, items, tag="parse"):
    """items: list of {id, bytes}. Returns {id: (ok, value)} as read by the TLA+ parser."""
    tables.write(lib.ROOT)
    ip = os.path.join(lib.outdir(pid), f"{tag}_in.ndjson")
    op = os.path.join(lib.outdir(pid), f"{tag}_out.ndjson")
    lib.write_ndjson(ip, items)
    if os.path.exists(op):
        os.remove(op)
    r = lib.tlc("gen/Parse_Etf.tla", "gen/Parse_Etf.cfg", pid, tag, workers=2, env={"IN": ip, "OUT": op}, timeout=3000)
    if r.rc != 0 or not os.path.exists(op):
        raise lib.ToolError(f"TLA+ parser run failed rc={r.rc}; see out/{pid}/tlc_{tag}.log")
    return {o["id"]: (o["ok"], o["v"]) for o in lib.read_ndjson(op)}


# ------------------------------------------------------------------ value helpers
def walk(v):
    if isinstance(v, dict):
        if "k" in v:
            yield v
        for x in v.values():
            yield from walk(x)
    elif isinstance(v, list):
        for x in v:
            yield from walk(x)


def int_ge_2_31(i):
    m = i.get("mag", [])
    return len(m) > 4 or (len(m) == 4 and m[3] >= 128)


def is_number(v):
    return v.get("k") in ("int", "float")


def num_value(v):
    """exact rational value of small numbers as python number (only used for key twins)"""
    import struct
    if v["k"] == "int":
        x = 0
        for i, d in enumerate(v["mag"]):
            x |= d << (8 * i)
        return -x if v["neg"] else x
    f = struct.unpack(">d", bytes(v["bits"]))[0]
    return f


def has_numeric_twin_keys(v):
    """a map somewhere inside v has two keys that are distinct Erlang terms but compare == numerically"""
    for n in walk(v):
        if n.get("k") == "map":
            nums = [p[0] for p in n["kv"] if is_number(p[0])]
            for i in range(len(nums)):
                for j in range(i + 1, len(nums)):
                    if nums[i] != nums[j] and num_value(nums[i]) == num_value(nums[j]):
                        return True
    return False


def has_local(v):
    return any(n.get("k") in ("pid", "port", "ref") and n.get("loc") for n in walk(v))


def short(v, n=300):
    s = json.dumps(v, separators=(",", ":"))
    return s if len(s) <= n else s[:n] + "…"
