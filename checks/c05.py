"""C05 — framing is invariant under how the transport splits the byte stream.
Spec: spec/Framing.tla (framer, transport nondeterminism, two-phase deframer).  TLC model-checks the
design and prints every finished behaviour's schedule; each schedule is replayed on the real
MessageDeframer over a scripted AsyncRead, and on MessageFramer over a scripted AsyncWrite."""
import json, os, random
import lib

PID = "C05"
REAL_CAP = 256 * 1024 * 1024


def be(n, w):
    return list(n.to_bytes(w, "big"))


def run(tier, seed):
    v = lib.Verdict(PID, tier, seed, "model_checking")
    thorough = tier == "thorough"
    rng = random.Random(seed)
    states = trans = 0
    v.cov["mc_configs"] = []
    for c in ("4", "2", "cap", "short"):
        r = lib.tlc_expect_ok("mc/MC_Framing.tla", f"mc/MC_Framing_{c}.cfg", PID, f"mc_{c}")
        states += r.distinct
        trans += r.generated
        v.cov["mc_configs"].append({"cfg": f"MC_Framing_{c}", "distinct": r.distinct, "generated": r.generated, "result": "all invariants hold"})
    rt_ = lib.tlc_expect_ok("mc/MC_Framing.tla", "mc/MC_Framing_timeout.cfg", PID, "mc_timeout")
    v.cov["mc_configs"].append({"cfg": "MC_Framing_timeout", "distinct": rt_.distinct, "generated": rt_.generated, "result": "all invariants hold when a read timeout ends the stream (GiveUp)"})
    lib.tlc_expect_violation("mc/MC_Framing.tla", "mc/MC_Framing_resume.cfg", PID, "mc_resume", "OutIsPrefixOfSent")
    v.cov["mc_configs"].append({"cfg": "MC_Framing_resume", "result": "counterexample to OutIsPrefixOfSent when reading goes on after a read timeout inside a frame (the scenario run on the real node by C17's stalled reply)"})
    lib.tlc_expect_violation("mc/MC_Framing.tla", "mc/MC_Framing_weak.cfg", PID, "mc_weak", "OutIsPrefixOfSent")
    v.cov["mc_configs"].append({"cfg": "MC_Framing_weak", "result": "counterexample to OutIsPrefixOfSent as expected (EofYieldsShort)"})
    v.cov["states"], v.cov["transitions"] = states, trans
    # schedules of every finished behaviour
    recs = []
    for c in (("2", "short") if not thorough else ("2", "short", "cap")):
        r = lib.tlc("mc/MC_Framing.tla", f"gen/Gen_Framing_{c}.cfg", PID, f"gen_{c}", workers=1, timeout=1500)
        beh = r.printed()
        if r.rc != 0 or not beh:
            raise lib.ToolError(f"schedule emitter {c} failed")
        if c == "cap":
            continue      # the model's small cap has no counterpart in the code; the cap clause is bound below with real sizes
        for b in beh:
            b["cfg"] = c
        recs += beh
    if not thorough and len(recs) > 40000:
        keep = rng.sample(range(len(recs)), 40000)
        recs = [recs[i] for i in sorted(keep)]
    # the cap clause and the length classes with real sizes (OverCapRefused with Cap = 256 MiB)
    big = []
    for ln, body, tail, expect in (
            (REAL_CAP + 1, 0, [], "refused"), (2 ** 32 - 1, 16, [], "refused"), (2 ** 31, 0, [], "refused"),
            (REAL_CAP, 10, [], "eof"), (65535, 65535, be(1, 4) + [9], "two"), (65536, 65536, be(0, 4) + be(1, 4) + [9], "three")):
        big.append({"kind": "read", "prefix": 4, "wire_template": {"head": be(ln, 4), "body": body, "tail": tail}, "sched": [4, 7, 100000, 65536, 70000, 5, -1],
                    "expect": expect, "len": ln})
    # bodies beyond 64 KiB followed by further frames that arrive in one piece with the body's tail (coalesced delivery)
    for ln in (65537, 70000, 131073, 200000):
        for sched in ([4, 1000, 400000, -1], [4, ln - 7, 400000, -1], [3, 1, 65536, 400000, -1], [400000, -1]):
            big.append({"kind": "read", "prefix": 4, "wire_template": {"head": be(ln, 4), "body": ln, "tail": be(2, 4) + [8, 9] + be(0, 4) + be(1, 4) + [7]}, "sched": sched,
                        "expect": "big_then", "len": ln})
    big.append({"kind": "read", "prefix": 2, "wire_template": {"head": be(65535, 2), "body": 65535, "tail": be(1, 2) + [9]}, "sched": [1, 1, 65535, 3, -1], "expect": "two", "len": 65535})
    # writer: streaming vs one-shot under partial writes
    writes = []
    sents = {}
    for b in recs:
        sents[(json.dumps(b["sent"]), b["prefix"])] = b
    for (s, prefix), b in sents.items():
        total = len(b["wire"])
        scheds = [[1] * (total + 5), [total + 10], [2, 0, 1, 0, 3] * total, [0, 1] * (total + 2), [3] * (total + 5), [4, 0] * (total + 5), [5] * (total + 5), [7, 1] * (total + 5)]
        for _ in range(20 if thorough else 5):
            scheds.append([rng.choice([0, 1, 1, 2, 3, 5]) for _ in range(3 * total)] + [1000])
        for sc in scheds:
            # a writer may accept any non-empty prefix of what it is offered -- also of a gathered (vectored) write
            for vectored in (False, True):
                writes.append({"kind": "write", "prefix": prefix, "sent": b["sent"], "sched": sc, "wire": b["wire"], "vectored": vectored})
    # ---- the same message sequences over real sockets through FramedTransport (transport.rs): a 2-byte-prefix part followed by a
    # 4-byte-prefix part in one stream, delivered in one piece / in small pieces; after the first part the reader either switches the
    # transport's mode or takes the read half and goes on with a MessageDeframer of its own (what Connection and Node do)
    seq2 = [json.loads(k[0]) for k in sents if k[1] == 2][:6] + [[[1] * 255, [], [2] * 256], [[3] * 65535, [4]]]
    seq4 = [json.loads(k[0]) for k in sents if k[1] == 4][:6] + [[[5] * 65535, [], [6] * 65536, [7]], [[], [], [8] * 70000]]
    tscen = []
    for a in (seq2 or [[[1], [], [2, 3]]]):
        for b in (seq4 or [[[9], [], [8, 7]]]):
            total = sum(len(m) + 2 for m in a) + sum(len(m) + 4 for m in b)
            # small streams: one write, byte by byte, 3-byte pieces; big ones: one write, 4097- and 65537-byte pieces (the transport reads a
            # whole frame under one timeout, so tiny pieces of a big frame would only exercise that timeout)
            for chunk in ((0, 1, 3) if total < 2000 else (0, 4097, 65537)):
                for hand in ("mode", "read_half"):
                    tscen.append({"id": len(tscen), "hs": a, "dist": b, "chunk": chunk, "handover": hand})
    if not thorough:
        tscen = tscen[:60]
        for i, t in enumerate(tscen):
            t["id"] = i
    tp = os.path.join(lib.outdir(PID), "transport_in.ndjson")
    to = os.path.join(lib.outdir(PID), "transport_out.ndjson")
    lib.write_ndjson(tp, tscen)
    lib.harness(["transport-run", tp, to], timeout=900)
    for o in lib.read_ndjson(to):
        t = tscen[o["id"]]
        v.case("transport" + json.dumps([t["hs"], t["dist"], t["chunk"], t["handover"]]))
        case = {"handshake_mode_messages": t["hs"], "distribution_mode_messages": t["dist"], "delivery": "one write" if t["chunk"] == 0 else f"{t['chunk']}-byte pieces", "handover": t["handover"]}
        if "tool_error" in o:
            raise lib.ToolError("transport scenario did not run: " + o["tool_error"])
        if o["read_hs"] != t["hs"] or o["read_dist"] != t["dist"]:
            v.violation("frames read back through FramedTransport (and after the read-half handover) are not the messages that were sent",
                        {**case, "read_handshake_part": o["read_hs"], "read_distribution_part": o["read_dist"], "errors": o["errors"]})
        if not o["written_matches_framing"]:
            v.violation("FramedTransport::write did not produce the protocol's framing of the messages", {**case, "bytes_written": o["written_len"], "bytes_expected": o["expected_len"], "errors": o["errors"]})
    v.cov["transport_scenarios"] = len(tscen)
    allrecs = recs + big + writes
    for i, r in enumerate(allrecs):
        r["id"] = i
        r.setdefault("kind", "read")
    ip = os.path.join(lib.outdir(PID), "schedules.ndjson")
    op = os.path.join(lib.outdir(PID), "obs.ndjson")
    lib.write_ndjson(ip, allrecs)
    lib.harness(["framing-run", ip, op])
    n_traces = 0
    for o in lib.read_ndjson(op):
        r = allrecs[o["id"]]
        if "panic" in o:
            v.violation("framing code panicked", {"schedule": r.get("sched"), "panic": o["panic"]})
            continue
        if r["kind"] == "write":
            v.case("w" + json.dumps([r["sent"], r["sched"], r["prefix"]]))
            case = {"messages": r["sent"], "prefix_bytes": r["prefix"], "write_sizes": r["sched"][:40], "writer_gathers": r.get("vectored", False)}
            if o["err"]:
                v.violation("write_framed failed under partial writes", {**case, "err": o["err"]})
            if o["streamed"] != r["wire"]:
                v.violation("streaming writer produced different bytes than the protocol's framing", {**case, "expected": r["wire"], "got": o["streamed"]})
            if o["one_shot"] != r["wire"]:
                v.violation("frame_message produced different bytes than the protocol's framing", {**case, "expected": r["wire"], "got": o["one_shot"]})
            continue
        if "expect" in r:
            v.case("big" + json.dumps([r["len"], r["prefix"], r["expect"], r["sched"]]))
            case = {"declared_length": r["len"], "prefix_bytes": r["prefix"], "obs": {k: o[k] for k in ("err", "consumed", "largest_alloc")}, "returned": len(o["out"])}
            if r["expect"] == "refused":
                if o["err"] is None or o["out"]:
                    v.violation("a declared length above the cap was not refused", case)
                if o["largest_alloc"] > 16 * 1024 * 1024:
                    v.violation("a buffer was allocated for a declared length above the cap", case)
            elif r["expect"] == "eof":
                if o["err"] is None or o["out"]:
                    v.violation("end-of-stream inside a frame did not end in an error", case)
            elif r["expect"] == "big_then":
                ok = len(o["out"]) == 4 and len(o["out"][0]) == r["len"] and set(o["out"][0]) == {0xAB} and o["out"][1:] == [[8, 9], [], [7]]
                if not ok:
                    v.violation("a frame beyond 64 KiB followed by further frames in the same delivery was not read back as sent", {**case, "schedule": r["sched"], "lengths_returned": [len(x) for x in o["out"]]})
            else:
                want = 2 if r["expect"] == "two" else 3
                if len(o["out"]) != want or len(o["out"][0]) != r["len"] or o["out"][-1] != [9]:
                    v.violation("frames around the 2^16 boundary were not returned intact", case)
            continue
        n_traces += 1
        v.case(json.dumps([r["cfg"], r["sched"]]))
        exp = r["outcome"]
        case = {"messages": r["sent"], "prefix_bytes": r["prefix"], "schedule": r["sched"], "model": exp}
        if o["out"] != exp["out"]:
            what = "deframer returned a short / altered / extra message" if len(o["out"]) >= len(exp["out"]) else "deframer lost a message"
            v.violation(what, {**case, "returned": o["out"]})
        if exp["state"] == "eof" and o["err"] is None:
            v.violation("end-of-stream did not end in an error", {**case, "obs": o})
        if exp["state"] in ("len", "body") and o["err"] is not None:
            v.violation("deframer reported an error on a healthy stream", {**case, "err": o["err"]})
        if o["consumed"] != exp["consumed"]:
            v.add_drift("reader consumed a different number of bytes than the model", case)
        if n_traces % 9000 == 1:
            v.sample({"schedule": r["sched"], "messages": r["sent"], "returned": o["out"], "end": exp["state"]})
    v.cov["traces_validated_against_impl"] = n_traces
    v.cov["writer_schedules"] = len(writes)
    v.cov["real_size_cases"] = len(big)
    v.cov["exhaustive"] = not (not thorough and len(recs) == 40000)
    v.cov["rule"] = ("TLC enumerates every behaviour of the transport (every chunking of the wire, up to 2 pending answers, close at every point) for a 2-byte-prefix stream "
                     "of 3 messages (10 wire bytes) and a 4-byte-prefix stream of 3 messages (15 wire bytes), each incl. a zero-length frame; every finished behaviour's schedule is "
                     "replayed on read_framed over a scripted AsyncRead; writer under 9+ partial-write schedules per stream; cap and 2^16 classes with real sizes; "
                     "distinct = distinct schedules")
    v.assumptions += ["harness ScriptedRead/ScriptedWrite implement the schedule semantics of Framing.tla (chunk = bytes available, 0 = Pending once, -1 = end of stream)"]
    return v.finish()


def replay(path, seed):
    rp = json.load(open(path))
    for viol in rp["violations"][:20]:
        lib.log("replay:", viol["what"], json.dumps(viol["case"])[:800])
    lib.log(f"VIOLATION property={PID} replay={path}")
    return 1
