"""Writes spec/gen/OrderUniverse.tla: the universe of values for C11/C12 as a TLA+ sequence.
Only constants are produced here (digit strings of integers, IEEE bytes of floats); the order itself
is computed by TLC from spec/EtfOrder.tla."""
import os, struct


def tla(v):
    if isinstance(v, bool):
        return "TRUE" if v else "FALSE"
    if isinstance(v, int):
        return str(v)
    if isinstance(v, str):
        return '"' + v + '"'
    if isinstance(v, list):
        return "<<" + ", ".join(tla(x) for x in v) + ">>"
    if isinstance(v, dict):
        return "[" + ", ".join(f"{k} |-> {tla(x)}" for k, x in v.items()) + "]"
    raise TypeError(v)


def I(n):
    mag = []
    m = abs(n)
    while m:
        mag.append(m & 255)
        m >>= 8
    return {"k": "int", "neg": n < 0, "mag": mag}


def F(x):
    return {"k": "float", "bits": list(struct.pack(">d", x))}


def FB(bits):
    return {"k": "float", "bits": list(struct.pack(">Q", bits))}


def A(s):
    return {"k": "atom", "b": list(s.encode())}


def B(b):
    return {"k": "bin", "b": list(b)}


def Bits(b, n):
    return {"k": "bits", "b": list(b), "n": n}


NIL = {"k": "nil"}


def L(es, t=None):
    return {"k": "list", "e": es, "t": t or NIL}


def T(*es):
    return {"k": "tuple", "e": list(es)}


def M(*kv):
    return {"k": "map", "kv": [[k, v] for k, v in kv]}


NODE = A("n@h")


def Pid(i, s=0, c=1, loc=None, node=NODE):
    return {"k": "pid", "node": node, "id": list(struct.pack(">I", i)), "serial": list(struct.pack(">I", s)), "creation": list(struct.pack(">I", c)), "loc": loc or []}


def Port(i, c=1, loc=None):
    return {"k": "port", "node": NODE, "id": list(struct.pack(">Q", i)), "creation": list(struct.pack(">I", c)), "loc": loc or []}


def Ref(ws, c=1, loc=None):
    return {"k": "ref", "node": NODE, "creation": list(struct.pack(">I", c)), "words": [list(struct.pack(">I", w)) for w in ws], "loc": loc or []}


def Fun(oi, free, index=1):
    return {"k": "fun", "arity": 1, "uniq": list(range(1, 17)), "index": list(struct.pack(">I", index)), "m": A("m"), "oi": I(oi), "ou": I(7), "pid": Pid(1), "free": free}


def Exp(m, f, a):
    return {"k": "export", "m": A(m), "f": A(f), "a": a}


def universe(thorough):
    nums = [I(0), I(1), I(-1), I(2), I(255), I(256), I(2 ** 31 - 1), I(2 ** 31), I(-2 ** 31), I(-2 ** 31 - 1),
            I(2 ** 53 - 1), I(2 ** 53), I(2 ** 53 + 1), I(2 ** 53 + 2), I(-(2 ** 53) - 1), I(2 ** 63 - 1), I(2 ** 63), I(2 ** 63 + 1), I(-2 ** 63), I(-2 ** 63 - 1),
            I(2 ** 64 - 1), I(2 ** 64), I(2 ** 64 + 1), I(10 ** 20), I(10 ** 20 + 1), I(-10 ** 20), I(10 ** 20 - 1),
            I(2 * 256 ** 8 + 1), I(1 * 256 ** 8 + 2), I(-(2 * 256 ** 8 + 1)), I(-(1 * 256 ** 8 + 2)), I(255 * 256 ** 8), I(256 ** 8 + 255),
            I(2 ** 1023), I(2 ** 1024), I(-(2 ** 1024)), I(int(1.7976931348623157e308)), I(int(1.7976931348623157e308) + 1),
            F(0.0), F(-0.0), F(1.0), F(-1.0), F(1.5), F(0.5), F(-0.5), F(255.5), F(2.0 ** 31), F(-2.0 ** 31), F(2.0 ** 53), F(2.0 ** 53 + 2), F(-(2.0 ** 53)),
            F(2.0 ** 63), F(-(2.0 ** 63)), F(2.0 ** 64), F(1e20), FB(struct.unpack(">Q", struct.pack(">d", 1e20))[0] + 1), FB(struct.unpack(">Q", struct.pack(">d", 1e20))[0] - 1),
            F(-1e20), F(1.7976931348623157e308), F(-1.7976931348623157e308), FB(1), FB(0x8000000000000001), F(2.0 ** 1023), F(9007199254740993.0), F(4.5e15 + 0.5)]
    if thorough:
        nums += [I(2 ** 62), I(-(2 ** 62)), I(3), I(-255), I(-256), I(65536), I(2 ** 52), I(2 ** 52 + 1), F(2.0 ** 52), F(2.0 ** 52 + 1), F(2.0 ** 62), F(3.0), F(2.5), F(-2.5),
                 I(256 ** 20 + 5), I(256 ** 20 + 4 * 256 ** 10), I(-(256 ** 20 + 5)), F(float(256 ** 20)), I(10 ** 30), F(1e30), I(2 ** 971 * (2 ** 53 - 1) - 1), F(1e-300), I(7 * 256 ** 299)]
    atoms = [A(""), A("a"), A("b"), A("aa"), A("ab"), A("é"), A("z"), A("€")]
    ids = [Ref([1]), Ref([2]), Ref([1, 2]), Ref([1], c=2), Ref([1], loc=[9, 8, 7, 6, 5, 4, 3, 2]),
           # zero words at either end, and no words at all: different word sequences are different references
           Ref([1, 0]), Ref([1, 2, 0]), Ref([0, 1]), Ref([0]), Ref([]), Ref([1, 2, 0, 0]),
           Exp("m", "f", 1), Exp("m", "f", 2), Exp("m", "g", 1), Fun(1, []), Fun(2, []), Fun(1, [I(1)]), Fun(1, [F(1.0)]), Fun(1, [I(2)]),
           Port(1), Port(2), Port(1, c=2), Port(1, loc=[1, 1, 1, 1, 1, 1, 1, 1]),
           Pid(1), Pid(2), Pid(1, s=1), Pid(1, c=2), Pid(1, loc=[9, 8, 7, 6, 5, 4, 3, 2]),
           # every field at its full width: values that differ only in their high bits (or only beyond the low 16 / 32) are different identifiers
           Port(5), Port(9), Port(2 ** 32), Port(2 ** 32 + 5), Port(2 ** 32 + 9), Port(2 ** 63), Port(2 ** 64 - 1), Port(5, c=2 ** 32 - 1), Port(5, c=2 ** 16 + 1),
           Pid(2 ** 16 + 1), Pid(2 ** 31), Pid(2 ** 32 - 1), Pid(1, s=2 ** 16 + 1), Pid(1, s=2 ** 32 - 1), Pid(1, c=2 ** 16 + 1), Pid(1, c=2 ** 32 - 1),
           Ref([2 ** 16 + 1]), Ref([2 ** 32 - 1]), Ref([1, 2 ** 32 - 1]), Ref([1], c=2 ** 16 + 1), Ref([1], c=2 ** 32 - 1),
           Pid(1, node=A("n@i")), Pid(1, node=A("N@h"))]
    tuples = [T(), T(I(1)), T(F(1.0)), T(I(2)), T(I(1), I(2)), T(A("a")), T(T()), T(I(2 ** 53 + 1)), T(F(2.0 ** 53)), T(B(b"\x01")), T(Bits(b"\x01", 8) if False else B(b"\x01\x02")),
              T(I(1), A("z")), T(F(1.0), A("a")), T(L([I(1)])), T(L([I(1)], I(2)))]
    maps = [M(), M((I(1), A("a"))), M((F(1.0), A("a"))), M((I(1), A("b"))), M((I(2), A("a"))), M((A("a"), I(1)), (A("b"), I(2))), M((A("a"), I(2)), (A("b"), I(1))),
            M((I(1), A("a")), (I(2), A("b"))), M((I(1), A("b")), (I(2), A("a"))), M((I(1), A("a")), (I(3), A("a"))), M((A("a"), F(1.0))), M((A("a"), I(1))),
            M((I(1), I(5)), (A("x"), I(1))), M((I(2), I(1)), (A("x"), I(0))), M((T(I(1)), I(1))), M((T(F(1.0)), I(1))),
            # keys that are the same number as a wide integer and as a float (the integer sorts first), bare and inside a tuple key
            M((I(2 ** 64), A("a"))), M((F(2.0 ** 64), A("a"))), M((I(-2 ** 64), A("a"))), M((F(-2.0 ** 64), A("a"))), M((I(2 ** 63), A("b"))), M((F(2.0 ** 63), A("a"))),
            M((T(I(2 ** 64)), I(1))), M((T(F(2.0 ** 64)), I(1)))]
    lists = [NIL, L([I(1)]), L([I(1), I(2)]), L([I(1)], I(2)), L([I(1)], A("a")), L([I(2)]), L([F(1.0)]), L([NIL]), L([I(1), I(2)], I(3)), L([I(1), I(2), I(3)]),
             L([I(1)], B(b"")), L([I(2 ** 64)]), L([I(2 ** 64 + 1)]), L([A("a")]), L([I(1)], T()), L([I(1), I(1)])]
    bins = [B(b""), B(b"\x01"), B(b"\x01\x02"), B(b"\x02"), B(b"\xff"), B(b"\x00"), B(b"a"), B(b"ab"), Bits(b"\x80", 1), Bits(b"\x00", 1), Bits(b"\x01\x80", 1), Bits(b"\x01\x00", 1),
            Bits(b"\x01\x02\xf0", 4), Bits(b"\xfe", 7), Bits(b"\x01", 8) if False else Bits(b"\x00", 7), Bits(b"\xff\x80", 1), Bits(b"\x02\x00", 3)]
    return nums + atoms + ids + tuples + maps + lists + bins


def write(root, thorough):
    u = universe(thorough)
    name = "OrderUniverseT" if thorough else "OrderUniverse"
    text = f"---- MODULE {name} ----\n(* GENERATED by checks/order_universe.py — constants only *)\nOU == <<\n  " + ",\n  ".join(tla(v) for v in u) + " >>\n====\n"
    p = os.path.join(root, "spec", "gen", name + ".tla")
    if not os.path.exists(p) or open(p).read() != text:
        open(p, "w").write(text)
    return u


if __name__ == "__main__":
    r = os.path.dirname(os.path.dirname(os.path.abspath(__file__)))
    print(len(write(r, False)), len(write(r, True)))
