"""C15 — serde round trip returns the original Rust value, also across the wire.
Spec: spec/Serde.tla (typed universe: boundary values per type and their nestings; TLC enumerates).
The oracle is the identity, so this is the thinnest use of the specification (DESIGN §7)."""
import json, os, struct
import lib

PID = "C15"


class FloatLit(float):
    """a float whose JSON rendering keeps -0.0 and full precision"""


def plain(v):
    """the spec's tagged value tree -> the JSON serde_json expects for the corresponding Rust type"""
    if "int" in v:
        return int(v["int"])
    if "f64" in v:
        return struct.unpack(">d", bytes(v["f64"]))[0]
    if "f32" in v:
        return struct.unpack(">f", bytes(v["f32"]))[0]
    if "char" in v:
        return chr(v["char"])
    if "str" in v:
        return bytes(v["str"]).decode("utf-8")
    if "bool" in v:
        return v["bool"]
    if "none" in v or "unit" in v:
        return None
    if "some" in v:
        return plain(v["some"])
    if "seq" in v:
        return [plain(x) for x in v["seq"]]
    if "map" in v:
        return {str(plain(k)): plain(x) for k, x in v["map"]}
    if "struct" in v:
        return {f: plain(x) for f, x in v["struct"]}
    if "variant" in v:
        n, k = v["variant"], v["kind"]
        if k == "unit":
            return n
        return {n: plain(v["v"])}
    raise ValueError(v)


def run(tier, seed):
    v = lib.Verdict(PID, tier, seed, "exploration")
    up = os.path.join(lib.outdir(PID), "universe.ndjson")
    r = lib.tlc("gen/Gen_Serde.tla", "gen/Gen_Serde.cfg", PID, "gen", workers=1, env={"OUT": up})
    if r.rc != 0:
        raise lib.ToolError("typed universe generator failed")
    recs = lib.read_ndjson(up)
    items = []
    for i, rec in enumerate(recs):
        if rec["ty"] in ("F32B", "F64B", "OptF32", "VecF32", "TupF32F64", "FloatPair"):
            items.append({"id": i, "ty": rec["ty"], "json": None, "tagged": rec["val"]})
        else:
            items.append({"id": i, "ty": rec["ty"], "json": plain(rec["val"])})
    ip = os.path.join(lib.outdir(PID), "values.ndjson")
    op = os.path.join(lib.outdir(PID), "obs.ndjson")
    with open(ip, "w") as f:
        for it in items:
            f.write(json.dumps(it) + "\n")
    lib.harness(["serde-rt", ip, op])
    types = {}
    for o in lib.read_ndjson(op):
        if o["id"] == "__wellknown__":
            v.case("wellknown")
            for bdy in o["bad"]:
                v.violation("a unit variant named like one of the atoms the library keeps pre-built does not round-trip as itself", bdy)
            continue
        if o["id"] == "__concurrent__":
            v.case("concurrent")
            if not o["round_trips_alone"]:
                raise lib.ToolError("the 60-level probe value does not round-trip on its own")
            if o["failures"]:
                v.violation("a value that round-trips on its own does not when other threads convert values at the same time",
                            {"threads": o["threads"], "conversions_per_thread": o["conversions_per_thread"], "failed_conversions": o["failures"], "examples": o["examples"]})
            v.cov["concurrent_conversions"] = o["threads"] * o["conversions_per_thread"]
            continue
        it = items[o["id"]]
        types[it["ty"]] = types.get(it["ty"], 0) + 1
        v.case(json.dumps([it["ty"], it["json"] if it.get("tagged") is None else it["tagged"]]))
        case = {"type": it["ty"], "value": o.get("value", json.dumps(it["json"])[:200])}
        if "harness_error" in o:
            raise lib.ToolError(f"harness could not build {it['ty']} value {json.dumps(it['json'])[:100]}: {o['harness_error']}")
        for path in ("term", "bytes"):
            res = o[path]
            name = "to_term/from_term" if path == "term" else "to_bytes/from_bytes"
            if res["k"] == "same":
                continue
            if res["k"] == "different":
                v.violation(f"{name} returned a different value (silently altered)", {**case, "came_back_as": res["back"]})
            elif res["k"] == "panic":
                v.violation(f"{name} panicked", {**case, "detail": res["detail"]})
            elif res["k"] == "de_error":
                v.violation(f"{name}: the value was serialised but cannot be read back", {**case, "detail": res["detail"]})
            # a serialisation error is allowed by the statement (value the format cannot carry)
            elif res["k"] == "ser_error":
                v.note(f"{it['ty']} value reported as not serialisable: {res['detail'][:80]}")
        if types[it["ty"]] == 1 and len(v.cov["samples"]) < 6:
            v.sample({"type": it["ty"], "value": o.get("value")})
    if tier == "thorough":
        rp = os.path.join(lib.outdir(PID), "random_obs.ndjson")
        lib.harness(["serde-rt-random", seed, 3000, rp], timeout=1800)
        rr = lib.read_ndjson(rp)
        summ = [x for x in rr if x.get("summary")]
        if not summ:
            raise lib.ToolError("random round-trip run did not finish")
        v.cov["evaluations"] += summ[0]["values"]
        v.cov["random_values"] = summ[0]["values"]
        for x in rr:
            if x.get("summary"):
                continue
            for path in ("term", "bytes"):
                if x[path]["k"] not in ("same", "ser_error"):
                    v.violation(f"random {x['ty']} value did not survive the {'to_term/from_term' if path == 'term' else 'to_bytes/from_bytes'} round trip", {"type": x["ty"], "value": x["value"], "result": x[path]})
    v.cov["types"] = types
    v.cov["rule"] = ("TLC enumerates, for each of 36 concrete Rust types (all integer widths, f32/f64, bool, char, String, (), Option, Vec, tuples, BTreeMap/HashMap with string and integer keys, "
                     "plain and ElixirStruct-derived structs, an enum with the four variant shapes, two-level nestings), the boundary values of Serde.tla (type min / max, +-2^31 and +-2^63 neighbours, "
                     "non-BMP chars, empty / non-ASCII / atom-looking strings, empty collections); each goes through to_term/from_term and to_bytes/from_bytes; distinct = (type, value)")
    v.assumptions += ["identity oracle; the spec contributes the universe only", "values are materialised through serde_json (trusted)", "excluded as the statement says: nested options, Option<()>, NaN"]
    return v.finish()


def replay(path, seed):
    rp = json.load(open(path))
    for viol in rp["violations"][:20]:
        lib.log("replay:", viol["what"], json.dumps(viol["case"])[:800])
    lib.log(f"VIOLATION property={PID} replay={path}")
    return 1
