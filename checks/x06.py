"""X06 — beyond the listed properties (DESIGN §10.7): links and monitors that cross the connection.
Spec: spec/RemoteLinks.tla (one local and one remote process; LINK / MONITOR_P in either direction, termination of the local
process, loss of the connection; four switches for the node's side).  TLC: with the switches as the protocol has it the peer
is told of a linked / monitored local process's termination and the local process of the loss of the connection; as coded
(all four FALSE) each of the four invariants has a counterexample.  Observation on the real node: the control messages the
peer sees and the notices the local process gets in the four situations.  Not part of MANIFEST.json; run with `./check X06`."""
import os
import lib

PID = "X06"
INVS = ("PeerToldOfExit", "PeerToldOfDown", "LocalToldOfLoss", "LocalMonitorToldOfLoss")


def run(tier, seed):
    v = lib.Verdict(PID, tier, seed, "model_checking")
    r = lib.tlc_expect_ok("RemoteLinks.tla", "mc/RemoteLinks_protocol.cfg", PID, "mc_protocol")
    v.cov["states"], v.cov["transitions"] = r.distinct, r.generated
    v.cov["mc_configs"] = [{"cfg": "RemoteLinks_protocol", "result": ", ".join(INVS) + " hold"}]
    for inv in INVS:
        cfg = os.path.join(lib.outdir(PID), f"ascoded_{inv}.cfg")
        base = open(os.path.join(lib.SPEC, "mc", "RemoteLinks_ascoded.cfg")).read().splitlines()
        with open(cfg, "w") as f:
            f.write("\n".join(l for l in base if not l.startswith("INVARIANT")) + f"\nINVARIANT {inv}\n")
        lib.tlc_expect_violation("RemoteLinks.tla", os.path.relpath(cfg, lib.SPEC), PID, "mc_ascoded_" + inv, inv)
        v.cov["mc_configs"].append({"cfg": "RemoteLinks_ascoded", "result": f"counterexample to {inv} as coded"})
    op = os.path.join(lib.outdir(PID), "obs.ndjson")
    lib.harness(["remotelinks-run", op], timeout=120)
    o = lib.read_ndjson(op)[0]
    if "tool_error" in o:
        raise lib.ToolError(o["tool_error"])
    v.case("four situations")
    v.sample(o)
    if not o["link_out_ok"] or 1 not in o["frames_after_link_out"]:
        raise lib.ToolError("control: Node::link to a remote process should write a LINK control message")
    facts = []
    if 3 not in o["frames_after_exit_of_a_process_that_linked_out"]:
        facts.append("a local process that linked itself to a remote one terminated: the peer saw no EXIT (frames: %s)" % o["frames_after_exit_of_a_process_that_linked_out"])
    if o["link_set_size_after_the_peers_LINK"] == 0:
        facts.append("the peer's LINK is not recorded (link set of the local process empty) and its termination sent the peer %s" % (o["frames_after_exit_of_a_process_the_peer_linked_to"] or "nothing"))
    if o["monitor_set_size_after_the_peers_MONITOR_P"] == 0:
        facts.append("the peer's MONITOR_P is not recorded and the monitored process's termination sent the peer %s" % (o["frames_after_exit_of_a_process_the_peer_monitors"] or "nothing"))
    if o["connection_deregistered"] and not o["notices_to_the_local_process_after_the_connection_went_down"]:
        facts.append("a local process linked to and monitoring a remote one got no notice when the connection went down")
    if facts:
        lib.log(f"OBSERVATION: {PID} links and monitors across the connection are announcements only: " + "; ".join(facts) +
                " (TLC: RemoteLinks_ascoded; route_message ignores LINK / MONITOR_P, propagate_exit_signals looks up local processes only, the receiver's end notifies nobody)")
    v.cov["rule"] = "one local and one remote process, every order of link / monitor in either direction, local termination and connection loss; the four situations observed on the real node"
    return v.finish()


def replay(path, seed):
    lib.log(f"VIOLATION property={PID} replay={path}")
    return 1
