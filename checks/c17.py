"""C17 — each remote call gets its own reply; nothing is left behind afterwards.
Spec: spec/Rpc.tla.  TLC model-checks all interleavings of callers, receiver and peer (2-3 callers);
behaviours (exhaustive for one caller, TLC-simulated for two and three) are executed on the real Node
under the cooperative async scheduler against a scripted peer; results and the outstanding-call table
are compared with the model's."""
import json, os, random
import lib

PID = "C17"


def behaviours(cfg, tag, simulate=None, seed=1):
    extra = ["-seed", str(seed)] if simulate else []
    r = lib.tlc("mc/MC_Rpc.tla", cfg, PID, tag, workers=1, simulate=simulate, extra=extra, timeout=1500)
    b = r.printed()
    if not b:
        raise lib.ToolError(f"no behaviours from {cfg}")
    uniq = {}
    for x in b:
        # the connection state the behaviour starts in (its first history entry, Rpc!ConnCode)
        if x["hist"] and x["hist"][0][0] == "start":
            x["conn"] = ["up", "absent", "broken", "closing"][x["hist"][0][1]]
        uniq[json.dumps(x["hist"])] = x
    return list(uniq.values())


def free_traces(v, thorough, seed):
    """B3: free-running concurrent calls on the real node; each round's recorded log is validated by TLC against Trace_Rpc"""
    import re
    d = lib.outdir(PID)
    rounds, per = (12, 12) if thorough else (3, 8)
    lib.harness(["rpc-free", seed, rounds, per, d], timeout=900)
    summ = lib.read_ndjson(os.path.join(d, "free_summary.ndjson"))
    if len(summ) != rounds or any("tool_error" in s for s in summ):
        raise lib.ToolError(f"free-running rpc rounds did not complete: {summ[:2]}")
    ok = 0
    for sm in summ:
        log = lib.read_ndjson(sm["log"])
        rid_of, id_of = {}, {}
        trace = []
        for e in log:
            lab, det, actor = e["label"], e["detail"], e["actor"]
            c = int(actor[1:]) if re.fullmatch(r"c\d+", actor) else 0
            if lab == "rpc.allocated":
                rid_of[det] = len(rid_of) + 1
                id_of[det.split(".")[0]] = rid_of[det]
                trace.append({"ev": "allocated", "c": c, "rid": rid_of[det]})
            elif lab == "rpc.inserted":
                trace.append({"ev": "inserted", "c": c})
            elif lab == "rpc.sent":
                trace.append({"ev": "sent", "c": c})
            elif lab == "rpc.timed_out":
                trace.append({"ev": "timed_out", "c": c})
            elif lab == "peer_reply":
                kind, pid = det.split(":")
                r = rid_of.get(pid, 0)
                trace.append({"ev": "peer_reply", "to": 99 if kind == "stray" else (r + 50 if kind == "stale" else r)})
            elif lab == "rx.frame" and det == "ok":
                trace.append({"ev": "rx_frame"})
            elif lab == "rx.routed":
                trace.append({"ev": "rx_routed"})
            elif lab == "return":
                if det.startswith("ok:"):
                    _, idn, kind = det.split(":")
                    r = id_of.get(idn, 0)
                    trace.append({"ev": "return", "c": c, "kind": "ok", "got": 99 if kind == "2" else (r + 50 if kind == "1" else r)})
                elif det == "timeout":
                    trace.append({"ev": "return", "c": c, "kind": "timeout", "got": 0})
                else:
                    v.violation("a remote call on a healthy connection ended with an error other than a timeout", {"round": sm["round"], "result": det})
        tp = os.path.join(d, f"free_trace_{sm['round']}.ndjson")
        lib.write_ndjson(tp, trace)
        v.case("free " + json.dumps(trace))
        r = lib.tlc("trace/Trace_Rpc.tla", "trace/Trace_Rpc.cfg", PID, f"trace_free_{sm['round']}", workers=1, env={"TRACE": tp}, timeout=600)
        real = [i for i in r.violated if i != "NotFinished"]
        if real:
            v.violation(f"recorded execution of free-running remote calls violates {real}", {"round": sm["round"], "trace": tp, "tlc_log": f"out/{PID}/tlc_trace_free_{sm['round']}.log"})
        elif "NotFinished" in r.violated:
            ok += 1
        else:
            m = re.search(r'"FURTHEST LINE EXPLAINED",\s*(\d+),\s*(.*?)>>', r.text, re.S)
            if not m or not r.ok:
                raise lib.ToolError(f"TLC did not finish validating the free-running trace of round {sm['round']}: see out/{PID}/tlc_trace_free_{sm['round']}.log")
            line = int(m.group(1))
            nxt = trace[line] if 0 <= line < len(trace) else None
            if nxt and nxt["ev"] == "return":
                # everything up to a caller's return is explained, the outcome itself is not: no behaviour of the spec gives this caller this result here
                v.violation("a caller's outcome is not one the specification allows after the recorded events (wrong reply, or a timeout although its reply had been routed)",
                            {"round": sm["round"], "caller": nxt["c"], "outcome": nxt, "trace": tp, "line": line + 1})
                continue
            v.add_drift(f"recorded execution of free-running remote calls is not a behaviour of Rpc.tla beyond line {m.group(1) if m else '?'}: {re.sub(chr(10) + ' *', ' ', m.group(2))[:200] if m else ''}",
                        {"round": sm["round"], "trace": tp})
        if sm["pending_after"] != 0:
            v.violation("bookkeeping of finished remote calls is left behind (free-running round)", {"round": sm["round"], "outstanding_entries": sm["pending_after"]})
    v.cov["free_running_traces_validated"] = ok
    v.cov["free_running_rounds"] = rounds
    return ok


def run(tier, seed):
    v = lib.Verdict(PID, tier, seed, "model_checking")
    thorough = tier == "thorough"
    rng = random.Random(seed)
    states = trans = 0
    v.cov["mc_configs"] = []
    for c in ("ok", "ok3"):
        r = lib.tlc_expect_ok("mc/MC_Rpc.tla", f"mc/MC_Rpc_{c}.cfg", PID, f"mc_{c}")
        states += r.distinct
        trans += r.generated
        v.cov["mc_configs"].append({"cfg": f"MC_Rpc_{c}", "distinct": r.distinct, "generated": r.generated, "result": "OwnReplyOnly, AtMostOnce, NothingLeft hold"})
    lib.tlc_expect_violation("mc/MC_Rpc.tla", "mc/MC_Rpc_leak.cfg", PID, "mc_leak", "NothingLeft")
    lib.tlc_expect_violation("mc/MC_Rpc.tla", "mc/MC_Rpc_noto.cfg", PID, "mc_noto", "NothingLeft")
    lib.tlc_expect_violation("mc/MC_Rpc.tla", "mc/MC_Rpc_nocreation.cfg", PID, "mc_nocreation", "OwnReplyOnly")
    v.cov["mc_configs"] += [{"cfg": "MC_Rpc_nocreation", "result": "counterexample to OwnReplyOnly when the table key ignores the creation (stale-incarnation reply completes a live call)"},
                            {"cfg": "MC_Rpc_leak", "result": "counterexample to NothingLeft with LeakOnSendError (the defect fixed by 18c56d0)"},
                            {"cfg": "MC_Rpc_noto", "result": "counterexample to NothingLeft without RemoveOnTimeout"}]
    v.cov["states"], v.cov["transitions"] = states, trans
    # a side process runs for the whole check: a reply delivered in two pieces with a pause longer than the receiver's read timeout
    # (hard-wired 10 s) in between, the second piece being a well-formed frame for the other outstanding call
    import subprocess
    stall_out = os.path.join(lib.outdir(PID), "stall.ndjson")
    if os.path.exists(stall_out):
        os.remove(stall_out)
    side = subprocess.Popen([lib.build_harness(True), "rpc-stall", "11500", stall_out], cwd=lib.ROOT, stdout=subprocess.DEVNULL, stderr=subprocess.DEVNULL)
    try:
        return run_main(v, tier, seed, thorough, rng, states, trans, side, stall_out)
    finally:
        if side.poll() is None:
            side.kill()


def judge_stall(v, side, stall_out):
    try:
        side.wait(timeout=120)
    except Exception:
        raise lib.ToolError("the stalled-reply scenario did not finish")
    o = lib.read_ndjson(stall_out)[0] if os.path.exists(stall_out) else {"tool_error": "no output"}
    if "tool_error" in o:
        raise lib.ToolError("stalled-reply scenario: " + o["tool_error"])
    v.case("stalled reply")
    case = {"scenario": "the reply to call a arrives in two pieces %d ms apart; the second piece is a well-formed frame for call b; then the genuine reply to b" % o["pause_ms"], "results": o["results"]}
    ra, rb = o["results"][0]["result"], o["results"][1]["result"]
    if rb["kind"] == "ok" and rb["got"] != "the reply to call b":
        v.violation("a caller received a reply addressed to a different call", {**case, "call_b_got": rb["got"]})
    if ra["kind"] == "ok" and ra["got"] != "the whole reply to call a":
        v.violation("a caller received something else than the reply sent to it", {**case, "call_a_got": ra["got"]})
    if ra["kind"] in ("still_running", "panic") or rb["kind"] in ("still_running", "panic"):
        v.violation("a remote call neither returned nor failed", case)
    if o["pending_after"] != 0:
        v.violation("bookkeeping of finished remote calls is left behind", {**case, "outstanding_entries": o["pending_after"]})
    v.cov["stalled_reply_scenario"] = {"call_a": ra["kind"], "call_b": rb["kind"], "still_connected": o["still_connected"]}


def run_main(v, tier, seed, thorough, rng, states, trans, side, stall_out):
    # behaviours to execute
    one = behaviours("gen/Gen_Rpc_1.cfg", "gen_1")
    two = behaviours("gen/Gen_Rpc_2.cfg", "gen_2", simulate=f"num={1500 if thorough else 120}", seed=seed)
    sample_one = one if thorough else rng.sample(one, min(len(one), 50))
    # make sure the fault paths are in (send failure, no connection, timeout with a late reply)
    must = [b for b in one if b["conn"] != "up"][: (400 if thorough else 40)]
    stale = [b for b in one if any(a[0] == "reply" and 50 < a[1] < 99 for a in b["hist"]) and b["conn"] == "up"]
    stale = rng.sample(stale, min(len(stale), 300 if thorough else 40))
    # the node's connection to a second peer goes away while a call to the first peer is outstanding
    lib.tlc_expect_ok("mc/MC_Rpc.tla", "mc/MC_Rpc_other.cfg", PID, "mc_other")
    lib.tlc_expect_violation("mc/MC_Rpc.tla", "mc/MC_Rpc_clearall.cfg", PID, "mc_clearall", "NoSpuriousCancel")
    v.cov["mc_configs"] += [{"cfg": "MC_Rpc_other", "result": "all invariants and NoSpuriousCancel hold with a second connection that may close at any time"},
                            {"cfg": "MC_Rpc_clearall", "result": "counterexample to NoSpuriousCancel when the end of any connection empties the node-wide table"}]
    other = behaviours("gen/Gen_Rpc_other.cfg", "gen_other")

    def closes_while_outstanding(b):
        h = b["hist"]
        if ["other_close", 0] not in h or ["send", 1] not in h:
            return False
        i = h.index(["other_close", 0])
        ends = [k for k, a in enumerate(h) if a in (["wake", 1], ["cleanup", 1], ["timeout", 1])]
        return h.index(["send", 1]) < i and (not ends or i < ends[0]) and ["wake", 1] in h
    other = [b for b in other if closes_while_outstanding(b)]
    other = other if thorough else rng.sample(other, min(len(other), 25))
    # two calls one after the other: a second copy of the first call's reply routed while the second call is outstanding
    seq2 = behaviours("gen/Gen_Rpc_seq2.cfg", "gen_seq2")

    def dup_after_reuse(b):
        h = b["hist"]
        if ["wake", 1] not in h or ["insert", 2] not in h:
            return False
        i2 = h.index(["insert", 2])
        ends = [i for i, a in enumerate(h) if a in (["wake", 2], ["cleanup", 2])]
        e = ends[0] if ends else len(h)
        return h.index(["wake", 1]) < i2 and any(a == ["route", 1] for a in h[i2:e])
    seq2 = [b for b in seq2 if dup_after_reuse(b)]
    seq2 = seq2 if thorough else rng.sample(seq2, min(len(seq2), 40))
    # the peer closes its side in mid-behaviour (or had closed it before the behaviour starts) and the receiver deregisters the
    # connection while calls are in flight: the ones written in that window are left to their timers and must clean up
    lib.tlc_expect_ok("mc/MC_Rpc.tla", "mc/MC_Rpc_close.cfg", PID, "mc_close")
    lib.tlc_expect_violation("mc/MC_Rpc.tla", "mc/MC_Rpc_leakgone.cfg", PID, "mc_leakgone", "NothingLeft")
    v.cov["mc_configs"] += [{"cfg": "MC_Rpc_close", "result": "all invariants hold when the peer may close in mid-behaviour and the receiver deregisters the connection at any later point"},
                            {"cfg": "MC_Rpc_leakgone", "result": "counterexample to NothingLeft when a call that times out after the deregistration keeps its entry"}]
    close = behaviours("gen/Gen_Rpc_close2.cfg", "gen_close", simulate=f"num={3000 if thorough else 600}", seed=seed)

    def sent_in_window_then_deregistered(b):
        h = b["hist"]
        closing = b["conn"] == "closing"
        sent_in_window, hit = set(), False
        dereg = False
        for a in h:
            if a[0] == "peer_close":
                closing = True
            elif a[0] == "deregister":
                dereg = True
            elif a[0] == "send" and closing and not dereg:
                sent_in_window.add(a[1])
            elif a[0] == "cleanup" and dereg and a[1] in sent_in_window:
                hit = True
        return hit
    pri = [b for b in close if sent_in_window_then_deregistered(b)]
    rest = [b for b in close if not sent_in_window_then_deregistered(b) and any(a[0] in ("peer_close", "deregister") for a in b["hist"])]
    close = rng.sample(pri, min(len(pri), 300 if thorough else 16)) + rng.sample(rest, min(len(rest), 200 if thorough else 8))
    v.cov["peer_close_behaviours"] = {"with_a_call_written_in_the_closing_window_and_timed_out_after_deregistration": len(pri), "executed": len(close)}
    # four callers, the first of which calls a node there is no connection to: the ones in which that call fails after a later call has been
    # allocated (and sent), with two more calls starting afterwards and the waiting call answered at the end, are executed
    ghost = behaviours("gen/Gen_Rpc_ghost4.cfg", "gen_ghost", simulate=f"num={3000 if thorough else 500}", seed=seed)
    # (the configuration directs the order with the state constraint MC_Rpc!GhostDirected; kept: the waiting call gets its reply)
    gsel = [b for b in ghost if ["wake", 2] in b["hist"]]
    for b in gsel:
        b["ghosts"] = [1]
    v.cov["ghost_call_behaviours"] = {"generated": len(ghost), "with_the_waiting_call_answered": len(gsel)}
    gsel = rng.sample(gsel, min(len(gsel), 60 if thorough else 8))
    late = [b for b in one if any(a[0] == "timeout" for a in b["hist"]) and any(a[0] == "route" for a in b["hist"])][: (200 if thorough else 25)]
    scen = {json.dumps(b["hist"]) + b["conn"]: b for b in sample_one + must + late + stale + two + seq2 + other + close + gsel}
    scen = list(scen.values())
    for i, s in enumerate(scen):
        s["id"] = i
    sp = os.path.join(lib.outdir(PID), "scenarios.ndjson")
    op = os.path.join(lib.outdir(PID), "obs.ndjson")
    lib.write_ndjson(sp, scen)
    lib.harness(["rpc-run", sp, op], timeout=3000)
    obs = lib.read_ndjson(op)
    if len(obs) != len(scen):
        raise lib.ToolError(f"scenario runner returned {len(obs)} of {len(scen)} observations")
    desync = 0
    for o in obs:
        s = scen[o["id"]]
        v.case(json.dumps([s["hist"], s["conn"]]))
        case = {"connection": s["conn"], "schedule": s["hist"], "model_results": s["results"]}
        if "tool_error" in o:
            raise lib.ToolError(o["tool_error"])
        if o["notes"]:
            desync += 1
            v.add_drift("schedule could not be followed step by step: " + "; ".join(o["notes"][:2]), case)
        for r in o["results"]:
            c = r["caller"]
            exp = s["results"][c - 1]
            got = r["got"]
            gk = got["kind"]
            if gk == "ok":
                val = got["value"]
                # {rex, {Rid, K}}
                try:
                    rid_in_reply = val["e"][1]["e"][0]["mag"][0] if val["e"][1]["e"][0]["mag"] else 0
                except Exception:
                    rid_in_reply = None
                if rid_in_reply != r["rid"]:
                    v.violation("a caller received a reply addressed to a different call", {**case, "caller": c, "own_call": r["rid"], "reply_was_for": rid_in_reply})
                elif exp["k"] != "reply" and not o["notes"]:
                    v.add_drift(f"caller {c} got its own reply where the model says {exp['k']}", case)
            elif gk == "cancelled" and ["other_close", 0] in s["hist"]:
                v.violation("a call to a healthy peer was cancelled when the node's connection to another peer ended", {**case, "caller": c, "got": got})
            elif gk in ("timeout", "not_connected", "send_error", "cancelled"):
                if exp["k"] == "reply" and not o["notes"]:
                    v.violation("a caller whose reply was delivered in time did not get it", {**case, "caller": c, "got": got})
                elif exp["k"] != gk and not o["notes"]:
                    v.add_drift(f"caller {c} ended with {gk} where the model says {exp['k']}", case)
            else:
                v.violation("a remote call neither returned nor failed", {**case, "caller": c, "got": got})
        if o["pending_after"] != 0:
            v.violation("bookkeeping of finished remote calls is left behind", {**case, "outstanding_entries": o["pending_after"]})
        if o["id"] % 90 == 0:
            v.sample({"connection": s["conn"], "schedule": s["hist"], "results": [r["got"]["kind"] for r in o["results"]], "pending_after": o["pending_after"]})
    # (schedules that cannot be followed are themselves a symptom when a caller panicked or never returned: what was observed stands)
    if desync > len(obs) // 4 and not v.violations:
        raise lib.ToolError(f"{desync} of {len(obs)} schedules could not be followed on the real node (scheduler / hooks out of step)")
    n_free = free_traces(v, thorough, seed)
    judge_stall(v, side, stall_out)
    # ---- calls to two peers at once (RpcPeers.tla): the table of outstanding calls is one per node and looked up by identifier alone, so the
    # identifiers must be unique across peers; TLC: OwnReplyOnly and AllAnswered hold with one counter per node and fail with one per peer
    rp = lib.tlc_expect_ok("mc/MC_RpcPeers.tla", "mc/MC_RpcPeers_node.cfg", PID, "mc_peers", workers=4)
    lib.tlc_expect_violation("mc/MC_RpcPeers.tla", "mc/MC_RpcPeers_perpeer.cfg", PID, "mc_peers_perpeer", "OwnReplyOnly", workers=4)
    v.cov["mc_configs"] = v.cov.get("mc_configs", []) + [{"cfg": "MC_RpcPeers_node", "distinct": rp.distinct, "result": "OwnReplyOnly, AllAnswered hold (4 callers, 2 peers, identifiers from one counter per node)"},
                                                         {"cfg": "MC_RpcPeers_perpeer", "result": "counterexample to OwnReplyOnly with one counter per peer"}]
    po = os.path.join(lib.outdir(PID), "peers.ndjson")
    lib.harness(["rpc-peers", 120 if thorough else 25, 4, po], timeout=900)
    for o in lib.read_ndjson(po):
        if "tool_error" in o:
            raise lib.ToolError("two-peer scenario: " + o["tool_error"])
        v.case("peers " + str(o["round"]))
        pcase = {"round": o["round"], "calls_outstanding_together": o["calls"], "peers": 2}
        for wv in o["wrong"][:3]:
            if "got" in wv:
                v.violation("a caller was handed an answer that is not its own peer's answer to its own call (calls to two peers outstanding together)", {**pcase, **wv})
            else:
                v.violation("a call whose peer answered at once did not return that answer (calls to two peers outstanding together)", {**pcase, **wv})
        if o["pending_after"] != 0:
            v.violation("bookkeeping of finished remote calls is left behind", {**pcase, "outstanding_entries": o["pending_after"]})
    v.cov["traces_validated_against_impl"] = len(obs) - desync + n_free
    v.cov["schedules_not_followed"] = desync
    v.cov["rule"] = ("TLC: every interleaving of 2 callers (connection up / absent / broken) and 3 callers with up to 3 peer replies (own, duplicate, stray, late, addressed to the reply pid of another incarnation of the node); executed on the real Node: "
                     "behaviours of one caller (all in thorough, 120 + all fault paths sampled in quick) and TLC-simulated behaviours of two callers, each step forced through the guarded "
                     "scheduling points (allocated / inserted / sent / timed_out; receiver frame / routed / closing); distinct = (schedule, connection state)")
    v.assumptions += ["timeouts are real time (60 ms for calls that time out in the model, 4 s otherwise)",
                      "interleavings are controlled at the hook points only"]
    return v.finish()


def replay(path, seed):
    rp = json.load(open(path))
    for viol in rp["violations"][:20]:
        lib.log("replay:", viol["what"], json.dumps(viol["case"])[:800])
    lib.log(f"VIOLATION property={PID} replay={path}")
    return 1
