"""C13 — the zero-copy decoder agrees with the owned decoder.
Corpus and the ModernOnly classifier come from spec/Etf.tla (universe encodings, alternatives,
truncations, seeded mutations)."""
import json, os
import lib, etf_common as E

PID = "C13"
MODERN_WHY = ("INTEGER_EXT", "SMALL_BIG_EXT", "SMALL_BIG_EXT zero-padded", "LARGE_BIG_EXT", "ATOM_UTF8_EXT", "STRING_EXT", "STRING_EXT empty",
              "LIST_EXT nested tail", "LARGE_TUPLE_EXT", "BIT_BINARY_EXT bits=8", "NEW_PORT_EXT", "EXPORT_EXT arity as INTEGER_EXT")


def judge(v, ob, modern, case):
    if "bor_panic" in ob:
        v.violation("zero-copy decoder panicked", {**case, "obs": ob})
        return
    if ob["bor_ok"]:
        if not ob["owned_ok"]:
            v.violation("zero-copy decoder accepts an input the owned decoder rejects", {**case, "obs": ob})
        elif not (ob["same_den"] and ob["same_reenc"] and ob["same_repr"]):
            v.violation("zero-copy result converted to owned differs from the owned decoder's term", {**case, "obs": ob})
    else:
        if ob.get("offset", 0) > ob.get("len", 0):
            v.violation("reported byte offset lies outside the input", {**case, "obs": ob})
        if modern and ob["owned_ok"]:
            v.violation("zero-copy decoder rejects a modern-tag input that the owned decoder accepts", {**case, "obs": ob})


def history(v, obs):
    """the last record of the run: every vector decoded again after a history of rejected inputs on the same thread"""
    h = [o for o in obs if o["id"] == "__history__"]
    if len(h) != 1 or h[0]["rejected_inputs_fed"] < 1000:
        raise lib.ToolError("history phase of the harness did not run")
    v.case("history")
    for c in h[0]["changed"]:
        v.violation("decoding is not a function of the bytes: after a history of rejected inputs (too deeply nested terms, truncations, oversized counts) on the same thread "
                    "a valid encoding decodes differently than before", c)
    if h[0]["concurrent_failures"]:
        v.violation("decoding depends on what other threads decode at the same time: a 100-level term that decodes on its own failed while seven other threads decoded the same term",
                    {"threads": 8, "decodes_per_thread": 300, "failed": h[0]["concurrent_failures"]})
    v.cov["vectors_decoded_again_after_rejected_inputs"] = h[0]["vectors"]
    return [o for o in obs if o["id"] != "__history__"]


def run(tier, seed):
    v = lib.Verdict(PID, tier, seed, "exploration")
    thorough = tier == "thorough"
    vp, recs, unenc = E.gen_vectors(PID, "D2", alts=True, heavy=False)
    recs_only = os.path.join(lib.outdir(PID), "vectors_only.ndjson")
    lib.write_ndjson(recs_only, recs)
    obs = E.run_obs(PID, recs_only, {"borrowed": True, "trunc": True, "mutate": 60 if thorough else 8, "seed": seed, "history": True})
    obs = history(v, obs)
    by_id = {r["id"]: r for r in recs}
    fuzz_inputs = 0
    fuzz_bor_ok = 0
    n_modern = 0
    for o in obs:
        rec = by_id[o["id"]]
        val = rec["v"]
        case = {"value": E.short(val, 300)}
        modern_val = not E.has_local(val)
        v.case(json.dumps(rec["enc"]))
        judge(v, o["bor_spec"], modern_val, {**case, "bytes": rec["enc"][:200], "encoding": "canonical"})
        n_modern += 1 if modern_val else 0
        if "bor_lib" in o:
            judge(v, o["bor_lib"], modern_val, {**case, "encoding": "library's own bytes"})
        for alt, ao in zip(rec["alts"], o["alts"]):
            why = alt["why"].split(": ")[-1]
            modern = modern_val and why in MODERN_WHY
            n_modern += 1 if modern else 0
            v.case(json.dumps(alt["bytes"]))
            judge(v, ao["bor"], modern, {**case, "bytes": alt["bytes"][:200], "encoding": alt["why"]})
        f = o.get("fuzz")
        if f:
            fuzz_inputs += f["inputs"]
            fuzz_bor_ok += f["bor_ok"]
            v.cov["evaluations"] += f["inputs"]
            for dis in f["disagreements"]:
                v.violation("truncated / mutated input: zero-copy and owned decoders disagree (or offset outside input, or panic)",
                            {**case, "input": dis["input"][:300], "obs": dis["obs"]})
    # nesting around the decoders' depth limit: both must draw the line at the same depth (whatever it is)
    leaves = {"small integer": [97, 1], "atom": [119, 1, 97], "nil": [106], "binary": [109, 0, 0, 0, 1, 7], "big integer": [110, 9, 0, 1, 2, 3, 4, 5, 6, 7, 8, 9], "float": [70, 63, 248, 0, 0, 0, 0, 0, 0],
              "pid": [88, 119, 1, 110, 0, 0, 0, 1, 0, 0, 0, 2, 0, 0, 0, 3], "empty tuple": [104, 0], "empty map": [116, 0, 0, 0, 0]}
    raw = []
    for depth in list(range(250, 262)) + [127, 128, 129, 510, 511, 512, 513, 1023, 1024, 1025]:
        for lname, leaf in leaves.items():
            raw.append({"id": len(raw), "what": f"{lname} inside {depth} nested one-element tuples", "bytes": [131] + [104, 1] * depth + leaf})
            raw.append({"id": len(raw), "what": f"{lname} inside {depth} nested one-element lists", "bytes": [131] + [108, 0, 0, 0, 1] * depth + leaf + [106] * depth})
            raw.append({"id": len(raw), "what": f"{lname} as the value of {depth} nested one-entry maps", "bytes": [131] + [116, 0, 0, 0, 1, 97, 1] * depth + leaf})
    ip = os.path.join(lib.outdir(PID), "raw_in.ndjson")
    op = os.path.join(lib.outdir(PID), "raw_out.ndjson")
    lib.write_ndjson(ip, raw)
    lib.harness(["etf-raw", ip, op])
    for o in lib.read_ndjson(op):
        r = raw[o["id"]]
        v.case("nest" + r["what"])
        judge(v, o["bor"], True, {"input": r["what"]})
    v.cov["nesting_boundary_inputs"] = len(raw)
    # random deep terms
    count, depth, budget = (3000, 12, 4000) if thorough else (300, 8, 300)
    rp = os.path.join(lib.outdir(PID), "random.ndjson")
    lib.harness(["etf-random", rp, count, seed, depth, budget])
    for o in lib.read_ndjson(rp):
        if "bor_lib" in o:
            v.case(json.dumps(o["bytes"])[:3000])
            judge(v, o["bor_lib"], True, {"random_term": E.short(o["den"], 300), "seed": seed, "id": o["id"]})
    v.sample({"fuzz_inputs": fuzz_inputs, "accepted_by_zero_copy": fuzz_bor_ok})
    v.sample({"value": E.short(recs[0]["v"], 100), "bytes": recs[0]["enc"][:40]})
    v.cov["modern_valid_encodings"] = n_modern
    v.cov["truncations_and_mutations"] = fuzz_inputs
    v.cov["rule"] = ("corpus = canonical + alternative encodings of EtfUniverse!D2 (classified modern / legacy by the spec's tag sets), every truncation "
                     "offset of encodings <= 400 bytes, seeded byte flips / insertions / deletions, library encodings of random deep terms; "
                     "both decoders run on each; distinct = distinct valid encodings (fuzz inputs counted in evaluations only)")
    v.assumptions += ["structural equality is judged on the Debug rendering, the denotation and the re-encoding of both results"]
    return v.finish()


def replay(path, seed):
    rp = json.load(open(path))
    for viol in rp["violations"][:20]:
        lib.log("replay:", viol["what"], json.dumps(viol["case"])[:800])
    lib.log(f"VIOLATION property={PID} replay={path}")
    return 1
