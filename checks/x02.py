"""X02 — beyond the listed properties (DESIGN §8 item 2, §10.7): connection management of a node.
Spec: spec/NodeConn.tla (Node::connect as check -> dial -> insert + receiver; receiver removes the entry by peer name;
connect_with_retries).  TLC shows NoLiveOrphan violated as coded (also against a peer that refuses simultaneous
handshakes) and holding with the protection RemoveByIdentity (and SingleFlight giving AtMostOneOpen); the
counterexample of the as-coded configuration is reproduced on the real Node with a scripted peer.
Not part of MANIFEST.json; run with `./check X02`."""
import json, os
import lib

PID = "X02"


def run(tier, seed):
    v = lib.Verdict(PID, tier, seed, "model_checking")
    v.cov["mc_configs"] = []
    st = tr = 0
    for cfg, res in (("byid", "NoLiveOrphan, NoDeadEntry hold with RemoveByIdentity"), ("single", "also AtMostOneOpen with SingleFlight")):
        r = lib.tlc_expect_ok("NodeConn.tla", f"mc/NodeConn_{cfg}.cfg", PID, "mc_" + cfg)
        st += r.distinct
        tr += r.generated
        v.cov["mc_configs"].append({"cfg": "NodeConn_" + cfg, "distinct": r.distinct, "result": res})
    for cfg in ("ascoded", "erlpeer"):
        lib.tlc_expect_violation("NodeConn.tla", f"mc/NodeConn_{cfg}.cfg", PID, "mc_" + cfg, "NoLiveOrphan")
        v.cov["mc_configs"].append({"cfg": "NodeConn_" + cfg, "result": "counterexample to NoLiveOrphan (a finished receiver removes the entry of a newer, healthy connection)"})
    v.cov["states"], v.cov["transitions"] = st, tr
    op = os.path.join(lib.outdir(PID), "obs.ndjson")
    lib.harness(["nodeconn-run", op], timeout=300)
    o = lib.read_ndjson(op)[0]
    v.case("two concurrent connects")
    if "tool_error" in o:
        raise lib.ToolError(o["tool_error"])
    if not o["peer_accepted_both"]:
        v.note("the two connects did not overlap on this run (the second saw the first's entry)")
    elif o["replaced_connection_closed_by_node"] and o["survivor_writable"] and not o["registered_after_replaced_stream_ended"]:
        lib.log(f"OBSERVATION: {PID} two overlapping Node::connect calls both dial; the second insert replaces the first entry; when the replaced connection's stream ends its receiver "
                "removes the entry of the surviving healthy connection: the node reports the peer as not connected while the peer still holds an open, working connection "
                "(TLC: NodeConn_ascoded; protection RemoveByIdentity)")
        v.note("as-coded counterexample reproduced on the real node")
    v.sample(o)
    v.cov["rule"] = "2 callers x 2 attempts x 3 connections, peer closing any connection at any time: every interleaving; one forced overlap on the real node"
    v.assumptions += ["the overlap on the real node relies on both callers reaching the dial before either inserts (both await the EPMD lookup first)"]
    return v.finish()


def replay(path, seed):
    lib.log(f"VIOLATION property={PID} replay={path}")
    return 1
