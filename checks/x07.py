"""X07 — beyond the listed properties (DESIGN §10.7): the wire shape of remote calls.
Spec: spec/Rex.tla (request REG_SEND {6, From, '', rex} with {From, {call, M, F, Args, user}}; answer {rex, Result}; the erlang_* helpers
as calls to module erlang).  TLC enumerates calls (3 modules x 2 functions x 7 argument lists through both entry points, 9 helper calls) and
14 answers; each call is made on a real Node against a scripted peer, the request frame is read by the TLA+ reader (Parse_Wire) and
compared with the spec's request, and the outcome with what the spec says the entry point makes of the answer.
Not part of MANIFEST.json; run with `./check X07`."""
import json, os
import lib

PID = "X07"


def run(tier, seed):
    v = lib.Verdict(PID, tier, seed, "exploration")
    d = lib.outdir(PID)
    cp, ap, op = (os.path.join(d, f) for f in ("calls.ndjson", "answers.ndjson", "obs.ndjson"))
    r = lib.tlc("gen/Gen_Rex.tla", "gen/Gen_Rex.cfg", PID, "gen", workers=1, env={"OUT_CALLS": cp, "OUT_ANSWERS": ap})
    if r.rc != 0:
        raise lib.ToolError("Rex generator failed")
    calls, answers = lib.read_ndjson(cp), lib.read_ndjson(ap)
    lib.harness(["rex-run", cp, ap, op], timeout=900)
    obs = lib.read_ndjson(op)
    if obs and "tool_error" in obs[0]:
        raise lib.ToolError(obs[0]["tool_error"])
    ip, pp = os.path.join(d, "frames_in.ndjson"), os.path.join(d, "frames_out.ndjson")
    items = [{"id": i, "bytes": o["frames"][0]} for i, o in enumerate(obs) if o["frames"]]
    lib.write_ndjson(ip, items)
    if os.path.exists(pp):
        os.remove(pp)
    pr = lib.tlc("gen/Parse_Wire.tla", "gen/Parse_Wire.cfg", PID, "parse", workers=2, env={"IN": ip, "OUT": pp})
    if pr.rc != 0:
        raise lib.ToolError("TLA+ wire reader failed")
    parsed = {p["id"]: p for p in lib.read_ndjson(pp)}
    facts = {}
    def fact(what, case):
        facts.setdefault(what, []).append(case)
    atom = lambda s: {"k": "atom", "b": list(s.encode())}
    for i, o in enumerate(obs):
        c, a = calls[o["call"]], answers[o["answer"]]
        v.case(json.dumps([o["call"], o["answer"], o["entry"]]))
        case = {"api": c["api"], "entry": o["entry"], "module": bytes(c["m"]).decode(), "function": bytes(c["f"]).decode()}
        if len(o["frames"]) != 1:
            fact("a remote call did not write exactly one frame", {**case, "frames": len(o["frames"])})
            continue
        p = parsed[i]
        if not p["ok"] or len(p["terms"]) != 2:
            fact("the request frame is not a control message followed by one message", case)
            continue
        ctl, msg = p["terms"]
        ok_ctl = ctl.get("k") == "tuple" and len(ctl["e"]) == 4 and lib.same_value(ctl["e"][0], {"k": "int", "neg": False, "mag": [6]}) and ctl["e"][1].get("k") == "pid" \
            and lib.same_value(ctl["e"][2], atom("")) and lib.same_value(ctl["e"][3], atom("rex"))
        if not ok_ctl:
            fact("the request's control message is not {6, From, '', rex}", {**case, "control": ctl})
            continue
        frm = ctl["e"][1]
        if not lib.same_value(frm["node"], o["node"]):
            fact("the request's sender is not a process of the calling node", {**case, "from": frm})
        if not (msg.get("k") == "tuple" and len(msg["e"]) == 2 and lib.same_value(msg["e"][0], frm)):
            fact("the request message does not start with the sender named in the control message", {**case, "message": msg})
            continue
        if not lib.same_value(msg["e"][1], c["expected"]):
            fact("the request is not {call, Module, Function, Args, user} with the arguments given", {**case, "sent": msg["e"][1], "spec": c["expected"]})
        # the outcome
        res = o["result"]
        if not o["answered"]:
            fact("the scripted peer could not answer", case)
        elif o["entry"] == "raw":
            if "ok" not in res or not lib.same_value(res["ok"], a["term"]):
                fact("rpc_call_raw did not return the answer as it came", {**case, "answer": a["term"], "result": res})
        elif a["unwrapped"]:
            if "ok" not in res or not lib.same_value(res["ok"], a["result"]):
                fact("rpc_call did not return Result for the answer {rex, Result}", {**case, "answer": a["term"], "result": res})
        elif "err" not in res:
            fact("rpc_call accepted an answer that is not {rex, Result}", {**case, "answer": a["term"], "result": res})
    for what, cases in facts.items():
        lib.log(f"OBSERVATION: {PID} {what} ({len(cases)} of {len(obs)} runs), e.g. " + json.dumps(cases[0])[:600])
    v.sample({"calls": len(calls), "answers": len(answers), "runs": len(obs), "facts": {k: len(x) for k, x in facts.items()}})
    v.cov["rule"] = "every call of Rex!RawCalls through rpc_call and rpc_call_raw and every helper call, each against every answer of Rex!Answers; request frames read by the TLA+ reader"
    v.cov["frames_read_by_the_tla_reader"] = len(parsed)
    return v.finish()


def replay(path, seed):
    lib.log(f"VIOLATION property={PID} replay={path}")
    return 1
