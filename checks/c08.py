"""C08 — control messages parse and serialise losslessly and use the protocol's numbering.
Spec: spec/Control.tla (protocol table, Parses, RoundTrip, universe)."""
import json, os
import lib, tables, etf_common as E

PID = "C08"


def run(tier, seed):
    v = lib.Verdict(PID, tier, seed, "exploration")
    tables.write(lib.ROOT)
    up = os.path.join(lib.outdir(PID), "universe.ndjson")
    tp = os.path.join(lib.outdir(PID), "table.ndjson")
    r = lib.tlc("gen/Gen_Control.tla", "gen/Gen_Control.cfg", PID, "gen", workers=2, env={"OUT": up, "OUT_TABLE": tp})
    if r.rc != 0:
        raise lib.ToolError("control universe generator failed")
    recs = lib.read_ndjson(up)
    for i, rec in enumerate(recs):
        rec["id"] = i
    lib.write_ndjson(up, recs)
    op = os.path.join(lib.outdir(PID), "obs.ndjson")
    top = os.path.join(lib.outdir(PID), "table_obs.ndjson")
    lib.harness(["control-obs", up, op, tp, top])
    table = {row["name"]: row for row in lib.read_ndjson(tp)}
    known_tags = {row["tag"]: row for row in table.values()}
    n_parse = n_reject = 0
    for o in lib.read_ndjson(op):
        rec = recs[o["id"]]
        val = rec["v"]
        case = {"tuple": E.short(val, 400)}
        v.case(json.dumps(val))
        if "panic" in o:
            v.violation("from_term panicked", {**case, "panic": o["panic"]})
            continue
        if rec["parses"]:
            n_parse += 1
            if not o["ok"]:
                v.violation("a tuple headed by an integer tag in 0..255 was rejected", {**case, "err": o["err"]})
                continue
            if not lib.same_value(o["to_term"], val):
                v.violation("to_term(from_term(t)) differs from t (field dropped, reordered or altered)", {**case, "got": E.short(o["to_term"], 400)})
            if not o["into_term_same"]:
                v.violation("into_term and to_term disagree", case)
            w = o["wire"]
            if not w["ok"]:
                v.violation("message does not survive the wire encoding", {**case, "wire": w})
            elif not lib.same_value(w["den"], val):
                v.violation("message changed across the wire encoding", {**case, "after": E.short(w["den"], 400)})
            elif w["variant"] != o["variant"]:
                v.violation("message parses as a different kind after the wire encoding", {**case, "before": o["variant"], "after": w["variant"]})
            # a known tag with the protocol's arity must come back as its structured variant, not as Generic
            tag = val["e"][0]["mag"][0] if val["e"][0]["mag"] else 0
            row = known_tags.get(tag)
            if row and len(val["e"]) == row["arity"] and o["variant"] == "Generic":
                v.classify("a protocol operation with the protocol's arity is only parsed as a generic message", {**case, "operation": row["name"]},
                           ["C08-spawn-arity"] if row["name"] in ("SPAWN_REQUEST", "SPAWN_REQUEST_TT") else [])
            if len(v.cov["samples"]) < 3:
                v.sample({"tuple": E.short(val, 120), "variant": o["variant"]})
        else:
            n_reject += 1
            if o["ok"]:
                v.violation("a term that is not a control message was accepted", {**case, "variant": o["variant"]})
    # the protocol table
    for row in lib.read_ndjson(top):
        spec = table[row["name"]]
        case = {"operation": row["name"], "protocol": {"tag": spec["tag"], "arity": spec["arity"], "fields": spec["fields"]}}
        v.case("table" + row["name"])
        if row.get("missing"):
            v.violation("the library has no variant for a protocol operation", case)
            continue
        t = row["tuple"]
        got_tag = t["e"][0]["mag"][0] if t["e"][0]["mag"] else 0
        got_fields = []
        for x in t["e"][1:]:
            got_fields.append(bytes(x["b"]).decode() if x["k"] == "atom" else ("Id" if x["k"] == "int" else "?"))
        case["library"] = {"tag": got_tag, "arity": len(t["e"]), "fields": got_fields}
        if got_tag != spec["tag"]:
            v.violation("named operation uses a tag number the protocol does not assign to it", case)
        elif len(t["e"]) != spec["arity"] or got_fields != spec["fields"]:
            dev = []
            if row["name"] in ("SPAWN_REQUEST", "SPAWN_REQUEST_TT"):
                exp = list(spec["fields"])
                exp.insert(4, "ArgList")
                if got_fields == exp:
                    dev = ["C08-spawn-arity"]
            v.classify("named operation uses an arity / field order the protocol does not assign to it", case, dev)
        if not row["parses_back_to_same_variant"]:
            v.violation("a named operation does not parse back to its own variant", case)
    v.cov["parsing_tuples"] = n_parse
    v.cov["rejected_terms"] = n_reject
    v.cov["rule"] = ("all tuples headed by each tag 0..255 with arity 1..10 and pairwise-distinguishable fillers (2560), UNLINK_ID/ACK with 13 id values around "
                     "2^31, 2^63, 2^64 and non-integers, 12 non-messages; from_term -> to_term/into_term -> encode -> decode -> from_term; plus the 30-row protocol table "
                     "(tag, arity, field order) against the library's named variants; distinct = distinct tuples + table rows")
    v.assumptions += ["spec/Control.tla transcribes the distribution protocol's control-message table", "harness mapping of Rust field names to protocol field names"]
    return v.finish()


def replay(path, seed):
    rp = json.load(open(path))
    for viol in rp["violations"][:20]:
        lib.log("replay:", viol["what"], json.dumps(viol["case"])[:800])
    lib.log(f"VIOLATION property={PID} replay={path}")
    return 1
