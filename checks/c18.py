"""C18 — local processes: ordered exactly-once delivery, exit notices, name lifecycle.
Spec: spec/LocalProc.tla.  TLC model-checks all interleavings of two client tasks with the process
tasks (registry / mailbox / exit-propagation steps) and the sequential behaviours; operation sequences
(exhaustive for 4 operations, TLC-simulated for 8) are executed on a real Node with recording handlers."""
import json, os, random
import lib

PID = "C18"


def behaviours(cfg, tag, simulate=None, seed=1):
    extra = ["-seed", str(seed)] if simulate else []
    r = lib.tlc("mc/MC_LocalProc.tla", cfg, PID, tag, workers=1, simulate=simulate, extra=extra, timeout=1500)
    b = r.printed()
    if not b:
        raise lib.ToolError(f"no behaviours from {cfg}")
    return list({json.dumps(x["hist"]): x for x in b}.values())


def behaviour_scripts(v, thorough, rng, seed):
    r = lib.tlc("mc/MC_Behaviours.tla", "gen/Gen_Behaviours_2.cfg", PID, "beh_gen2", workers=4, timeout=900)
    two = list({json.dumps(x["hist"]) + json.dumps(x["initial"]): x for x in r.printed()}.values())
    r = lib.tlc("mc/MC_Behaviours.tla", "gen/Gen_Behaviours.cfg", PID, "beh_gen7", workers=1, simulate=f"num={400 if thorough else 60}", extra=["-depth", "40", "-seed", str(seed)], timeout=900)
    seven = list({json.dumps(x["hist"]) + json.dumps(x["initial"]): x for x in r.printed()}.values())
    if not two or not seven:
        raise lib.ToolError("no behaviour scripts generated")
    # a manager without handlers still answers: calls, which_handlers and sync notifications issued while nothing is installed are always taken
    def asks_an_empty_manager(x):
        return not x["initial"] and any(o[0] in ("ge_call", "ge_which", "ge_sync_notify") for o in x["hist"])
    empty = [x for x in two if asks_an_empty_manager(x)]
    empty = empty if thorough else rng.sample(empty, min(len(empty), 40))
    scen = (two if thorough else list({json.dumps(x["hist"]) + json.dumps(x["initial"]): x for x in rng.sample(two, min(len(two), 250)) + empty}.values())) + seven
    for i, s in enumerate(scen):
        s["id"] = i
    sp = os.path.join(lib.outdir(PID), "beh_scenarios.ndjson")
    op = os.path.join(lib.outdir(PID), "beh_obs.ndjson")
    lib.write_ndjson(sp, scen)
    lib.harness(["behaviours-run", sp, op], timeout=1800)
    obs = lib.read_ndjson(op)
    if len(obs) != len(scen):
        raise lib.ToolError("behaviour runner returned too few observations")
    nm = lambda m: [m["t"], m["ref"], m["v"], sorted(m.get("ids") or [])]
    for s, o in zip(scen, obs):
        if "tool_error" in o:
            raise lib.ToolError("behaviour runner: " + o["tool_error"])
        v.case("beh " + json.dumps([s["hist"], s["initial"]]))
        case = {"handlers_installed_at_start": s["initial"], "operations": s["hist"]}
        if o.get("unanswered"):
            v.violation("a live gen_event manager / gen_server left a call from a live caller without an answer (4.4 s)", {**case, "unanswered": o["unanswered"]})
            continue
        if o["notes"]:
            v.add_drift("behaviour script could not be followed: " + "; ".join(o["notes"][:2]), case)
            continue
        for k in sorted(s["inbox"]):
            exp = [nm(m) for m in s["inbox"][k]]
            got = [nm(m) for m in o["inbox"].get(k, [])]
            if exp != got:
                refs = [m[1] for m in got if m[0] in ("reply", "which")]
                if len(refs) != len(set(refs)):
                    what = "a call was answered more than once"
                elif [m for m in got if m not in exp]:
                    what = "a caller received an answer it should not have received (wrong call, wrong value or wrong caller)"
                else:
                    what = "a call that the behaviour handled was not answered to its caller"
                v.violation(what, {**case, "caller": k, "expected": exp, "got": got})
        if [list(x) for x in s["gsLog"]] != o["gsLog"]:
            v.violation("the gen_server's callbacks saw other requests (or in another order) than were sent", {**case, "expected": s["gsLog"], "got": o["gsLog"]})
        if s["gsAlive"] != o["gsAlive"]:
            v.violation("the gen_server is alive / gone where the model says the opposite", {**case, "model_alive": s["gsAlive"]})
        for h in sorted(s["seen"]):
            exp = [list(x) for x in s["seen"][h]]
            got = o["seen"].get(h, [])
            if exp != got:
                v.violation("a gen_event handler saw other events / calls than the installed instance should have seen", {**case, "handler": h, "expected": exp, "got": got})
        if o["installed"] is not None and sorted(s["installed"]) != sorted(o["installed"]):
            v.violation("which_handlers reports other handlers than are installed", {**case, "expected": s["installed"], "got": o["installed"]})
        sends = [x[4] for x in s["hist"] if x[0].startswith("gs_")]
        if sends != o["gs_send_results"]:
            v.violation("sending to the gen_server succeeded / failed where the model says the opposite", {**case, "expected": sends, "got": o["gs_send_results"]})
    v.cov["behaviour_scripts"] = {"two_operations": len(scen) - len(seven), "seven_operations_simulated": len(seven)}


def race_schedules(v, thorough, rng, seed):
    """interleaved behaviours of the model (client operations and process-task steps in one order) forced step by step on a real Node"""
    r = lib.tlc("mc/MC_LocalProcRace.tla", "gen/Gen_LocalProcRace.cfg", PID, "gen_race", workers=1, simulate=f"num={12000 if thorough else 2500}",
                extra=["-depth", "70", "-seed", str(seed)], timeout=1500)
    beh = list({json.dumps(x["steps"]): x for x in r.printed()}.values())
    if not beh:
        raise lib.ToolError("no race behaviours generated")

    def profile(b):
        """(overlapping exits, operations during an exit, exits with somebody to notify)"""
        in_exit, overlap, ops_during, watched = set(), 0, 0, 0
        for st in b["steps"]:
            if st["k"] == "proc":
                if st["to"] == "failed":
                    if in_exit:
                        overlap += 1
                    in_exit.add(st["p"])
                elif st["to"] == "gone":
                    in_exit.discard(st["p"])
            elif st["k"] == "client" and in_exit and st["op"][0] in ("link", "unlink", "monitor", "demonitor"):
                ops_during += 1
        watched = sum(len(n) for n in b["notices"].values())
        return overlap, ops_during, watched
    scored = [(profile(b), b) for b in beh]
    pri = [b for (ov, od, wa), b in scored if (ov or od) and wa]
    rest = [b for (ov, od, wa), b in scored if not ((ov or od) and wa)]
    rng.shuffle(pri)
    rng.shuffle(rest)
    scen = pri[:(1500 if thorough else 110)] + rest[:(500 if thorough else 30)]
    for i, s in enumerate(scen):
        s["id"] = i
    sp = os.path.join(lib.outdir(PID), "race_scenarios.ndjson")
    op = os.path.join(lib.outdir(PID), "race_obs.ndjson")
    lib.write_ndjson(sp, scen)
    lib.harness(["localproc-race", sp, op], timeout=3000)
    obs = lib.read_ndjson(op)
    if len(obs) != len(scen):
        raise lib.ToolError("race runner returned too few observations")
    followed = 0
    for s, o in zip(scen, obs):
        if "tool_error" in o:
            raise lib.ToolError("race runner: " + o["tool_error"])
        v.case("race " + json.dumps(s["steps"]))
        case = {"steps": [(st["op"] if st["k"] == "client" else [st["p"], "->", st["to"]]) for st in s["steps"] if st["k"] != "client2"]}
        if o["notes"]:
            v.add_drift("race schedule could not be followed: " + "; ".join(o["notes"][:2]), case)
            continue
        followed += 1
        # ---- what the property says for sure: a watcher that never fails, whose link / monitor was in place when the target failed
        failed_at, links, mons, expect = {}, set(), {}, {}
        for i, st in enumerate(s["steps"]):
            if st["k"] == "client":
                o_ = st["op"]
                if o_[0] == "link":
                    links.add(frozenset((o_[1], o_[2])))
                elif o_[0] == "unlink":
                    links.discard(frozenset((o_[1], o_[2])))
                    # a relation taken back while the target is on its way out: whether the notice still goes out is left open
                    for q_, t_ in ((o_[1], o_[2]), (o_[2], o_[1])):
                        expect[q_] = [e for e in expect.get(q_, []) if not (e[0] == "exit" and e[1] == t_)]
                elif o_[0] == "monitor":
                    mons[o_[3]] = (o_[1], o_[2])
                elif o_[0] == "demonitor":
                    mons.pop(o_[3], None)
                    expect[o_[1]] = [e for e in expect.get(o_[1], []) if not (e[0] == "down" and e[2] == o_[3])]
            elif st["k"] == "proc" and st["to"] == "failed":
                p = st["p"]
                failed_at[p] = i
                for l in links:
                    if p in l:
                        (q,) = l - {p}
                        expect.setdefault(q, []).append(["exit", p, 0])
                for ref, (watcher, target) in mons.items():
                    if target == p:
                        expect.setdefault(watcher, []).append(["down", p, ref])
        for q, exp in expect.items():
            if q in failed_at:
                continue
            got = o["notices"].get(q, [])
            for e in exp:
                n = got.count(e)
                if n != 1:
                    v.violation("a live process whose link / monitor was in place when its target failed was " + ("not notified of the termination" if n == 0 else "notified more than once"),
                                {**case, "watcher": q, "notice": e, "times_received": n, "all_notices_received": got})
        for q, got in o["notices"].items():
            keys = [json.dumps(g) for g in got]
            if len(keys) != len(set(keys)):
                v.violation("a process was notified of the same termination more than once", {**case, "process": q, "notices": got})
        for p_ in sorted(s["handled"].keys()):
            exp = [h[0] for h in s["handled"][p_]]
            got = o["handled"].get(p_, [])
            if got != exp:
                if len(got) != len(set(got)):
                    v.violation("a message was handed to a process more than once", {**case, "process": p_, "expected": exp, "got": got})
                elif set(got) - set(exp):
                    v.violation("a process was handed a message that the model says it never handles (sent after its failure, or to another process)", {**case, "process": p_, "expected": exp, "got": got})
                elif [g for g in exp if g in got] != got:
                    v.violation("messages were handed to a process out of the order in which they were sent", {**case, "process": p_, "expected": exp, "got": got})
                else:
                    v.violation("a message the process should have handled before it failed was never handed to it", {**case, "process": p_, "expected": exp, "got": got})
            if p_ in o["alive"] and o["alive"][p_] and not s["alive"][p_]:
                v.violation("a terminated process still resolves", {**case, "process": p_})
        # ---- everything else against the implementation-shaped model: drift
        for q in s["notices"]:
            if q not in failed_at and sorted(json.dumps(n) for n in s["notices"][q]) != sorted(json.dumps(n) for n in o["notices"].get(q, [])):
                v.add_drift("notices of a live process differ from the implementation-shaped model in a race the property leaves open", {**case, "process": q, "model": s["notices"][q], "got": o["notices"].get(q, [])})
    v.cov["race_schedules"] = {"generated": len(beh), "with_overlapping_exits_or_operations_during_an_exit": len(pri), "executed": len(scen), "followed_to_the_end": followed}
    if followed < len(scen) * 0.8:
        raise lib.ToolError(f"only {followed} of {len(scen)} race schedules could be followed on the real node")


def run(tier, seed):
    v = lib.Verdict(PID, tier, seed, "model_checking")
    thorough = tier == "thorough"
    rng = random.Random(seed)
    states = trans = 0
    v.cov["mc_configs"] = []
    for c in (("race", "seq") if thorough else ("race_quick", "seq")):
        r = lib.tlc_expect_ok("mc/MC_LocalProc.tla", f"mc/MC_LocalProc_{c}.cfg", PID, f"mc_{c}", timeout=3000)
        states += r.distinct
        trans += r.generated
        v.cov["mc_configs"].append({"cfg": f"MC_LocalProc_{c}", "distinct": r.distinct, "generated": r.generated,
                                    "result": "NameFreedAfterExit, HandledOnceInOrder, NoticeAtMostOnce" + (", LinkedNotifiedSeq" if c == "seq" else "") + " hold"})
    lib.tlc_expect_violation("mc/MC_LocalProc.tla", "mc/MC_LocalProc_names.cfg", PID, "mc_names", "NameFreedAfterExit")
    v.cov["mc_configs"].append({"cfg": "MC_LocalProc_names", "result": "counterexample to NameFreedAfterExit with NamesSurviveExit (the defect fixed by 61a953e)"})
    v.cov["states"], v.cov["transitions"] = states, trans
    four = behaviours("gen/Gen_LocalProc_4.cfg", "gen_4")
    eight = behaviours("gen/Gen_LocalProc.cfg", "gen_8", simulate=f"num={1200 if thorough else 160}", seed=seed)
    if not thorough:
        interesting = [b for b in four if any(o[0] in ("kill", "link", "monitor") for o in b["hist"])]
        four = rng.sample(interesting, min(len(interesting), 140)) + rng.sample(four, 40)
    # links / monitors only, both processes alive from the start, every sequence of four operations: the ones in which a
    # relation was taken back (unlink / demonitor) and a termination still has somebody to notify are always executed
    links = behaviours("gen/Gen_LocalProc_links.cfg", "gen_links")

    def removal_then_exit(b):
        ks = [o[0] for o in b["hist"]]
        return any(k in ("demonitor", "unlink") for k in ks) and b["hist"][-1][0] == "kill" and b["hist"][-1][3] == "ok" and any(len(n) > 0 for n in b["notices"].values())
    pri = [b for b in links if removal_then_exit(b)]
    rest = [b for b in links if not removal_then_exit(b)]
    links = pri + (rest if thorough else rng.sample(rest, min(len(rest), 40)))
    v.cov["link_monitor_sequences"] = {"prioritised": len(pri), "executed": len(links)}
    lib.tlc_expect_violation("mc/MC_LocalProc.tla", "mc/MC_LocalProc_latelink.cfg", PID, "mc_latelink", "LinkedNotifiedAll")
    v.cov["mc_configs"].append({"cfg": "MC_LocalProc_latelink", "result": "counterexample to LinkedNotifiedAll: a link that lands after the exit snapshot (adversarial schedule replayed below)"})
    # ---- OTP-style behaviours (Behaviours.tla): model check, then scripts on a real GenServerProcess / GenEventManager
    bcfg = "mc3" if thorough else "mc2"
    r = lib.tlc_expect_ok("mc/MC_Behaviours.tla", f"mc/MC_Behaviours_{bcfg}.cfg", PID, "beh_" + bcfg, timeout=3000)
    v.cov["states"] += r.distinct
    v.cov["transitions"] += r.generated
    v.cov["mc_configs"].append({"cfg": f"MC_Behaviours_{bcfg}", "distinct": r.distinct, "generated": r.generated, "result": "AnswerOnce, AnswerToCaller, Answered, GeAnswered, EventOnce hold"})
    lib.tlc_expect_violation("mc/MC_Behaviours.tla", "mc/MC_Behaviours_silent.cfg", PID, "beh_silent", "GeAnswered")
    v.cov["mc_configs"].append({"cfg": "MC_Behaviours_silent", "result": "counterexample to GeAnswered without ErrorReplyOnMissing"})
    behaviour_scripts(v, thorough, rng, seed)
    race_schedules(v, thorough, rng, seed)
    scen = list({json.dumps(b["hist"]): b for b in four + eight + links}.values())
    scen.append({"hist": [["late_link", "", "", ""]], "adversarial": "late_link"})
    scen.append({"hist": [["full_mailbox", "", "", ""]], "adversarial": "full_mailbox"})
    scen.append({"hist": [["name_move", "", "", ""]], "adversarial": "name_move"})
    scen.append({"hist": [["register_race", "", "", ""]], "adversarial": "register_race"})
    for i, s in enumerate(scen):
        s["id"] = i
    sp = os.path.join(lib.outdir(PID), "scenarios.ndjson")
    op = os.path.join(lib.outdir(PID), "obs.ndjson")
    lib.write_ndjson(sp, scen)
    lib.harness(["localproc-run", sp, op], timeout=3000)
    obs = lib.read_ndjson(op)
    if len(obs) != len(scen):
        raise lib.ToolError("scenario runner returned too few observations")
    for o in obs:
        s = scen[o["id"]]
        v.case(json.dumps(s["hist"]))
        case = {"operations": s["hist"]}
        if "tool_error" in o:
            raise lib.ToolError("localproc runner: " + o["tool_error"])
        if s.get("adversarial") == "register_race":
            if o["bad_rounds"]:
                v.violation("several tasks registering one free name for different live processes at the same moment: not exactly one of them was told it holds the name "
                            "(or the name resolves to another task's process)", {**case, "rounds": o["rounds"], "tasks": o["tasks"], "rounds_gone_wrong": o["bad_rounds"], "example": o["example"]})
            continue
        if s.get("adversarial") == "name_move":
            if o["notes"] or not (o["unregister_ok"] and o["register_to_q_ok"]):
                v.add_drift("name-move schedule could not be forced: " + "; ".join(o["notes"]), {**case, "obs": o})
            else:
                if o["p_gone"] and not o["svc_resolves_to_q"]:
                    v.violation("a name that was moved to a live process while its former owner was terminating stopped resolving to the live process when the former owner was removed", {**case, "obs": o})
                if o["p_gone"] and o["late_register_ok"] and o["late_resolves"]:
                    v.violation("a name registered for a terminating process still resolves after the process is gone", {**case, "obs": o})
            continue
        if s.get("adversarial") == "full_mailbox":
            if not (o["link_ok"] and o["monitor_ok"]) or o["queued_until_full"] == 0:
                v.add_drift("back-pressure scenario could not be set up", {**case, "obs": o})
            elif o["exit_notices"] != 1 or o["down_notices"] != 1 or not o["down_ref_matches"]:
                v.violation("a live linked and monitoring process whose mailbox was full when its target terminated was not notified exactly once (exit notice and down notice with the monitor's reference)",
                            {**case, "messages_queued_until_full": o["queued_until_full"], "exit_notices": o["exit_notices"], "down_notices": o["down_notices"], "reference_matches": o["down_ref_matches"]})
            elif not o["target_gone"]:
                v.violation("a terminated process still resolves after its watchers drained their mailboxes", {**case, "obs": o})
            continue
        if s.get("adversarial") == "late_link":
            if o["notes"]:
                v.add_drift("late-link schedule could not be forced: " + "; ".join(o["notes"]), case)
            elif o["link_ok"] and o["p1_resolved_at_link"] and o["p1_gone"] and o["p2_exit_notices"] != 1:
                v.classify("a live process linked to a terminating process (link accepted while it still resolved) was not notified exactly once",
                           {**case, "obs": o}, ["C18-late-link"] if o["p2_exit_notices"] == 0 else [])
            continue
        procs = sorted(s["handled"].keys())
        for p in procs:
            exp = [h[0] for h in s["handled"][p]]
            got = o["handled"].get(p, [])
            if got != exp:
                if sorted(got) == sorted(exp):
                    what = "messages were handed to a process out of the order in which their sender issued them"
                elif len(got) != len(set(got)):
                    what = "a message was handed to a process more than once"
                elif set(got) - set(exp):
                    what = "a process was handed a message that was not sent to it"
                else:
                    what = "a message accepted for a live process was never handed to its handler"
                v.violation(what, {**case, "process": p, "expected": exp, "got": got})
            expn = sorted(json.dumps(n) for n in s["notices"][p])
            gotn = sorted(json.dumps(n) for n in o["notices"].get(p, []))
            if gotn != expn:
                if len(gotn) > len(set(gotn)) or len(gotn) > len(expn):
                    what = "a linked / monitoring process was notified more than once or without cause"
                else:
                    what = "a live linked / monitoring process was not notified of a termination (or with the wrong identifier / reference)"
                v.violation(what, {**case, "process": p, "expected": s["notices"][p], "got": o["notices"].get(p, [])})
            if p in o["alive"] and o["alive"][p] != s["alive"][p]:
                v.violation("a terminated process still resolves (or a live one does not)", {**case, "process": p, "model_alive": s["alive"][p], "resolves": o["alive"][p]})
        for n, pv in (s["byName"].items() if isinstance(s["byName"], dict) else []):
            if o["names"].get(n) != pv:
                v.violation("a registered name resolves to the wrong process or survives its process", {**case, "name": n, "model": pv, "whereis": o["names"].get(n)})
        for opx, res in zip(s["hist"], o["results"]):
            if opx[0] in ("register", "unregister", "send", "kill", "send_name") and res != opx[3]:
                what = {"register": "registering a name gave the wrong outcome (a free name must be registrable, a taken one refused)",
                        "unregister": "unregistering a name gave the wrong outcome"}.get(opx[0], "a send was accepted for a dead process or refused for a live one")
                v.violation(what, {**case, "operation": opx, "result": res})
        if o["id"] % 70 == 0:
            v.sample({"operations": s["hist"], "handled": o["handled"], "notices": o["notices"], "names": o["names"]})
    v.cov["traces_validated_against_impl"] = len(obs)
    v.cov["rule"] = ("TLC: all interleavings of 2 client tasks x 2-3 processes x 1 name x 5 operations with the process steps (handle, links snapshot, exit notices, monitors snapshot, "
                     "down notices, removal), and all sequential behaviours of 6 operations over 3 processes and 2 names; on a real Node: operation sequences of length 4 (all in thorough; "
                     "those with kill / link / monitor sampled in quick) and TLC-simulated sequences of length 8 over spawn, register, unregister, send, send_to_name, kill, link, unlink, "
                     "monitor, demonitor; distinct = operation sequences")
    v.assumptions += ["real executions are sequential (one client, quiescence between operations); races between tasks are decided at design level only, "
                      "see known finding C18-late-link in DESIGN.md", "gen_server / gen_event call-reply is not driven by this check yet"]
    return v.finish()


def replay(path, seed):
    rp = json.load(open(path))
    for viol in rp["violations"][:20]:
        lib.log("replay:", viol["what"], json.dumps(viol["case"])[:800])
    lib.log(f"VIOLATION property={PID} replay={path}")
    return 1
