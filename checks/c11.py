"""C11 — term comparison is a lawful total preorder consistent with equality and hashing.
The relation is OBSERVED on the real types over the TLC-built universe; the pairwise laws are
evaluated by TLC (spec/gen/Laws_Order.tla), transitivity over all triples by the driver."""
import json, os
import lib, order_common as O

PID = "C11"


def run(tier, seed):
    v = lib.Verdict(PID, tier, seed, "exploration")
    U, M, entries, obs = O.observe(PID, tier)
    n = obs["n"]
    C, E, H = obs["C"], obs["E"], obs["H"]
    for p in obs["panics"][:5]:
        v.violation("comparison panicked", {"a": O.short(entries[p["i"]]["v"]), "b": O.short(entries[p["j"]]["v"]), "panic": p["panic"]})
    # pairwise laws: TLC over the observed matrices
    ip = os.path.join(lib.outdir(PID), "laws_in.ndjson")
    lib.write_ndjson(ip, [{"C": C, "CB": obs["CB"], "E": E, "H": H}])
    rp = os.path.join(lib.outdir(PID), "laws.ndjson")
    if os.path.exists(rp):
        os.remove(rp)
    r = lib.tlc("gen/Laws_Order.tla", "gen/Laws_Order.cfg", PID, "laws", workers=2, env={"IN": ip, "OUT": rp}, timeout=3000)
    if r.rc != 0 or not os.path.exists(rp):
        raise lib.ToolError("TLC could not evaluate the laws over the observed relation")
    rep = lib.read_ndjson(rp)[0]
    e = lambda i: O.short(entries[i - 1]["v"], 250)
    for (i, j) in rep["antisym"][:50]:
        v.violation("cmp(a,b) is not the reverse of cmp(b,a)", {"a": e(i), "b": e(j), "ab": C[i - 1][j - 1], "ba": C[j - 1][i - 1]})
    for (i, j) in rep["eqcmp"][:50]:
        v.violation("a == b but cmp(a,b) is not Equal", {"a": e(i), "b": e(j), "cmp": C[i - 1][j - 1]})
    for (i, j) in rep["eqhash"][:50]:
        v.violation("a == b but hash(a) != hash(b)", {"a": e(i), "b": e(j)})
    for (i, j) in rep["borrowed"][:50]:
        v.violation("BorrowedTerm orders this pair differently from OwnedTerm", {"a": e(i), "b": e(j), "owned": C[i - 1][j - 1], "borrowed": obs["CB"][i - 1][j - 1]})
    for i in rep["refl"][:20]:
        v.violation("a term is not equal to itself", {"a": e(i)})
    # transitivity over all triples
    le = [[C[i][j] <= 0 for j in range(n)] for i in range(n)]
    succ = [[j for j in range(n) if le[i][j]] for i in range(n)]
    triples = 0
    bad = 0
    for i in range(n):
        row = le[i]
        for j in succ[i]:
            for k in succ[j]:
                triples += 1
                if not row[k]:
                    bad += 1
                    if bad <= 30:
                        v.violation("a <= b and b <= c but a > c", {"a": O.short(entries[i]["v"], 200), "b": O.short(entries[j]["v"], 200), "c": O.short(entries[k]["v"], 200)})
    v.cov["evaluations"] += n * n * n
    # consequences for containers
    if obs["sort_panic"]:
        v.violation("slice::sort panicked: the comparison is not a total order", {"panic": obs["sort_panic"]})
    if obs["bt_panic"] or obs["hm_panic"]:
        v.violation("ordered / hashed container operations panicked", {"bt": obs["bt_panic"], "hm": obs["hm_panic"]})
    else:
        # BTreeMap: one entry per class of Ord-equal terms; every key is found, at an Ord-equal entry
        classes = []
        for i in range(n):
            if not any(C[i][c] == 0 for c in classes):
                classes.append(i)
        if obs["bt_len"] != len(classes):
            v.violation("BTreeMap keyed by terms lost or duplicated entries", {"entries": obs["bt_len"], "classes_of_cmp_equal_terms": len(classes)})
        for i, f in enumerate(obs["bt_lookup"]):
            if f is None or C[i][f] != 0:
                v.violation("BTreeMap lookup of an inserted key fails or lands on a different key", {"key": O.short(entries[i]["v"]), "found": f})
        eclasses = []
        for i in range(n):
            if not any(E[i][c] for c in eclasses):
                eclasses.append(i)
        if obs["hm_len"] != len(eclasses):
            v.violation("HashMap keyed by terms lost or duplicated entries", {"entries": obs["hm_len"], "classes_of_equal_terms": len(eclasses)})
        for i, f in enumerate(obs["hm_lookup"]):
            if f is None or not E[i][f]:
                v.violation("HashMap lookup of an inserted key fails or lands on a different key", {"key": O.short(entries[i]["v"]), "found": f})
    for i in range(n):
        for j in range(n):
            if i != j:
                v._distinct.add((i, j))
    v.sample({"a": O.short(entries[0]["v"], 80), "b": O.short(entries[1]["v"], 80), "cmp": C[0][1], "eq": E[0][1]})
    v.sample({"triples_with_a<=b<=c": triples, "entries": n})
    v.cov["pair_laws_evaluated_by_tlc"] = n * n
    v.cov["rule"] = ("same universe and representations as C12; full cmp / == / hash matrices observed for OwnedTerm and cmp/== for BorrowedTerm; antisymmetry, "
                     "== => Equal, == => equal hash, borrowed = owned evaluated by TLC over all ordered pairs; transitivity over all triples; BTreeMap / HashMap / sort "
                     "scripts over the whole universe; distinct = ordered pairs")
    v.assumptions += ["finite floats and minimal big-integer digits only (well-formed terms)"]
    return v.finish()


def replay(path, seed):
    rp = json.load(open(path))
    for viol in rp["violations"][:20]:
        lib.log("replay:", viol["what"], json.dumps(viol["case"])[:800])
    lib.log(f"VIOLATION property={PID} replay={path}")
    return 1
