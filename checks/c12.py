"""C12 — term comparison agrees with Erlang's standard term order.
Spec: spec/EtfOrder.tla (Cmp computed exactly by TLC); binding B1 (all ordered pairs replayed)."""
import json
import lib, order_common as O

PID = "C12"


def run(tier, seed):
    v = lib.Verdict(PID, tier, seed, "exploration")
    U, M, entries, obs = O.observe(PID, tier)
    n = obs["n"]
    for p in obs["panics"][:5]:
        v.violation("comparison panicked", {"a": O.short(entries[p["i"]]["v"]), "b": O.short(entries[p["j"]]["v"]), "panic": p["panic"]})
    for name in ("C", "CB"):
        X = obs[name]
        for a in range(n):
            va = entries[a]["vi"]
            for b in range(n):
                vb = entries[b]["vi"]
                exp = M[va][vb]
                got = X[a][b]
                if name == "C":
                    v.case(f"{a},{b}", nontrivial=(a != b))
                ok = (got != 0) if exp == 2 else (got == exp)
                if not ok:
                    v.violation(f"{'OwnedTerm' if name == 'C' else 'BorrowedTerm'}::cmp disagrees with Erlang's term order",
                                {"a": O.short(entries[a]["v"], 300), "b": O.short(entries[b]["v"], 300),
                                 "erlang": {-1: "a < b", 0: "a == b", 1: "a > b", 2: "a /= b"}[exp], "observed": {-1: "Less", 0: "Equal", 1: "Greater"}[got]})
    # sort and BTreeMap iteration agree with the spec's order up to == classes
    if obs["sort_panic"]:
        v.violation("slice::sort panicked on the universe (comparison is not a total order)", {"panic": obs["sort_panic"]})
    else:
        s = obs["sorted"]
        for x, y in zip(s, s[1:]):
            if M[entries[x]["vi"]][entries[y]["vi"]] == 1:
                v.violation("sorted slice is not ascending in Erlang's order", {"before": O.short(entries[x]["v"]), "after": O.short(entries[y]["v"])})
    if obs["bt_panic"]:
        v.violation("BTreeMap operations panicked", {"panic": obs["bt_panic"]})
    else:
        it = obs["bt_iter"]
        for x, y in zip(it, it[1:]):
            if M[entries[x]["vi"]][entries[y]["vi"]] not in (-1, 2):
                v.violation("BTreeMap iteration order is not strictly ascending in Erlang's order", {"before": O.short(entries[x]["v"]), "after": O.short(entries[y]["v"])})
    for i in (0, 40, 70, 120):
        if i + 1 < n:
            v.sample({"a": O.short(entries[i]["v"], 100), "b": O.short(entries[i + 1]["v"], 100), "erlang": M[entries[i]["vi"]][entries[i + 1]["vi"]], "observed": obs["C"][i][i + 1]})
    v.cov["universe_values"] = len(U)
    v.cov["term_representations"] = n
    v.cov["rule"] = ("universe = every type rank; numeric neighbours of 2^31, 2^53+-1, 2^63, 2^64, 10^20, 2^1023/2^1024 and max float with adjacent floats, "
                     "equal-length multi-digit big integers, subnormals; binaries vs bit-strings incl. prefixes; proper/improper lists; tuples, maps and lists "
                     "over those; identifiers and funs; each number in every Rust representation (small, big, float), binaries as Binary/String/BitBinary(8), "
                     "[] as Nil and List([]); ALL ordered pairs compared for both term types against EtfOrder!Cmp computed by TLC; distinct = ordered pairs a != b")
    v.assumptions += ["spec/EtfOrder.tla transcribes Erlang's term order (self-check: reflexive, antisymmetric on the universe; transitivity in thorough tier)",
                      "direction among distinct identifiers / funs of one kind is left open (only /= is required)"]
    return v.finish()


def replay(path, seed):
    rp = json.load(open(path))
    for viol in rp["violations"][:20]:
        lib.log("replay:", viol["what"], json.dumps(viol["case"])[:800])
    lib.log(f"VIOLATION property={PID} replay={path}")
    return 1
