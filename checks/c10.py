"""C10 — identifiers received from a peer are re-emitted byte-for-byte.
Spec: spec/Etf.tla identifiers with loc (node-local form), contexts and twins from EtfUniverse."""
import json, os
import lib, etf_common as E

PID = "C10"
SCRIPTS_QUICK = ["", "c", "b", "m", "cb", "bc", "bmb", "cBm", "f", "F", "v", "fc", "bF", "Fv"]


def scripts_upto(n):
    out = [""]
    frontier = [""]
    for _ in range(n):
        frontier = [s + ch for s in frontier for ch in ("cbBmfFv" if n >= 3 else "cbBm")]
        out += frontier
    return out


def run(tier, seed):
    v = lib.Verdict(PID, tier, seed, "exploration")
    thorough = tier == "thorough"
    vp, recs, unenc = E.gen_vectors(PID, "IDS", alts=False)
    recs_only = os.path.join(lib.outdir(PID), "vectors_only.ndjson")
    lib.write_ndjson(recs_only, recs)
    scripts = scripts_upto(4) if thorough else scripts_upto(2) + SCRIPTS_QUICK
    scripts = sorted(set(scripts))
    obs = E.run_obs(PID, recs_only, {"scripts": scripts, "seed": seed})
    by_id = {r["id"]: r for r in recs}
    for o in obs:
        rec = by_id[o["id"]]
        case = {"value": E.short(rec["v"], 400), "bytes": rec["enc"][:200]}
        d = o["dec_spec"]
        v.case(json.dumps(rec["enc"]))
        if not d["ok"]:
            v.violation("a term containing an identifier could not be decoded", {**case, "dec": d})
            continue
        if not lib.same_value(d["den"], rec["v"]):
            v.violation("identifier fields or node-local hash changed in decoding", {**case, "decoded": E.short(d["den"], 400)})
        if not d["reenc"]["same"]:
            v.violation("encode(decode(bytes)) differs from the received bytes", {**case, "reenc": d["reenc"]})
        for s in o.get("scripts", []):
            v.cov["evaluations"] += 1
            if not s["same"]:
                v.violation("identifier not re-emitted byte-for-byte after clone / owned<->zero-copy conversions", {**case, "script": s})
        if E.has_local(rec["v"]) and len(v.cov["samples"]) < 3:
            v.sample({"value": E.short(rec["v"], 200), "scripts": len(o.get("scripts", []))})
    # identity: plain and node-local form of the same logical identifier
    tw = lib.read_ndjson(os.path.join(lib.outdir(PID), "twins_gen.ndjson"))
    for i, r in enumerate(tw):
        r["id"] = i
    tp = os.path.join(lib.outdir(PID), "twins_in.ndjson")
    to = os.path.join(lib.outdir(PID), "twins_out.ndjson")
    lib.write_ndjson(tp, tw)
    lib.harness(["id-twins", tp, to])
    for o in lib.read_ndjson(to):
        r = tw[o["id"]]
        case = {"identifier": E.short(r["v"], 300), "other_form": E.short(r["twin"], 300)}
        v.case("twin" + json.dumps(r["v"]))
        if "panic" in o:
            v.violation("comparing identifiers panicked", {**case, "panic": o["panic"]})
            continue
        if r.get("kind") == "variant":
            # two different identifiers (one field apart) must be told apart everywhere
            for p in o["obs"]:
                if p.get("decode_failed"):
                    v.violation("identifier (or its one-field variant) could not be decoded", case)
                elif p["pair"] == "map":
                    # (the zero-copy decoder need not accept the node-local form: C13 speaks about the tags sent over distribution)
                    if p["owned_entries"] != 2 or (p["borrowed_entries"] is not None and p["borrowed_entries"] != 2) or (p["borrowed_entries"] is None and not E.has_local(r["v"])):
                        v.violation("a map keyed by two identifiers that differ in one field does not keep both entries after decoding", {**case, "entries": p})
                else:
                    opposite = {"Less": "Greater", "Greater": "Less"}
                    ok = (not p["eq"]) and (not p["eq_rev"]) and p["cmp"] != "Equal" and p["cmp_rev"] == opposite.get(p["cmp"]) and (not p["bor_eq"]) \
                        and p["bor_cmp"] == p["cmp"] and not p["hashset_finds"] and not p["btreeset_finds"]
                    if not ok:
                        v.violation("two identifiers that differ in one logical field are not told apart (==, cmp, set lookup, owned vs zero-copy)", {**case, "obs": p})
            continue
        for p in o["obs"]:
            if p.get("pair") == "map":
                continue
            if p.get("decode_failed"):
                v.violation("identifier (or its other form) could not be decoded", case)
                continue
            ok = p["eq"] and p["eq_rev"] and p["hash_eq"] and p["cmp"] == "Equal" and p["cmp_rev"] == "Equal" and p["bor_eq"] \
                and p["bor_cmp"] == "Equal" and p["hashset_finds"] and p["btreeset_finds"]
            if not ok:
                v.violation("two forms (plain / node-local, or node-local with different opaque bytes) of the same identifier are not recognised as the same (==, hash, cmp, set lookup)", {**case, "obs": p})
    # node-local identifiers inside frames with a distribution header (the path received frames take)
    lc = os.path.join(lib.outdir(PID), "local_cases.ndjson")
    lo = os.path.join(lib.outdir(PID), "local_obs.ndjson")
    g = lib.tlc("gen/Gen_DistHeader.tla", "gen/Gen_DistHeader_quick.cfg", PID, "gen_dh", workers=1, env={"MODE": "cases", "OUT": os.path.join(lib.outdir(PID), "dh_cases_unused.ndjson"), "OUT_LOCAL": lc, "OUT_FILL": os.path.join(lib.outdir(PID), "dh_fill_unused.ndjson")})
    if g.rc != 0 or not os.path.exists(lc):
        raise lib.ToolError("Gen_DistHeader did not produce the node-local identifier frames")
    lcases = lib.read_ndjson(lc)
    lib.harness(["dh-local", lc, lo])
    for o in lib.read_ndjson(lo):
        c = lcases[o["i"]]
        v.case("dhlocal" + json.dumps(c["bytes"]))
        case = {"payload": E.short(c["payload"], 300), "atom_references_in_the_header": c["header_refs"], "frame": c["bytes"][:80]}
        if not o["ok"]:
            v.violation("a frame with a node-local identifier behind a distribution header could not be decoded", {**case, "err": o["err"]})
        elif not lib.same_value(o["payload"], c["payload"]):
            v.violation("identifier fields or node-local hash changed when decoded behind a distribution header", {**case, "decoded": E.short(o["payload"], 300)})
        elif o["reencoded"] != c["payload_enc"]:
            v.violation("an identifier received behind a distribution header is not re-emitted byte-for-byte", {**case, "expected": c["payload_enc"][:80], "got": o["reencoded"][:80]})
    v.sample({"twins": len(tw)})
    v.cov["rule"] = ("TLC enumerates 8 identifiers (pid/port/ref; node names incl. UTF-8 and 256 bytes; 1..5 words; 64-bit port numbers) in plain form and with "
                     "3 node-local hashes, each in 13-14 contexts (tuple, list element, list tail, map key/value/both, fun environment, fun owner, nested twice); "
                     "the spec's bytes are decoded, passed through every conversion script over {clone, to-borrowed-and-back (x2), move} up to the tier's length "
                     "and re-encoded; distinct = distinct byte strings")
    v.assumptions += ["spec/Etf.tla LOCAL_EXT layout: 121, 8 opaque bytes, the identifier in its modern tag"]
    return v.finish()


def replay(path, seed):
    rp = json.load(open(path))
    for viol in rp["violations"][:20]:
        lib.log("replay:", viol["what"], json.dumps(viol["case"])[:800])
    lib.log(f"VIOLATION property={PID} replay={path}")
    return 1
