"""X04 — beyond the listed properties (DESIGN §8 item 4, §10.7): a table guard held across an await.
Spec: spec/GuardAcrossAwait.tla (executor threads, the I/O driver polled by an idle worker, the sender's guard,
the receiver's blocking removal).  TLC: NeverWedged and SendCompletes fail as coded with one and with two worker
threads and hold when the guard is released before the first await.  The as-coded counterexample is reproduced on the
real Node (current-thread and two-worker runtimes) with a peer that first does not read, then half-closes, then reads.
Not part of MANIFEST.json; run with `./check X04`."""
import os
import lib

PID = "X04"


def run(tier, seed):
    v = lib.Verdict(PID, tier, seed, "model_checking")
    v.cov["mc_configs"] = []
    st = tr = 0
    for cfg in ("fixed1", "fixed2"):
        r = lib.tlc_expect_ok("GuardAcrossAwait.tla", f"mc/GuardAcrossAwait_{cfg}.cfg", PID, "mc_" + cfg)
        st += r.distinct
        tr += r.generated
        v.cov["mc_configs"].append({"cfg": "GuardAcrossAwait_" + cfg, "distinct": r.distinct, "result": "NeverWedged and SendCompletes (liveness, weak fairness per action) hold"})
    for cfg in ("ascoded1", "ascoded2"):
        lib.tlc_expect_violation("GuardAcrossAwait.tla", f"mc/GuardAcrossAwait_{cfg}.cfg", PID, "mc_" + cfg, "NeverWedged")
        v.cov["mc_configs"].append({"cfg": "GuardAcrossAwait_" + cfg, "result": "counterexample to NeverWedged"})
    v.cov["states"], v.cov["transitions"] = st, tr
    for workers in (1, 2):
        op = os.path.join(lib.outdir(PID), f"obs_{workers}.ndjson")
        rc, _ = lib.harness(["guard-run", workers, op], timeout=120, check=False)
        obs = lib.read_ndjson(op) if os.path.exists(op) else []
        if not obs or "tool_error" in obs[0]:
            raise lib.ToolError(f"guard scenario did not run ({obs[:1]})")
        o = obs[0]
        v.case(f"workers {workers}")
        v.sample(o)
        if o["send_waiting_before_half_close"] and not o["send_completed"] and o["heartbeats_while_peer_reads"] == 0:
            lib.log(f"OBSERVATION: {PID} runtime with {workers} worker thread(s): a 24 MB send waits for the socket holding the connection-table guard; the peer half-closes; "
                    f"the receiver task blocks in connections.remove(); from then on no timer fires on the node's runtime ({o['heartbeats_after_half_close']} heartbeats in 0.5 s, "
                    f"{o['heartbeats_while_peer_reads']} while the peer reads) and the send never completes although the peer read {o['bytes_peer_could_read']} bytes "
                    "(TLC: GuardAcrossAwait_ascoded1/2; protection: release the guard before awaiting)")
        elif not o["send_waiting_before_half_close"]:
            v.note(f"{workers} worker(s): the send did not have to wait on this machine (socket buffers took 24 MB); scenario not exercised")
        else:
            v.note(f"{workers} worker(s): the runtime kept running: {o}")
    v.cov["rule"] = "2 tasks, 1-2 executor threads, peer half-close and start of reading in either order: every interleaving, liveness under weak fairness; two runs on the real node"
    return v.finish()


def replay(path, seed):
    lib.log(f"VIOLATION property={PID} replay={path}")
    return 1
