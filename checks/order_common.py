"""Shared by C11 / C12: universe, spec order matrix (TLC), observed matrices (harness)."""
import json, os
import lib, tables, order_universe


def reps_of(v):
    out = [dict(v)]
    k = v["k"]
    if k == "int":
        n = 0
        for i, d in enumerate(v["mag"]):
            n |= d << (8 * i)
        if v["neg"]:
            n = -n
        if -2 ** 63 <= n < 2 ** 63:
            out.append({**v, "rep": "big"})
    elif k == "bin":
        try:
            bytes(v["b"]).decode("utf-8")
            out.append({**v, "rep": "string"})
        except UnicodeDecodeError:
            pass
        if v["b"]:
            out.append({**v, "rep": "bits8"})
    elif k == "nil":
        out.append({**v, "rep": "list"})
    return out


def observe(pid, tier):
    thorough = tier == "thorough"
    tables.write(lib.ROOT)
    U = order_universe.write(lib.ROOT, thorough)
    suffix = "T" if thorough else ""
    mp = os.path.join(lib.outdir(pid), "spec_order.ndjson")
    if os.path.exists(mp):
        os.remove(mp)
    r = lib.tlc(f"gen/Gen_Order{suffix}.tla", f"gen/Gen_Order{suffix}.cfg", pid, "gen_order", workers=2, env={"OUT": mp}, timeout=3000)
    if r.rc != 0 or "SPEC ORDER" in r.text or not os.path.exists(mp):
        raise lib.ToolError(f"spec order matrix could not be computed or the specified order is not lawful; see out/{pid}/tlc_gen_order.log")
    M = lib.read_ndjson(mp)[0]["m"]
    if len(M) != len(U):
        raise lib.ToolError("universe / matrix size mismatch")
    entries = []
    for vi, v in enumerate(U):
        for rv in reps_of(v):
            entries.append({"vi": vi, "v": rv})
    ep = os.path.join(lib.outdir(pid), "entries.ndjson")
    op = os.path.join(lib.outdir(pid), "order_obs.ndjson")
    lib.write_ndjson(ep, entries)
    lib.harness(["order-obs", ep, op])
    obs = lib.read_ndjson(op)[0]
    return U, M, entries, obs


def short(v, n=160):
    s = json.dumps(v, separators=(",", ":"))
    return s if len(s) <= n else s[:n] + "…"
