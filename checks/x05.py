"""X05 — beyond the listed properties (DESIGN §8 item 5, §10.7): bounded mailboxes and the connection's receiver.
Spec: spec/Backpressure.tla (one receiver per connection hands frames to bounded mailboxes; what it does when the target is
full is the switch Policy).  TLC: as coded (Policy = "wait") NoHeadOfLine and the liveness properties FastGetsAll / RpcAnswered
fail -- one process that does not drain its mailbox stops the delivery of everything else that peer sends, RPC replies
included -- and hold with "park" (and, at the price of lost messages, with "drop").  Observation on the real node: a message
for a fast process behind capacity+2 messages for a stalled one.  Not part of MANIFEST.json; run with `./check X05`."""
import os
import lib

PID = "X05"


def run(tier, seed):
    v = lib.Verdict(PID, tier, seed, "model_checking")
    r = lib.tlc_expect_ok("mc/MC_Backpressure.tla", "mc/Backpressure_park.cfg", PID, "mc_park")
    v.cov["states"], v.cov["transitions"] = r.distinct, r.generated
    v.cov["mc_configs"] = [{"cfg": "Backpressure_park", "result": "NoHeadOfLine, NothingDropped, FastGetsAll, RpcAnswered hold when frames for a full mailbox are set aside per target"}]
    r = lib.tlc_expect_ok("mc/MC_Backpressure.tla", "mc/Backpressure_drop.cfg", PID, "mc_drop")
    v.cov["mc_configs"].append({"cfg": "Backpressure_drop", "result": "NoHeadOfLine, FastGetsAll, RpcAnswered hold when they are dropped (NothingDropped does not)"})
    lib.tlc_expect_violation("mc/MC_Backpressure.tla", "mc/Backpressure_wait.cfg", PID, "mc_wait", "NoHeadOfLine")
    v.cov["mc_configs"].append({"cfg": "Backpressure_wait", "result": "counterexample to NoHeadOfLine as coded (the receiver waits for the full mailbox)"})
    rl = lib.tlc("mc/MC_Backpressure.tla", "mc/Backpressure_wait_live.cfg", PID, "mc_wait_live", workers=4)
    if "FastGetsAll" not in rl.text or "violated" not in rl.text:
        raise lib.ToolError("as-coded policy no longer yields the liveness counterexample (FastGetsAll)")
    v.cov["mc_configs"].append({"cfg": "Backpressure_wait_live", "result": "counterexample to FastGetsAll as coded: the slow process stays stalled, the fast one never gets its message"})
    obs = []
    for extra in (-5, 2):
        op = os.path.join(lib.outdir(PID), f"obs_{extra}.ndjson")
        lib.harness(["backpressure-run", extra, op], timeout=120)
        o = lib.read_ndjson(op)[0]
        if "tool_error" in o:
            raise lib.ToolError(o["tool_error"])
        v.case(f"extra {extra}")
        v.sample(o)
        obs.append(o)
    below, above = obs
    if not below["fast_got_its_message_while_the_slow_one_was_stalled"]:
        raise lib.ToolError("control run: with the slow process's mailbox not full the fast process should get its message at once")
    if not above["fast_got_its_message_while_the_slow_one_was_stalled"]:
        lib.log(f"OBSERVATION: {PID} with {above['messages_for_the_slow_process']} messages from a peer queued for a local process that does not drain its mailbox (capacity "
                f"{above['mailbox_capacity']}), a message of the same peer for another, idle process was not delivered in {above['waited_ms']} ms; it arrived "
                f"{above['ms_after_resume']} ms after the slow process resumed. The connection's receiver awaits the full mailbox (route_message: handle.send(..).await), so RPC "
                "replies and ticks of that peer wait as well (TLC: Backpressure_wait, Backpressure_wait_live).")
    v.cov["rule"] = "7 frames for a slow process (capacity 2), a fast one and an RPC caller under three policies; one stalled process observed on the real node below and above its mailbox capacity"
    return v.finish()


def replay(path, seed):
    lib.log(f"VIOLATION property={PID} replay={path}")
    return 1
