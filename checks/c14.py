"""C14 — distribution headers and the atom cache resolve every atom correctly.
Spec: spec/DistHeader.tla (header layout writer + reader, sender/receiver state machine over histories).
Bindings: B1' (library header bytes -> TLA+ reader), B2 (state-graph edge replay on decode_with_atom_cache)."""
import json, os
import lib, tables, etf_common as E

PID = "C14"


def run(tier, seed):
    v = lib.Verdict(PID, tier, seed, "model_checking")
    thorough = tier == "thorough"
    tables.write(lib.ROOT)
    size = "thorough" if thorough else "quick"
    # design level: conforming writer + conforming reader agree on every history; a weakened reader does not
    mc = lib.tlc_expect_ok("mc/MC_DistHeader.tla", "mc/MC_DistHeader.cfg" if thorough else "mc/MC_DistHeader_quick.cfg", PID, "mc")
    wk = lib.tlc_expect_violation("mc/MC_DistHeader.tla", "mc/MC_DistHeader_noseg.cfg", PID, "mc_noseg", "Resolved")
    v.cov["states"] = mc.distinct
    v.cov["transitions"] = mc.generated
    v.cov["mc_configs"] = [{"cfg": "MC_DistHeader", "distinct": mc.distinct, "generated": mc.generated, "result": "Resolved and CachesAgree hold on every history"},
                           {"cfg": "MC_DistHeader_noseg", "result": "counterexample to Resolved (reader keyed by index only), as expected"}]
    # (a) encoder side
    cp = os.path.join(lib.outdir(PID), "cases.ndjson")
    r = lib.tlc("gen/Gen_DistHeader.tla", f"gen/Gen_DistHeader_{size}.cfg", PID, "gen", workers=1, env={"MODE": "cases", "OUT": cp, "OUT_LOCAL": os.path.join(lib.outdir(PID), "local_cases.ndjson"),
                                                                                                      "OUT_FILL": os.path.join(lib.outdir(PID), "fill_chain.ndjson")})
    edges = r.printed()
    if r.rc != 0 or not edges:
        raise lib.ToolError("DistHeader generator failed")
    cases = lib.read_ndjson(cp)
    for i, c in enumerate(cases):
        c["id"] = i
    lib.write_ndjson(cp, cases)
    op = os.path.join(lib.outdir(PID), "enc_obs.ndjson")
    lib.harness(["dh-encode", cp, op])
    obs = lib.read_ndjson(op)
    ip = os.path.join(lib.outdir(PID), "parse_in.ndjson")
    pp = os.path.join(lib.outdir(PID), "parse_out.ndjson")
    lib.write_ndjson(ip, [{"id": o["id"], "bytes": o["bytes"], "nterms": o["nterms"]} for o in obs if o.get("ok")])
    if os.path.exists(pp):
        os.remove(pp)
    pr = lib.tlc("gen/Parse_DistHeader.tla", "gen/Parse_DistHeader.cfg", PID, "parse", workers=2, env={"IN": ip, "OUT": pp})
    if pr.rc != 0 or not os.path.exists(pp):
        raise lib.ToolError("TLA+ header reader run failed")
    parsed = {o["id"]: o for o in lib.read_ndjson(pp)}
    for o in obs:
        c = cases[o["id"]]
        case = {"terms": E.short(c["terms"], 300), "distinct_atoms": c["atoms"]}
        v.case(json.dumps(c["terms"])[:5000])
        if "panic" in o:
            v.violation("encoding with a distribution header panicked", {**case, "panic": o["panic"]})
            continue
        if c["atoms"] > 255:
            if o["ok"]:
                v.violation("more distinct atoms than a header can reference were encoded instead of reporting an error", case)
            continue
        if not o["ok"]:
            v.violation("encoding with a distribution header failed", {**case, "err": o["err"]})
            continue
        p = parsed.get(o["id"])
        if p is None or not p["ok"]:
            v.violation("the library's header bytes are not readable by an independent reader of the header layout", {**case, "bytes": o["bytes"][:120]})
        elif not all(lib.same_value(a, b) for a, b in zip(p["terms"], c["terms"])) or len(p["terms"]) != len(c["terms"]):
            v.violation("an independent reader resolves the library's header bytes to different terms", {**case, "read": E.short(p["terms"], 300), "bytes": o["bytes"][:120]})
        own = o["own"]
        if not own["ok"]:
            v.violation("the library's own decoder rejects its header bytes", {**case, "own": own})
        elif len(own["terms"]) != len(c["terms"]) or not all(lib.same_value(a, b) for a, b in zip(own["terms"], c["terms"])):
            v.violation("the library's own decoder reads its header bytes back differently", {**case, "read": E.short(own["terms"], 300)})
        if len(v.cov["samples"]) < 2:
            v.sample({"atoms": c["atoms"], "header_bytes_head": o["bytes"][:24]})
    # (b) decoder side: every transition of the sender/receiver model replayed on the real decoder
    ep = os.path.join(lib.outdir(PID), "edges.ndjson")
    lib.write_ndjson(ep, edges)
    eo = os.path.join(lib.outdir(PID), "edges_obs.ndjson")
    rc, out = lib.harness(["dh-edges", ep, eo])
    stats = json.loads(out.strip().splitlines()[-1])
    if stats["reached"] != stats["states"]:
        raise lib.ToolError("edge replay did not reach every model state")
    n = 0
    for o in lib.read_ndjson(eo):
        n += 1
        key = json.dumps([o["model_from"], o["act"]["bytes"]])
        v.case(key)
        exp = o["retA"]
        got = o["obs_ret"]
        case = {"history_bytes": [a["bytes"] for a in o["path"]], "message_bytes": o["act"]["bytes"], "sender_meant": E.short(exp, 300)}
        if "terms" not in got:
            v.violation("a header from a conforming sender was rejected" + (" (panic)" if "panic" in got else ""), {**case, "obs": got})
        elif len(got["terms"]) != len(exp) or not all(lib.same_value(a, b) for a, b in zip(got["terms"], exp)):
            v.violation("a cached-atom reference resolved to a different atom than the sender meant", {**case, "resolved": E.short(got["terms"], 300)})
        elif n % 1500 == 1:
            v.sample({"history_len": len(o["path"]), "message_bytes": o["act"]["bytes"][:40]})
    # (c) one long history that fills the receiver's cache completely (8 segments x 256 entries), replayed message by message
    chain = lib.read_ndjson(os.path.join(lib.outdir(PID), "fill_chain.ndjson"))
    cedges = [{"from": {"filled_by_messages": c["n"] - 1}, "to": {"filled_by_messages": c["n"]}, "act": {"bytes": c["bytes"], "nterms": len(c["terms"])}, "retA": c["terms"], "retI": []} for c in chain]
    cp_ = os.path.join(lib.outdir(PID), "fill_edges.ndjson")
    co_ = os.path.join(lib.outdir(PID), "fill_obs.ndjson")
    lib.write_ndjson(cp_, cedges)
    lib.harness(["dh-edges", cp_, co_])
    for o in lib.read_ndjson(co_):
        n += 1
        v.case("fill" + json.dumps(o["model_from"]))
        exp, got = o["retA"], o["obs_ret"]
        case = {"history": "message %d of a sender that fills all 2048 cache slots (200 new entries per message, earlier entries re-used)" % o["model_to"]["filled_by_messages"], "message_bytes_head": o["act"]["bytes"][:40]}
        if "terms" not in got:
            v.violation("a header from a conforming sender was rejected" + (" (panic)" if "panic" in got else ""), {**case, "obs": got})
        elif len(got["terms"]) != len(exp) or not all(lib.same_value(a, b) for a, b in zip(got["terms"], exp)):
            v.violation("a cached-atom reference resolved to a different atom than the sender meant", {**case, "resolved": E.short(got["terms"], 200)})
    v.cov["traces_validated_against_impl"] = n
    v.cov["encoder_cases"] = len(cases)
    v.cov["exhaustive"] = True
    v.cov["rule"] = ("(a) 72 control/payload pairs with 0..300 distinct atoms, odd/even counts, atoms of 0/1/255/256/300 bytes at first/second/fifth position, atoms inside pids, "
                     "refs, funs, exports, map keys: library bytes read by the TLA+ header reader and by the library; (b) every transition of the sender/receiver model "
                     "(4 atoms, 3 slots in segments 0, 1 and 7, header order ascending/descending so position /= slot, new / re-used / overwritten entries, histories of "
                     "<= 3 (quick) / 4 (thorough) messages) replayed on decode_with_atom_cache with a persistent cache; distinct = (state, message bytes)")
    v.assumptions += ["spec/DistHeader.tla transcribes the distribution header layout; writer and reader are checked against each other by TLC (MC_DistHeader)"]
    return v.finish()


def replay(path, seed):
    rp = json.load(open(path))
    for viol in rp["violations"][:20]:
        lib.log("replay:", viol["what"], json.dumps(viol["case"])[:800])
    lib.log(f"VIOLATION property={PID} replay={path}")
    return 1
