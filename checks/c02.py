"""C02 — decoding untrusted bytes always returns: no panic, abort, stack overflow or blow-up.
Spec: spec/EtfAttack.tla (attack grammar + resource contract).  The crash / allocation facts are
observed by the harness (2 MiB thread, counting allocator, process isolation) — see DESIGN §7."""
import json, os, random, struct, zlib
import lib, etf_common as E, tables

PID = "C02"
STACK = 2 * 1024 * 1024


# all requests of one decode together: the unchanged tree stays below 200 bytes per byte of input (+ inflated data) on every input of every set
TOTAL_BASE = 131072
TOTAL_PER_BYTE = 600


def bound(length, inflated):
    return 256 * (length + inflated) + 65536


def compressed_attacks():
    out = []
    term = bytes([109]) + struct.pack(">I", 40) + bytes([7] * 40)
    z = zlib.compress(term, 6)
    for declared in (0, 1, len(term) - 1, len(term), len(term) + 1, 10 ** 6, 10 ** 8, 10 ** 8 + 1, 2 ** 32 - 1):
        out.append({"why": f"COMPRESSED declares {declared}, stream inflates to {len(term)}", "bytes": [131, 80] + list(struct.pack(">I", declared)) + list(z),
                    "inflated": min(len(term), declared) if declared <= 10 ** 8 else 0})
    for mb in (1, 16, 64):
        big = bytes([109]) + struct.pack(">I", mb * 2 ** 20) + bytes(mb * 2 ** 20)
        zb = zlib.compress(big, 9)
        for declared in (10, 65536, len(big)):
            out.append({"why": f"COMPRESSED bomb: {len(zb)} bytes inflate to {len(big)}, declared {declared}", "bytes": [131, 80] + list(struct.pack(">I", declared)) + list(zb),
                        "inflated": min(len(big), declared)})
    # truncated / corrupt streams
    for cut in (1, 2, len(z) // 2, len(z) - 1):
        out.append({"why": f"COMPRESSED stream truncated at {cut}", "bytes": [131, 80] + list(struct.pack(">I", len(term))) + list(z[:cut]), "inflated": len(term)})
    # compressed inside compressed, many levels
    inner = term
    total = 0
    for lvl in range(300):
        inner = bytes([80]) + struct.pack(">I", len(inner)) + zlib.compress(inner, 1)
        if lvl in (1, 10, 29, 39, 59, 100, 199, 254, 255, 256, 299):
            out.append({"why": f"COMPRESSED nested {lvl + 1} levels", "bytes": [131] + list(inner), "inflated": 400 * (lvl + 1)})
    # ... and alternating with a one-element list / a one-element tuple (every declared size exact)
    for wrap, name in ((lambda x: bytes([108, 0, 0, 0, 1]) + x + bytes([106]), "list"), (lambda x: bytes([104, 1]) + x, "tuple")):
        inner = term
        for lvl in range(150):
            inner = wrap(bytes([80]) + struct.pack(">I", len(inner)) + zlib.compress(inner, 1))
            if lvl in (9, 29, 59, 99, 126, 127, 149):
                out.append({"why": f"COMPRESSED inside a one-element {name}, nested {lvl + 1} times", "bytes": [131] + list(inner), "inflated": 500 * (lvl + 1)})
    return out


def run_inputs(v, inputs, tag, timeout=1800, debug=False, profile=None):
    """run the attack runner over `inputs`, restarting after every crash; returns observations by index"""
    ip = os.path.join(lib.outdir(PID), f"inputs_{tag}.ndjson")
    lib.write_ndjson(ip, inputs)
    obs = {}
    crashes = []
    skip = 0
    rounds = 0
    while skip < len(inputs):
        rounds += 1
        op = os.path.join(lib.outdir(PID), f"obs_{tag}_{rounds}.ndjson")
        pf = os.path.join(lib.outdir(PID), f"progress_{tag}")
        rc, out = lib.harness(["attack-run", ip, op, pf, skip, STACK], check=False, timeout=timeout, release=profile or (not debug))
        if os.path.exists(op):
            for line in open(op):
                try:
                    o = json.loads(line)
                    obs[o["i"]] = o
                except Exception:
                    pass
        if rc == 0:
            break
        try:
            idx = int(open(pf).read().strip())
        except Exception:
            raise lib.ToolError(f"attack runner died (rc={rc}) without progress information")
        crashes.append((idx, rc))
        skip = idx + 1
        if len(crashes) > 40:
            break
    return obs, crashes


def judge(v, inputs, obs, crashes, tag):
    for idx, rc in crashes:
        rec = inputs[idx]
        how = "timed out" if rc == -999 else (f"killed by signal {-rc}" if rc < 0 else f"exit status {rc}")
        case = {"why": rec.get("why"), "input": rec.get("template") or rec.get("map_keys") or rec.get("bytes", [])[:120], "process": how, "set": tag}
        v.violation("decoding this input took the whole process down (stack overflow / abort / allocation failure)", case)
    for i, rec in enumerate(inputs):
        o = obs.get(i)
        if o is None:
            continue
        key = json.dumps(rec.get("template") or rec.get("map_keys") or rec.get("bytes"))
        v.case(key)
        infl = rec.get("inflated", 0)
        lim = bound(o["len"], infl)
        for ep, (kind, largest, total, detail) in o["r"].items():
            v.cov["evaluations"] += 1
            case = {"why": rec.get("why"), "entry_point": ep, "input_len": o["len"], "input": rec.get("template") or rec.get("map_keys") or rec.get("bytes", [])[:160], "set": tag}
            if kind == "panic":
                v.violation("decoder panicked on untrusted input", {**case, "panic": detail})
            elif largest > lim:
                v.violation("allocation request out of proportion to the input", {**case, "largest_request": largest, "bound": lim})
            elif total > TOTAL_BASE + TOTAL_PER_BYTE * (o["len"] + infl):
                v.violation("memory requested in all is out of proportion to the input (more than %d bytes per input byte)" % TOTAL_PER_BYTE,
                            {**case, "requested_in_all": total, "bound": TOTAL_BASE + TOTAL_PER_BYTE * (o["len"] + infl)})


def run(tier, seed):
    v = lib.Verdict(PID, tier, seed, "exploration")
    thorough = tier == "thorough"
    rng = random.Random(seed)
    tables.write(lib.ROOT)
    ap = os.path.join(lib.outdir(PID), "attacks.ndjson")
    npth = os.path.join(lib.outdir(PID), "nest.ndjson")
    r = lib.tlc("gen/Gen_Attack.tla", "gen/Gen_Attack.cfg", PID, "gen_attack", workers=2, env={"OUT": ap, "OUT_NEST": npth})
    if r.rc != 0:
        raise lib.ToolError("attack generator failed")
    attacks = lib.read_ndjson(ap)
    nests = lib.read_ndjson(npth)
    times = [10, 100, 255, 256, 257, 1000, 10000, 100000] + ([1000000] if thorough else [])
    templates = [{"why": f"nesting through {n['why']} x {t}", "template": {"prefix": n["prefix"], "leaf": n["leaf"], "suffix": n["suffix"], "times": t}}
                 for n in nests for t in times]
    comp = compressed_attacks()
    # truncations and mutations of valid encodings of the universe
    vp, recs, _ = E.gen_vectors(PID, "D1", alts=True, heavy=False)
    trunc = []
    muts = []
    encs = []
    for rec in recs:
        encs.append(rec["enc"])
        for a in rec["alts"]:
            encs.append(a["bytes"])
    for e in encs:
        if len(e) <= (400 if thorough else 120):
            for k in range(len(e)):
                trunc.append({"why": "truncation of a valid encoding", "bytes": e[:k]})
    n_mut = 40 if thorough else 3
    for e in encs:
        if len(e) < 3 or len(e) > 3000:
            continue
        for _ in range(n_mut):
            m = list(e)
            op = rng.randrange(5)
            pos = rng.randrange(1, len(m))
            if op == 0:
                m[pos] ^= 1 << rng.randrange(8)
            elif op == 1:
                m[pos] = rng.randrange(256)
            elif op == 2:
                other = encs[rng.randrange(len(encs))]
                if len(other) > 2:
                    cut = rng.randrange(1, len(other))
                    m = m[:pos] + other[cut:cut + rng.randrange(1, 40)] + m[pos:]
            elif op == 3:
                m[pos:pos + 4] = [255, 255, 255, 255][:max(1, min(4, len(m) - pos))]
            else:
                del m[pos]
            muts.append({"why": "mutation / splice of a valid encoding", "bytes": m})
    # decoding a map compares its keys: every ordered pair (and some triples) of the order universe (all type ranks, numeric and
    # bit-string neighbours, empty binary / atom / tuple) as the keys of a well-formed MAP_EXT
    import order_universe
    ou = order_universe.universe(thorough)
    keyed = [{"why": "well-formed map with these two keys", "map_keys": [x, y]} for x in ou for y in ou]
    for _ in range(20000 if thorough else 2000):
        keyed.append({"why": "well-formed map with these three keys", "map_keys": [rng.choice(ou), rng.choice(ou), rng.choice(ou)]})
    # atom text: a multi-byte character at every byte offset of names of 71 (+) bytes -- as a term of its own, as a tuple element, as a
    # map key and as a map value; UTF-8 tags (small and long form) and Latin-1 text in the legacy tag; whole and cut after the atom
    atomtext = []
    for ch in ("\u00e9", "\u20ac", "\U0001d11e"):
        for k in range(0, 71):
            name = ("a" * k + ch + "z" * (70 - k)).encode()
            forms = [("SMALL_ATOM_UTF8_EXT", [119, len(name)] + list(name)), ("ATOM_UTF8_EXT", [118] + list(len(name).to_bytes(2, "big")) + list(name))]
            if ch == "\u00e9":
                l1 = ("a" * k).encode() + b"\xe9" + ("z" * (70 - k)).encode()
                forms.append(("ATOM_EXT (Latin-1)", [100] + list(len(l1).to_bytes(2, "big")) + list(l1)))
            for fname, ab in forms:
                for ctx, pre, post in (("alone", [], []), ("tuple element", [104, 2, 97, 1], []), ("map key", [116, 0, 0, 0, 1], [97, 1]), ("map value", [116, 0, 0, 0, 1, 97, 1], [])):
                    atomtext.append({"why": f"{fname} with a {len(ch.encode())}-byte character at offset {k}, {ctx}", "bytes": [131] + pre + ab + post})
                    if post:
                        atomtext.append({"why": f"{fname} with a {len(ch.encode())}-byte character at offset {k}, {ctx}, input ends after the atom", "bytes": [131] + pre + ab})
    # many node-local identifiers in one frame (each keeps its opaque bytes): lists of 300 and 3000 LOCAL_EXT pids / ports / references
    many_local = []
    node = [119, 3, 110, 64, 104]
    for n_ids in (300, 3000):
        for what, one in (("pids", lambda i: [121, 9, 8, 7, 6, 5, 4, 3, 2, 88] + node + list(i.to_bytes(4, "big")) + [0, 0, 0, 2, 0, 0, 0, 3]),
                          ("ports", lambda i: [121, 9, 8, 7, 6, 5, 4, 3, 2, 120] + node + list(i.to_bytes(8, "big")) + [0, 0, 0, 1]),
                          ("references", lambda i: [121, 9, 8, 7, 6, 5, 4, 3, 2, 90, 0, 2] + node + [0, 0, 0, 1] + list(i.to_bytes(4, "big")) + [0, 0, 0, 7])):
            body = [131, 108] + list(n_ids.to_bytes(4, "big"))
            for i in range(n_ids):
                body += one(i)
            many_local.append({"why": f"a list of {n_ids} node-local {what}", "bytes": body + [106]})
    sets = [("grammar", attacks), ("nest", templates), ("compressed", comp), ("trunc", trunc), ("mut", muts), ("map_keys", keyed), ("atom_text", atomtext), ("many_local", many_local)]
    total_crashes = 0
    for tag, inputs in sets:
        obs, crashes = run_inputs(v, inputs, tag)
        total_crashes += len(crashes)
        judge(v, inputs, obs, crashes, tag)
        v.cov.setdefault("input_sets", {})[tag] = {"inputs": len(inputs), "observed": len(obs), "crashes": len(crashes)}
        missing = len(inputs) - len(obs) - len(crashes)
        if missing > 0 and len(crashes) <= 40:
            raise lib.ToolError(f"attack runner lost {missing} observations in set {tag}")
    # stack use depends on how the code is built: the nesting and compressed sets again under the release settings the workspace
    # under test declares for itself (opt-level 3, lto, one codegen unit)
    for tag, inputs in (("nest", templates), ("compressed", comp)):
        obs, crashes = run_inputs(v, inputs, tag + "_asrepo", profile="asrepo")
        total_crashes += len(crashes)
        judge(v, inputs, obs, crashes, tag + " (workspace release profile)")
        v.cov["input_sets"][tag + "_asrepo"] = {"inputs": len(inputs), "observed": len(obs), "crashes": len(crashes)}
        if len(inputs) - len(obs) - len(crashes) > 0 and len(crashes) <= 40:
            raise lib.ToolError(f"attack runner lost observations in set {tag} (workspace release profile)")
    if thorough:
        # the same nest templates under a dev build (larger frames) of the code under test
        obs, crashes = run_inputs(v, templates, "nest_debug", debug=True)
        judge(v, templates, obs, crashes, "nest (dev build)")
        v.cov["input_sets"]["nest_debug"] = {"inputs": len(templates), "observed": len(obs), "crashes": len(crashes)}
    v.sample({"why": attacks[0]["why"], "bytes": attacks[0]["bytes"][:40]})
    v.sample(templates[len(templates) // 2])
    v.sample({"why": comp[10]["why"], "len": len(comp[10]["bytes"])})
    v.cov["rule"] = ("inputs = EtfAttack!TermAttacks/HeaderAttacks (every tag x 15 boundary values of each length field x 3-6 data tails, also one level down), "
                     "nest templates for 14 nesting positions x depths up to 10^5 (10^6 thorough), compressed sections that lie about their size incl. 64 MB bombs and "
                     "300-level nesting, every truncation offset and seeded mutations/splices of the universe's valid encodings, well-formed maps keyed by every ordered pair of the order universe; each input through 9 entry points on a "
                     "2 MiB thread under a counting allocator; evaluations = input x entry point, distinct = distinct inputs")
    v.cov["contract"] = "result in {ok, err}; largest single allocation <= 256*(len+inflated)+65536; all allocations of one decode together <= 600*(len+inflated)+131072; process survives"
    v.assumptions += ["crash and allocation are observed by the OS / a counting global allocator, not by TLC (the spec generates the inputs and states the contract)",
                      "zlib streams from python"]
    return v.finish()


def replay(path, seed):
    rp = json.load(open(path))
    inputs = []
    for viol in rp["violations"][:20]:
        c = viol["case"]
        lib.log("replay:", viol["what"], json.dumps(c)[:600])
    lib.log(f"VIOLATION property={PID} replay={path}")
    return 1
