"""C01 — encode/decode round trip preserves the Erlang value.
Spec: spec/Etf.tla (reference encoder + parser), universe spec/EtfUniverse.tla.
Bindings: B1 (TLC universe -> real encoder/decoder) and B1' (library bytes -> TLA+ parser)."""
import json, os
import lib, etf_common as E

PID = "C01"


def run(tier, seed):
    v = lib.Verdict(PID, tier, seed, "exploration")
    thorough = tier == "thorough"
    sc, vp, recs, unenc = E.check_and_gen(PID, "D2" if thorough else "D1", "D2", False, thorough)
    # representation variants the term type offers for the same value: a non-empty binary held as a bit string with 8 bits in its
    # last byte, the empty list held as a list without elements (same denotation; the library may encode them differently, the
    # bytes must still be valid and denote the value)
    import copy
    extra = []
    for rec in recs:
        if len(json.dumps(rec["v"])) > 4000:
            continue
        # ... and any value held as the tail of an improper list without elements (top level, and the first element one level down)
        for where in ("top", "child"):
            v2 = copy.deepcopy(rec["v"])
            tgt = v2 if where == "top" else next((n for n in list(E.walk(v2))[1:2]), None)
            if tgt is not None and tgt.get("k") not in ("list", "nil") and "wrap" not in tgt:
                tgt["wrap"] = "headless"
                extra.append({**rec, "id": f"{rec['id']}~headless_{where}", "v": v2, "alts": []})
        for kind in ("bits8", "list"):
            v2 = copy.deepcopy(rec["v"])
            hit = None
            for n in E.walk(v2):
                if kind == "bits8" and n.get("k") == "bin" and n.get("b") and "rep" not in n:
                    hit = n
                    break
                if kind == "list" and n.get("k") == "nil" and "rep" not in n:
                    hit = n
                    break
            if hit is not None:
                hit["rep"] = kind
                extra.append({**rec, "id": f"{rec['id']}~{kind}", "v": v2, "alts": []})
    if extra:
        recs = recs + extra
        lib.write_ndjson(vp, recs + unenc)
    obs = E.run_obs(PID, vp, {"borrowed": False, "seed": seed, "history": True, "history_enc": True})
    hist = [o for o in obs if o["id"] == "__history__"]
    obs = [o for o in obs if o["id"] != "__history__"]
    if len(hist) != 1 or hist[0]["failed_encodes"] < 100:
        raise lib.ToolError("history phase of the harness did not run")
    v.case("history")
    for c in hist[0]["changed_enc"]:
        v.violation("encoding is not a function of the value: after a history of failed encodes (over-long atoms, more atoms than a header lists) on the same thread "
                    "a value is encoded to other bytes than before", {"value": E.short(c["value"], 300), "entry_points": c["which_differ"]})
    if hist[0]["concurrent_failures"]:
        v.violation("a round trip depends on what other threads decode at the same time: a 100-level term that round-trips on its own failed while seven other threads did the same",
                    {"threads": 8, "round_trips_per_thread": 300, "failed": hist[0]["concurrent_failures"]})
    for c in hist[0]["changed"]:
        v.violation("decoding is not a function of the bytes: after a history of rejected inputs on the same thread a valid encoding decodes differently than before", c)
    by_id = {r["id"]: r for r in recs + unenc}
    # B1': the library's bytes, parsed by the TLA+ parser
    to_parse = [{"id": o["id"], "bytes": o["enc"]["bytes"]} for o in obs if o.get("enc", {}).get("ok") and not by_id[o["id"]].get("unenc")]
    parsed = E.tlc_parse(PID, to_parse)
    n_skipped = 0
    for o in obs:
        rec = by_id[o["id"]]
        val = rec["v"]
        case = {"value": E.short(val, 600)}
        if rec.get("unenc"):
            v.case("unenc" + json.dumps(val)[:200])
            enc = o.get("enc", {})
            if enc.get("ok"):
                v.violation("a value the format cannot express was encoded (truncated length field?) instead of reporting an error", {**case, "bytes_head": enc["bytes"][:24]})
            elif "panic" in enc or "build_panic" in o:
                v.violation("encoding a value the format cannot express panicked instead of returning an error", case)
            else:
                v.sample({"unencodable": E.short(val, 80), "encode": enc.get("err")})
            continue
        if E.has_numeric_twin_keys(val):
            n_skipped += 1          # not representable by the library's map type: C03 / C12 territory
            continue
        v.case(json.dumps(val))
        enc = o.get("enc")
        if enc is None or "build_panic" in o:
            v.violation("constructing the term panicked", case)
            continue
        if not enc["ok"]:
            v.violation("encoding a representable value failed" + (" (panic)" if "panic" in enc else ""), {**case, "enc": enc})
            continue
        if not enc["canonical"]:
            v.add_drift("library bytes differ from the spec's canonical encoding (allowed if still valid)", case)
        if not enc.get("writer_same", True):
            v.violation("encode_to_writer does not deliver the bytes of encode (to a Vec, to writers that accept 1 / 7 bytes per call), or reports success to a writer that is full", case)
        # (i) independent reader
        ok, pv = parsed.get(o["id"], (False, None))
        if not ok:
            v.violation("the library's bytes are not a valid External Term Format encoding according to the TLA+ parser", {**case, "bytes": enc["bytes"][:200]})
        elif not lib.same_value(pv, val):
            v.violation("the library's bytes denote a different value according to the TLA+ parser", {**case, "parsed": E.short(pv, 600), "bytes": enc["bytes"][:200]})
        # (ii) own decoder
        d = o["dec_lib"]
        fun_big = any(n.get("k") == "fun" and (E.int_ge_2_31(n["oi"]) or E.int_ge_2_31(n["ou"])) for n in E.walk(val))
        if not d["ok"]:
            what = "decoding the library's own encoding failed" + (" (panic)" if "panic" in d else "")
            v.classify(what, {**case, "dec": d}, ["C01-fun-olduniq"] if fun_big and "panic" not in d else [])
            continue
        if not lib.same_value(d["den"], val):
            v.violation("decode(encode(t)) denotes a different value", {**case, "decoded": E.short(d["den"], 600)})
        # (iii) re-encoding
        if not d["reenc"]["same"]:
            v.violation("encoding the decoded term again does not reproduce the bytes", {**case, "reenc": d["reenc"]})
        v.sample({"value": E.short(val, 120), "bytes_len": len(enc["bytes"])})
    # (v) random deep terms from the harness generator, validated by the TLA+ parser
    count, depth, budget = (3000, 12, 4000) if thorough else (400, 8, 300)
    rp = os.path.join(lib.outdir(PID), "random.ndjson")
    lib.harness(["etf-random", rp, count, seed, depth, budget])
    rnd = lib.read_ndjson(rp)
    parsed_r = E.tlc_parse(PID, [{"id": o["id"], "bytes": o["bytes"]} for o in rnd if "bytes" in o], tag="parse_random")
    for o in rnd:
        v.case(json.dumps(o["den"])[:4000])
        case = {"random_term": E.short(o["den"], 600), "seed": seed, "id": o["id"]}
        if "bytes" not in o:
            v.violation("encoding a random representable term failed", {**case, "err": o.get("enc_err") or o.get("enc_panic")})
            continue
        ok, pv = parsed_r.get(o["id"], (False, None))
        if not ok:
            v.violation("random term: library bytes rejected by the TLA+ parser", {**case, "bytes": o["bytes"][:200]})
        elif not lib.same_value(pv, o["den"]):
            v.violation("random term: library bytes denote a different value according to the TLA+ parser", {**case, "parsed": E.short(pv, 600)})
        d = o["dec_lib"]
        fun_big = any(n.get("k") == "fun" and (E.int_ge_2_31(n["oi"]) or E.int_ge_2_31(n["ou"])) for n in E.walk(o["den"]))
        if not d["ok"]:
            v.classify("random term: decoding the library's own encoding failed", {**case, "dec": d}, ["C01-fun-olduniq"] if fun_big and "panic" not in d else [])
        else:
            if not lib.same_value(d["den"], o["den"]):
                v.violation("random term: decode(encode(t)) denotes a different value", {**case, "decoded": E.short(d["den"], 600)})
            if not d["reenc"]["same"]:
                v.violation("random term: re-encoding differs", case)
    v.cov["rule"] = ("TLC enumerates EtfUniverse!D2 (every integer/atom/float/identifier boundary of the quantifier as leaf, containers of depth <= 2; "
                     "thorough adds the 65535/65536 boundaries) and the harness adds seeded random trees; each value is built, encoded by the library, "
                     "the bytes parsed by the TLA+ parser and by the library, and re-encoded; distinct = distinct abstract values")
    v.cov["tlc_parsed_library_encodings"] = len(parsed) + len(parsed_r)
    v.cov["skipped_not_representable"] = n_skipped
    v.assumptions += ["spec/Etf.tla transcribes the External Term Format correctly (self-check: parser inverts encoder and all alternatives on the universe)",
                      "harness/src/term_json.rs build/denote projection", "TLC + CommunityModules Json/IOUtils"]
    return v.finish()


def replay(path, seed):
    rp = json.load(open(path))
    for viol in rp["violations"][:20]:
        lib.log("replay:", viol["what"], json.dumps(viol["case"])[:800])
    lib.log(f"VIOLATION property={PID} replay={path}")
    return 1
