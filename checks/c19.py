"""C19 — inbound routing is exact and the connection's receiver outlives bad input.
Spec: spec/Inbound.tla.  TLC model-checks the routing / survival invariants and produces frame
sequences (exhaustive for 2 frames, simulated for 5); the scripted peer sends them to a real Node whose
processes record what their handlers receive."""
import json, os, random
import lib, etf_common as E

PID = "C19"


def behaviours(cfg, tag, simulate=None, seed=1):
    extra = ["-seed", str(seed)] if simulate else []
    r = lib.tlc("mc/MC_Inbound.tla", cfg, PID, tag, workers=1, simulate=simulate, extra=extra, timeout=1500)
    b = r.printed()
    if not b:
        raise lib.ToolError(f"no behaviours from {cfg}")
    return list({json.dumps(x["hist"]): x for x in b}.values())


def payload_no(d):
    """frame number carried in {kind, N} payloads / reasons"""
    try:
        e = d["e"][1]
        return e["mag"][0] if e["mag"] else 0
    except Exception:
        return None


def run(tier, seed):
    v = lib.Verdict(PID, tier, seed, "model_checking")
    thorough = tier == "thorough"
    rng = random.Random(seed)
    mc = lib.tlc_expect_ok("mc/MC_Inbound.tla", "mc/MC_Inbound_3.cfg", PID, "mc")
    v.cov["states"], v.cov["transitions"] = mc.distinct, mc.generated
    v.cov["mc_configs"] = [{"cfg": "MC_Inbound_3", "distinct": mc.distinct, "generated": mc.generated, "result": "ExactRouting, StopsOnlyOnFatal, DeregisteredIffStopped hold"}]
    two = behaviours("gen/Gen_Inbound_2.cfg", "gen_2")
    five = behaviours("gen/Gen_Inbound_5.cfg", "gen_5", simulate=f"num={900 if thorough else 60}", seed=seed)
    if thorough and len(two) > 6000:
        # (tens of thousands of 2-frame behaviours with the local operations in between; about 5 run per second in real time)
        kinds = {}
        for b in two:
            for pos, h in enumerate(b["hist"]):
                kinds.setdefault((pos, h[0], h[1]), b)
        named = [b for b in two if any(h[0] in ("move_name", "drop_name") for h in b["hist"]) and sum(1 for h in b["hist"] if h == ["send_name", "alpha"]) >= 1]
        dies = [b for b in two if any(h[0] in ("die_pid", "die_name") for h in b["hist"])]
        two = list({json.dumps(b["hist"]): b for b in list(kinds.values()) + named[:1500] + rng.sample(dies, min(len(dies), 1500)) + rng.sample(two, 3000)}.values())
    if not thorough:
        # every frame kind at both positions is kept; the rest is sampled
        kinds = {}
        for b in two:
            for pos, h in enumerate(b["hist"]):
                kinds.setdefault((pos, h[0], h[1]), b)
        # the name changing hands (or being given up) around frames addressed to it is always taken
        named = [b for b in two if any(h[0] in ("move_name", "drop_name") for h in b["hist"]) and sum(1 for h in b["hist"] if h == ["send_name", "alpha"]) >= 1]
        both = [b for b in named if sum(1 for h in b["hist"] if h == ["send_name", "alpha"]) == 2]
        two = list({json.dumps(b["hist"]): b for b in list(kinds.values()) + rng.sample(two, 25) + [b for b in both if b["hist"][0] == ["send_name", "alpha"] and b["hist"][-1] == ["send_name", "alpha"] and len(b["hist"]) == 3]
                    + rng.sample(both, min(len(both), 16)) + rng.sample(named, min(len(named), 8))}.values())
    scen = two + five
    # a peer that starts talking at once: the first frame (a name-addressed message) arrives in one piece with the last handshake message
    eager = [dict(b, eager_first=True) for b in (two + five) if b["hist"] and b["hist"][0] == ["send_name", "alpha"]]
    scen = scen + (eager if thorough else eager[:6])
    # quiet periods during which the peer keeps ticking: every 12 s (OTP's default interval is 15 s) and, in the thorough tier, every 4 s.
    # They take real time, so they run in a second runner process (own node, own ports) next to the other scenarios.
    base = {"alive": True, "registered": True, "delivered": {"P1": [[2, "send_pid"]], "P2": []}, "callGot": 0, "live": ["P1", "P2"]}
    idle = [{**base, "hist": [["ticks", "12000x1"], ["send_pid", "P1"]], "idle": "12s"},
            {**base, "hist": [["ticks", "4000x3"], ["send_pid", "P1"]], "idle": "4s"}]
    for i, s in enumerate(scen + idle):
        s["id"] = i
    sp = os.path.join(lib.outdir(PID), "scenarios.ndjson")
    op = os.path.join(lib.outdir(PID), "obs.ndjson")
    sp2 = os.path.join(lib.outdir(PID), "scenarios_idle.ndjson")
    op2 = os.path.join(lib.outdir(PID), "obs_idle.ndjson")
    lib.write_ndjson(sp, scen)
    lib.write_ndjson(sp2, idle)
    import subprocess
    exe = lib.build_harness()
    side = subprocess.Popen([exe, "inbound-run", sp2, op2], cwd=lib.ROOT, stdout=subprocess.DEVNULL, stderr=subprocess.DEVNULL)
    try:
        lib.harness(["inbound-run", sp, op], timeout=3000)
        try:
            side.wait(timeout=300)
        except subprocess.TimeoutExpired:
            raise lib.ToolError("the runner of the quiet-period scenarios did not finish")
    finally:
        if side.poll() is None:
            side.kill()
    obs = lib.read_ndjson(op) + lib.read_ndjson(op2)
    scen = scen + idle
    if len(obs) != len(scen):
        raise lib.ToolError("scenario runner returned too few observations")
    for o in obs:
        s = scen[o["id"]]
        v.case(json.dumps([s["hist"], s.get("eager_first", False), s.get("idle")]))
        case = {"frames": s["hist"]}
        if "tool_error" in o:
            raise lib.ToolError("inbound runner: " + o["tool_error"])
        # ---- routing: per process the handler saw exactly the model's deliveries, in order, fields intact
        frames_only = [h for h in s["hist"] if h[0] not in ("kill", "move_name", "drop_name")]
        if s.get("idle") == "12s" and not o["registered"]:
            v.classify("the receiver stopped during a quiet period although the peer kept ticking (12 s interval)", case, ["C19-idle-timeout"])
            continue
        if s.get("idle"):
            frames_only = [["ticks", "-"]] + [h for h in s["hist"] if h[0] != "ticks"]
        for p in ("P1", "P2"):
            exp = s["delivered"][p]
            got = [d["msg"] for d in o["delivered"] if d["proc"] == p and not (d["msg"]["k"] == "regular" and d["msg"]["body"].get("k") == "atom")]
            gnos = []
            for m in got:
                no = payload_no(m["body"] if m["k"] == "regular" else m["reason"]) if m["k"] in ("regular", "exit", "monitor_exit") else None
                gnos.append(no)
                if m["k"] in ("exit", "monitor_exit") and not lib.same_value(m["from"], o["remote"]):
                    v.violation("exit / monitor notification reached its target with a different sender", {**case, "process": p, "got": m})
                if m["k"] == "monitor_exit" and not lib.same_value(m["ref"], o["ref"]):
                    v.violation("monitor notification reached its target with a different reference", {**case, "process": p, "got": m})
                if no is not None and 1 <= no <= len(frames_only):
                    want_kind = frames_only[no - 1][0]
                    kind_ok = {"send_pid": "regular", "send_name": "regular", "die_pid": "regular", "die_name": "regular", "exit": "exit", "monitor_exit": "monitor_exit"}.get(want_kind)
                    if kind_ok != m["k"]:
                        v.violation("a frame was delivered as a different kind of message", {**case, "process": p, "frame": no, "got": m["k"]})
            enos = [e[0] for e in exp]
            if gnos != enos:
                if sorted(set(gnos)) == sorted(set(enos)) and len(gnos) == len(enos):
                    v.violation("messages reached a process out of order", {**case, "process": p, "expected_frames": enos, "got_frames": gnos})
                elif set(gnos) - set(enos):
                    v.violation("a process was handed a message that was not addressed to it (or twice)", {**case, "process": p, "expected_frames": enos, "got_frames": gnos})
                else:
                    v.violation("a well-formed message addressed to a live process was not delivered", {**case, "process": p, "expected_frames": enos, "got_frames": gnos})
        others = [d for d in o["delivered"] if d["proc"] not in ("P1", "P2")]
        if others:
            v.violation("a terminated process was handed a message", {**case, "got": others[:3]})
        # ---- the outstanding call
        if s["callGot"]:
            c = o["call"]
            if "ok" not in c or payload_no(c["ok"]) != s["callGot"]:
                v.violation("the reply addressed to the outstanding call did not reach it", {**case, "call": c, "reply_frame": s["callGot"]})
        elif "ok" in o["call"]:
            v.violation("the outstanding call returned although no reply was addressed to it", {**case, "call": o["call"]})
        # ---- survival
        if s["alive"]:
            if not o["registered"]:
                stops = [st for st in o["steps"] if st.get("outcome") == "stopped"]
                v.violation("the receiver stopped / the connection was deregistered although the peer neither closed the stream nor broke framing", {**case, "steps": o["steps"]})
            elif not o["usable"]:
                v.violation("the connection is registered but no longer usable", case)
        else:
            if o["registered"]:
                v.violation("the peer closed the stream or broke framing but the connection is still registered", {**case, "steps": o["steps"]})
        if o["id"] % 60 == 0:
            v.sample({"frames": s["hist"], "alive": s["alive"], "registered_after": o["registered"], "delivered": {p: [e[0] for e in s["delivered"][p]] for p in ("P1", "P2")}})
    # ---- a burst that outruns its recipient (Backpressure.tla: with the receiver waiting for room nothing is dropped): the peer writes
    # mailbox capacity + 500 messages to a process that is stuck in its handler, then one to another process; once the first one
    # resumes, every message must be there, in the order written, and the other process's message too
    bp = os.path.join(lib.outdir(PID), "burst.ndjson")
    lib.harness(["backpressure-run", 500, bp], timeout=300)
    b = lib.read_ndjson(bp)[0]
    if "tool_error" in b:
        raise lib.ToolError("burst scenario: " + b["tool_error"])
    v.case("burst")
    bcase = {"messages_written_by_the_peer_for_the_slow_process": b["messages_for_the_slow_process"], "mailbox_capacity": b["mailbox_capacity"]}
    if not b["delivered_in_order_without_gaps"]:
        v.violation("a burst of messages for a live process that was slow to handle them was not delivered completely and in order", {**bcase, "delivered": b["delivered_to_the_slow_process"], "first_gap": b["first_gap"]})
    if not b["fast_got_its_message_after_the_slow_one_resumed"]:
        v.violation("a message for a live process that followed a burst for another process was never delivered", bcase)
    if not b["still_connected"]:
        v.violation("the connection did not survive a burst of well-formed messages", bcase)
    # ---- processes ending while the receiver routes (Inbound.tla die_name / die_pid, free-running): the peer makes each of W named workers fail
    # in turn, by name or by pid, and between the failures writes numbered messages to a process by name and to another by pid, and one more to
    # the worker that has just failed.  The two survivors get every message addressed to them, in order; a worker handles the message it fails on
    # and nothing else; its name stops resolving; lookups return; the connection stays.
    cp = os.path.join(lib.outdir(PID), "churn.ndjson")
    lib.harness(["churn-run", 1500 if thorough else 300, 4 if thorough else 3, cp], timeout=900)
    for c in lib.read_ndjson(cp):
        if "tool_error" in c:
            raise lib.ToolError("churn scenario: " + c["tool_error"])
        if c.get("storm"):
            # the junk kinds of the model as families: every first byte, every control tag in a tuple of the wrong shape, every cut of a
            # well-formed frame -- each followed by a numbered message for a named process
            v.case("storm")
            if not c["wrote_all"] and c["still_connected"]:
                raise lib.ToolError("storm scenario: the scripted peer could not write its frames")
            scase = {"malformed_frames": c["malformed_frames"], "messages_sent": c["messages_sent"], "messages_handled": c["messages_handled"], "first_difference_after_the_malformed_frame": c["first_difference_after_the_malformed_frame"]}
            plain = str(c["first_difference_after_the_malformed_frame"] or "").startswith("(no malformed frame")
            if plain:
                v.violation("well-formed messages whose bytes arrived in an unusual way (right behind a large message in one write, or in two pieces with a pause in between) were not all delivered once, in order" + ("" if c["still_connected"] else "; the receiver stopped"), scase)
            elif not c["still_connected"]:
                v.violation("the receiver stopped / the connection was deregistered on a malformed but correctly framed input", scase)
            elif not c["in_order_without_gaps"]:
                v.violation("between malformed but correctly framed inputs, the messages addressed to a live process were not all delivered once, in order", scase)
            continue
        v.case("churn " + str(c["round"]))
        ccase = {"workers": c["workers"], "round": c["round"], "waited_ms": c["waited_ms"]}
        if not c["wrote_all"]:
            raise lib.ToolError("churn scenario: the scripted peer could not write its frames")
        for who, got, n in (("the process addressed by name", c["sink_got"], c["sink_expected"]), ("the process addressed by pid", c["bystander_got"], c["bystander_expected"])):
            if got != list(range(1, n + 1)):
                gap = next((i + 1 for i, x in enumerate(got) if x != i + 1), len(got) + 1)
                v.violation("while other processes were ending, " + who + " did not get every message addressed to it, once, in the order sent (20 s)",
                            {**ccase, "sent": n, "handled": len(got), "first_difference_at": gap, "lookups_return": c["lookups_return"], "still_connected": c["still_connected"]})
        if c["workers_bad"]:
            v.violation("a process that fails on a message handled something other than exactly that message", {**ccase, "count": c["workers_bad"], "examples": c["workers_not_exactly_their_die"]})
        if not c["lookups_return"]:
            v.violation("a registry lookup did not return within 3 s after processes ended while name-addressed messages were arriving", ccase)
        elif c["names_of_ended_workers_still_resolving"]:
            v.violation("the name of a process that has ended still resolves", {**ccase, "workers": c["names_of_ended_workers_still_resolving"]})
        if c["lookups_return"] and not c["sink_resolves"]:
            v.violation("the name of a live process stopped resolving while other processes were ending", ccase)
        if not c["still_connected"]:
            v.violation("the connection did not survive local processes ending during well-formed traffic", ccase)
    # ---- quiet periods (thorough only: real time against the hard-wired 10 s read timeout)
    v.cov["traces_validated_against_impl"] = len(obs)
    v.cov["rule"] = ("TLC: all frame sequences up to 3 over 5 good kinds x 4 recipient states (live, live+named, terminated, never existed), 9 junk kinds, 3 fatal kinds and a local "
                     "termination between frames; executed against a real Node: every kind at both positions of 2-frame sequences + sampled rest, and TLC-simulated 5-frame sequences; "
                     "handlers record what they are given, the receiver is followed through the guarded rx hooks; distinct = frame sequences")
    v.assumptions += ["quiet periods longer than the hard-wired 10 s read timeout are not exercised in the quick tier (see known finding C19-idle-timeout in DESIGN.md)"]
    return v.finish()


def replay(path, seed):
    rp = json.load(open(path))
    for viol in rp["violations"][:20]:
        lib.log("replay:", viol["what"], json.dumps(viol["case"])[:800])
    lib.log(f"VIOLATION property={PID} replay={path}")
    return 1
