------------------------------- MODULE Elixir -------------------------------
(***************************************************************************)
(* Elixir-facing wrappers (property C20): struct shapes of Range, Date,    *)
(* Time, NaiveDateTime, DateTime as Elixir defines them, shape mutations   *)
(* that must be rejected, and range semantics.                             *)
(*                                                                         *)
(* Range arithmetic is done on ANCHORED integers base + off with           *)
(* base \in {MIN, 0, MAX} and small offsets: for ranges whose bounds share *)
(* a base, all arithmetic stays small, so TLC computes length, membership  *)
(* and the element list exactly while the Rust code computes at the 64-bit *)
(* extremes.  A short table covers cross-base ranges.                      *)
(***************************************************************************)
EXTENDS Etf, SequencesExt
A(s) == VAtom(s)
Str(name) == name         \* atoms are given as byte sequences by the callers below
\* ------------------------------------------------------------------ ranges
Anch(b, o) == [base |-> b, off |-> o]
Offs(b) == IF b = "min" THEN 0..5 ELSE IF b = "max" THEN (0 - 5)..0 ELSE (0 - 5)..5
Steps == {1, 2, 3, 5, 0 - 1, 0 - 2, 0 - 3, 0}
ElemsOff(o1, o2, s) == IF s > 0 THEN (IF o1 > o2 THEN {} ELSE {o1 + (k * s) : k \in 0..((o2 - o1) \div s)})
                       ELSE IF s < 0 THEN (IF o1 < o2 THEN {} ELSE {o1 + (k * s) : k \in 0..((o1 - o2) \div (0 - s))})
                       ELSE {}
RangeRec(b, o1, o2, s) ==
    [first |-> Anch(b, o1), last |-> Anch(b, o2), step |-> Anch("zero", s),
     len |-> Cardinality(ElemsOff(o1, o2, s)),
     elems |-> [i \in 1..Cardinality(ElemsOff(o1, o2, s)) |-> Anch(b, o1 + ((i - 1) * s))],
     probes |-> [i \in 1..Cardinality(Offs(b)) |-> LET o == SetToSortSeq(Offs(b), <)[i] IN [v |-> Anch(b, o), member |-> o \in ElemsOff(o1, o2, s)]]]
SameBaseRanges == UNION { { RangeRec(b, o1, o2, s) : o1 \in Offs(b), o2 \in Offs(b), s \in Steps } : b \in {"min", "zero", "max"} }
\* huge steps: only the first element can be a member
HugeNonEmpty(sb, o1, o2) == (sb = "max" /\ o1 <= o2) \/ (sb = "min" /\ o1 >= o2)
HugeRec(b, o1, o2, sb) ==
    [first |-> Anch(b, o1), last |-> Anch(b, o2), step |-> Anch(sb, 0),
     len |-> IF HugeNonEmpty(sb, o1, o2) THEN 1 ELSE 0,
     elems |-> IF HugeNonEmpty(sb, o1, o2) THEN <<Anch(b, o1)>> ELSE <<>>,
     probes |-> [i \in 1..Cardinality(Offs(b)) |-> LET o == SetToSortSeq(Offs(b), <)[i] IN [v |-> Anch(b, o), member |-> o = o1 /\ HugeNonEmpty(sb, o1, o2)]]]
HugeStepRanges == UNION { { HugeRec(b, o1, o2, sb) : o1 \in Offs(b) \cap {0 - 5, 0 - 1, 0, 1, 5}, o2 \in Offs(b) \cap {0 - 5, 0, 5}, sb \in {"min", "max"} } : b \in {"min", "zero", "max"} }
\* cross-base ranges whose expected values do not fit TLC: a small hand-computed table (decimal strings)
\* MIN = -9223372036854775808, MAX = 9223372036854775807
CrossBaseTable == {
  [first |-> "-9223372036854775808", last |-> "9223372036854775807", step |-> "4611686018427387904", len |-> "4",
   elems |-> <<"-9223372036854775808", "-4611686018427387904", "0", "4611686018427387904">>, nonmembers |-> <<"1", "9223372036854775807", "-1">>],
  [first |-> "-9223372036854775808", last |-> "9223372036854775807", step |-> "9223372036854775807", len |-> "3",
   elems |-> <<"-9223372036854775808", "-1", "9223372036854775806">>, nonmembers |-> <<"0", "9223372036854775807">>],
  [first |-> "9223372036854775807", last |-> "-9223372036854775808", step |-> "-9223372036854775808", len |-> "2",
   elems |-> <<"9223372036854775807", "-1">>, nonmembers |-> <<"0", "-9223372036854775808">>],
  [first |-> "0", last |-> "9223372036854775807", step |-> "9223372036854775807", len |-> "2",
   elems |-> <<"0", "9223372036854775807">>, nonmembers |-> <<"1", "-1">>],
  [first |-> "-9223372036854775808", last |-> "9223372036854775807", step |-> "1", len |-> "18446744073709551616",
   elems |-> <<>>, nonmembers |-> <<>>],
  [first |-> "9223372036854775806", last |-> "9223372036854775807", step |-> "2", len |-> "1",
   elems |-> <<"9223372036854775806">>, nonmembers |-> <<"9223372036854775807">>] }

\* ------------------------------------------------------------------ struct shapes
K(name) == VAtom(name)
Struct(mod, kvs) == VMap(CanonMap(<< <<K(<<95,95,115,116,114,117,99,116,95,95>>), VAtom(mod)>> >> \o kvs))
IntV(n) == IF n = 0 THEN Zero ELSE IF n > 0 THEN VInt(FALSE, TrimHi(<<n % 256, (n \div 256) % 256, (n \div 65536) % 256, (n \div 16777216) % 256>>))
           ELSE VInt(TRUE, TrimHi(<<(0 - n) % 256, ((0 - n) \div 256) % 256, ((0 - n) \div 65536) % 256, ((0 - n) \div 16777216) % 256>>))
ISO == VAtom(<<69,108,105,120,105,114,46,67,97,108,101,110,100,97,114,46,73,83,79>>)   \* 'Elixir.Calendar.ISO'
DateT(y, m, d) == Struct(<<69,108,105,120,105,114,46,68,97,116,101>>,
                   << <<K(<<121,101,97,114>>), y>>, <<K(<<109,111,110,116,104>>), m>>, <<K(<<100,97,121>>), d>>, <<K(<<99,97,108,101,110,100,97,114>>), ISO>> >>)
TimeT(h, mi, s, us, prec) == Struct(<<69,108,105,120,105,114,46,84,105,109,101>>,
                   << <<K(<<104,111,117,114>>), h>>, <<K(<<109,105,110,117,116,101>>), mi>>, <<K(<<115,101,99,111,110,100>>), s>>,
                      <<K(<<109,105,99,114,111,115,101,99,111,110,100>>), VTuple(<<us, prec>>)>>, <<K(<<99,97,108,101,110,100,97,114>>), ISO>> >>)
RangeT(f, l, s) == Struct(<<69,108,105,120,105,114,46,82,97,110,103,101>>,
                   << <<K(<<102,105,114,115,116>>), f>>, <<K(<<108,97,115,116>>), l>>, <<K(<<115,116,101,112>>), s>> >>)
Big31 == VInt(FALSE, <<0, 0, 0, 128>>)               \* 2^31
Big32 == VInt(FALSE, <<0, 0, 0, 0, 1>>)              \* 2^32
Big64 == VInt(FALSE, <<0, 0, 0, 0, 0, 0, 0, 0, 1>>)  \* 2^64
Bad == VAtom(<<120>>)
DropKey(m, i) == VMap([j \in 1..(Len(m.kv) - 1) |-> m.kv[IF j < i THEN j ELSE j + 1]])
\* terms that must be rejected: [kind, why, term]
Mutations ==
  LET d == DateT(IntV(2024), IntV(2), IntV(29))
      t == TimeT(IntV(23), IntV(59), IntV(58), IntV(123000), IntV(3))
      r == RangeT(IntV(1), IntV(10), IntV(2)) IN
  { [kind |-> "date", why |-> "missing key", term |-> DropKey(d, i)] : i \in {j \in 1..Len(d.kv) : d.kv[j][1].b \in {<<121,101,97,114>>, <<109,111,110,116,104>>, <<100,97,121>>, <<95,95,115,116,114,117,99,116,95,95>>}} }
  \cup { [kind |-> "time", why |-> "missing key", term |-> DropKey(t, i)] : i \in {j \in 1..Len(t.kv) : t.kv[j][1].b \in {<<104,111,117,114>>, <<109,105,110,117,116,101>>, <<115,101,99,111,110,100>>, <<95,95,115,116,114,117,99,116,95,95>>}} }
  \cup { [kind |-> "range", why |-> "missing key", term |-> DropKey(r, i)] : i \in 1..Len(r.kv) }
  \cup { [kind |-> "date", why |-> "wrong __struct__", term |-> t], [kind |-> "time", why |-> "wrong __struct__", term |-> d], [kind |-> "range", why |-> "wrong __struct__", term |-> d],
         [kind |-> "date", why |-> "not a map", term |-> VTuple(<<IntV(2024), IntV(2), IntV(29)>>)], [kind |-> "range", why |-> "not a map", term |-> VList(<<IntV(1)>>, VNil)] }
  \cup { [kind |-> "date", why |-> "field of the wrong type", term |-> x] : x \in {DateT(Bad, IntV(2), IntV(29)), DateT(IntV(2024), Bad, IntV(29)), DateT(IntV(2024), IntV(2), VFloat(<<64,61,0,0,0,0,0,0>>))} }
  \cup { [kind |-> "date", why |-> "field does not fit its type", term |-> x] : x \in {DateT(IntV(2024), IntV(300), IntV(1)), DateT(IntV(2024), IntV(1), IntV(256)), DateT(IntV(2024), IntV(0 - 1), IntV(1)),
                                                                                      DateT(Big31, IntV(1), IntV(1)), DateT(IntV(2024), Big32, IntV(1))} }
  \cup { [kind |-> "time", why |-> "field of the wrong type", term |-> x] : x \in {TimeT(Bad, IntV(0), IntV(0), IntV(0), IntV(0)), TimeT(IntV(1), IntV(0), IntV(0), Bad, IntV(0))} }
  \cup { [kind |-> "time", why |-> "field does not fit its type", term |-> x] : x \in {TimeT(IntV(256), IntV(0), IntV(0), IntV(0), IntV(0)), TimeT(IntV(1), IntV(0 - 1), IntV(0), IntV(0), IntV(0)),
                                                                                      TimeT(IntV(1), IntV(0), IntV(0), Big32, IntV(6)), TimeT(IntV(1), IntV(0), IntV(0), IntV(0), IntV(256))} }
  \cup { [kind |-> "range", why |-> "field of the wrong type", term |-> x] : x \in {RangeT(Bad, IntV(1), IntV(1)), RangeT(IntV(1), VFloat(<<64,61,0,0,0,0,0,0>>), IntV(1))} }
  \cup { [kind |-> "range", why |-> "field does not fit its type", term |-> x] : x \in {RangeT(Big64, IntV(1), IntV(1)), RangeT(IntV(1), IntV(2), Big64)} }
\* well-formed struct terms as a peer would send them, with the field values they carry
Valid ==
  { [kind |-> "date", term |-> DateT(IntV(y), IntV(m), IntV(d)), fields |-> <<y, m, d>>] : y \in {0, 0 - 1, 2024, 9999, 0 - 9999}, m \in {1, 2, 12}, d \in {1, 28, 29, 31} }
  \cup { [kind |-> "time", term |-> TimeT(IntV(h), IntV(mi), IntV(s), IntV(us), IntV(p)), fields |-> <<h, mi, s, us, p>>] :
           h \in {0, 23}, mi \in {0, 59}, s \in {0, 59}, us \in {0, 999999, 123000}, p \in {0, 3, 6} }
  \cup { [kind |-> "range", term |-> RangeT(IntV(f), IntV(l), IntV(s)), fields |-> <<f, l, s>>] : f \in {0 - 5, 0, 7}, l \in {0 - 9, 0, 100}, s \in {1, 0 - 1, 3} }
  \cup { [kind |-> "range", term |-> RangeT(Big31, VInt(TRUE, <<1, 0, 0, 128>>), Big32), fields |-> <<0, 0, 0>>, big |-> TRUE] }
\* ---- NaiveDateTime / DateTime (time zone and abbreviation are binaries; the offsets are seconds, i32 in the wrapper)
KYear == K(<<121,101,97,114>>)  KMonth == K(<<109,111,110,116,104>>)  KDay == K(<<100,97,121>>)  KHour == K(<<104,111,117,114>>)  KMinute == K(<<109,105,110,117,116,101>>)  KSecond == K(<<115,101,99,111,110,100>>)
KMicro == K(<<109,105,99,114,111,115,101,99,111,110,100>>)  KCal == K(<<99,97,108,101,110,100,97,114>>)  KStruct == K(<<95,95,115,116,114,117,99,116,95,95>>)
KZone == K(<<116,105,109,101,95,122,111,110,101>>)  KAbbr == K(<<122,111,110,101,95,97,98,98,114>>)  KUtcOff == K(<<117,116,99,95,111,102,102,115,101,116>>)  KStdOff == K(<<115,116,100,95,111,102,102,115,101,116>>)
NaiveT(y, mo, d, h, mi, s, us, prec) == Struct(<<69,108,105,120,105,114,46,78,97,105,118,101,68,97,116,101,84,105,109,101>>,
                   << <<KYear, y>>, <<KMonth, mo>>, <<KDay, d>>, <<KHour, h>>, <<KMinute, mi>>, <<KSecond, s>>, <<KMicro, VTuple(<<us, prec>>)>>, <<KCal, ISO>> >>)
DateTimeT(y, mo, d, h, mi, s, us, prec, tz, ab, uo, so) == Struct(<<69,108,105,120,105,114,46,68,97,116,101,84,105,109,101>>,
                   << <<KYear, y>>, <<KMonth, mo>>, <<KDay, d>>, <<KHour, h>>, <<KMinute, mi>>, <<KSecond, s>>, <<KMicro, VTuple(<<us, prec>>)>>, <<KCal, ISO>>,
                      <<KZone, tz>>, <<KAbbr, ab>>, <<KUtcOff, uo>>, <<KStdOff, so>> >>)
Zones == { <<<<69,116,99,47,85,84,67>>, <<85,84,67>>>>, <<<<69,117,114,111,112,101,47,66,101,114,108,105,110>>, <<67,69,84>>>> }      \* every zone with every offset: the fields are independent
Offsets == {0, 3600, 0 - 12600}
NegBig31 == VInt(TRUE, <<1, 0, 0, 128>>)             \* -(2^31 + 1)
DtMutations ==
  LET n == NaiveT(IntV(2024), IntV(2), IntV(29), IntV(23), IntV(59), IntV(58), IntV(123000), IntV(3))
      Dt(z, uo, so) == DateTimeT(IntV(2024), IntV(2), IntV(29), IntV(23), IntV(59), IntV(58), IntV(123000), IntV(3), VBin(z[1]), VBin(z[2]), uo, so)
      Required == {KYear, KMonth, KDay, KHour, KMinute, KSecond, KStruct} IN
  { [kind |-> "naive", why |-> "missing key", term |-> DropKey(n, i)] : i \in {j \in 1..Len(n.kv) : n.kv[j][1] \in Required} }
  \cup { [kind |-> "naive", why |-> "field does not fit its type", term |-> x] : x \in {NaiveT(Big31, IntV(1), IntV(1), IntV(0), IntV(0), IntV(0), IntV(0), IntV(0)),
            NaiveT(IntV(1), IntV(256), IntV(1), IntV(0), IntV(0), IntV(0), IntV(0), IntV(0)), NaiveT(IntV(1), IntV(1), IntV(1), IntV(0 - 1), IntV(0), IntV(0), IntV(0), IntV(0)),
            NaiveT(IntV(1), IntV(1), IntV(1), IntV(0), IntV(0), IntV(300), IntV(0), IntV(0)), NaiveT(IntV(1), IntV(1), IntV(1), IntV(0), IntV(0), IntV(0), Big32, IntV(6))} }
  \cup { [kind |-> "naive", why |-> "field of the wrong type", term |-> NaiveT(IntV(1), IntV(1), Bad, IntV(0), IntV(0), IntV(0), IntV(0), IntV(0))],
         [kind |-> "naive", why |-> "wrong __struct__", term |-> Dt(<<<<69,116,99,47,85,84,67>>, <<85,84,67>>>>, Zero, Zero)],
         [kind |-> "datetime", why |-> "wrong __struct__", term |-> n] }
  \cup UNION { LET t == Dt(z, IntV(3600), Zero) IN
               { [kind |-> "datetime", why |-> "missing key", term |-> DropKey(t, i)] : i \in {j \in 1..Len(t.kv) : t.kv[j][1] \in Required \cup {KZone, KAbbr, KUtcOff, KStdOff}} }
               \cup { [kind |-> "datetime", why |-> "field does not fit its type", term |-> x] : x \in {Dt(z, Big31, Zero), Dt(z, Zero, Big32), Dt(z, NegBig31, Zero), Dt(z, IntV(3600), Big64)} }
               \cup { [kind |-> "datetime", why |-> "field of the wrong type", term |-> x] : x \in {Dt(z, Bad, Zero), Dt(z, Zero, VFloat(<<64,61,0,0,0,0,0,0>>)), Dt(z, VBin(<<49>>), Zero),
                         DateTimeT(IntV(2024), IntV(2), IntV(29), IntV(23), IntV(59), IntV(58), IntV(0), IntV(0), Bad, VBin(z[2]), Zero, Zero),
                         DateTimeT(IntV(2024), IntV(2), IntV(29), IntV(23), IntV(59), IntV(58), IntV(0), IntV(0), VBin(z[1]), IntV(5), Zero, Zero)} }
             : z \in Zones }
DtValid ==
  { [kind |-> "naive", term |-> NaiveT(IntV(y), IntV(mo), IntV(d), IntV(h), IntV(59), IntV(58), IntV(up[1]), IntV(up[2])), fields |-> <<y, mo, d, h, 59, 58, up[1], up[2]>>] :
       y \in {2024, 0 - 1}, mo \in {1, 12}, d \in {1, 31}, h \in {0, 23}, up \in {<<0, 0>>, <<999999, 6>>} }
  \cup { [kind |-> "datetime", term |-> DateTimeT(IntV(2024), IntV(2), IntV(29), IntV(h), IntV(0), IntV(1), IntV(up[1]), IntV(up[2]), VBin(z[1]), VBin(z[2]), IntV(uo), IntV(so)),
           fields |-> <<2024, 2, 29, h, 0, 1, up[1], up[2], z[1], z[2], uo, so>>] : h \in {0, 23}, up \in {<<0, 0>>, <<123000, 3>>}, z \in Zones, uo \in Offsets, so \in Offsets }
\* ------------------------------------------------------------------ proplists and maps (erltf term.rs helpers)
\* A proplist element is a pair {K, V} or a bare atom A (short for {A, true}); anything else is ignored by the helpers.
\* proplist_to_map: pairs in list order, a later occurrence of a key replaces an earlier one; map_to_proplist: one pair per entry.
\* Values are kept; nested proplists are only converted by to_map_recursive.
PTrue == VAtom(<<116, 114, 117, 101>>)
PKa == VAtom(<<97>>)
PKb == VAtom(<<98>>)
PFlag == VAtom(<<102, 108, 97, 103>>)
PPair(k, v) == VTuple(<<k, v>>)
PInner == MkList(<<PPair(PKb, SmallInt(2)), PFlag>>, VNil)                     \* a nested proplist [{b, 2}, flag]
PVals == {SmallInt(1), VNil, PTrue, PInner}
PElems == {PPair(k, v) : k \in {PKa, PKb, SmallInt(1)}, v \in PVals} \cup {PKa, PFlag}
PJunk == {SmallInt(7), VTuple(<<PKa>>), VTuple(<<PKa, SmallInt(1), SmallInt(2)>>)}
IsPair(e) == e.k = "tuple" /\ Len(e.e) = 2
IsAtomV(e) == e.k = "atom"
AsPair(e) == IF IsPair(e) THEN <<e.e[1], e.e[2]>> ELSE <<e, PTrue>>
Keep(es) == SelectSeq(es, LAMBDA e : IsPair(e) \/ IsAtomV(e))
\* last occurrence wins; result as a set of <<key, value>> (the order of a map's entries is not part of its value)
ToMapSet(es) == LET ps == [i \in 1..Len(Keep(es)) |-> AsPair(Keep(es)[i])]
                IN { ps[i] : i \in {j \in 1..Len(ps) : \A m \in (j + 1)..Len(ps) : ps[m][1] # ps[j][1]} }
HasDupKeys(es) == LET ps == [i \in 1..Len(Keep(es)) |-> AsPair(Keep(es)[i])] IN \E i, j \in 1..Len(ps) : i # j /\ ps[i][1] = ps[j][1]
Normalized(es) == [i \in 1..Len(Keep(es)) |-> PPair(AsPair(Keep(es)[i])[1], AsPair(Keep(es)[i])[2])]
\* to_map_recursive on a value: a non-empty list all of whose elements are pairs / atoms becomes a map, recursively in the values
RECURSIVE ToMapRec(_)
ElemsOf(v) == IF v.k = "list" /\ v.t = VNil THEN v.e ELSE <<>>
\* (to_map_recursive is stricter than proplist_to_map about what a proplist is: the key of a pair must be an atom or a binary)
IsPropElem(e) == IsAtomV(e) \/ (IsPair(e) /\ e.e[1].k \in {"atom", "bin"})
IsProplistV(v) == v.k = "list" /\ v.t = VNil /\ \A i \in 1..Len(v.e) : IsPropElem(v.e[i])
ToMapRec(v) == IF IsProplistV(v) THEN [k |-> "mapset", kv |-> { <<p[1], ToMapRec(p[2])>> : p \in ToMapSet(v.e) }]
               ELSE IF v.k = "list" /\ v.t = VNil THEN VList([i \in 1..Len(v.e) |-> ToMapRec(v.e[i])], VNil)     \* any other list: element by element
               ELSE v
PropLists == { es \in UNION { [1..n -> PElems \cup PJunk] : n \in 0..2 } : TRUE }
             \cup { <<a, b, c>> : a \in {PPair(PKa, SmallInt(1)), PKa}, b \in {PPair(PKa, VNil), PPair(PKb, PInner), SmallInt(7)}, c \in {PFlag, PPair(PKb, PTrue), PPair(PKa, PInner)} }
PropCases == { [list |-> MkList(es, VNil), well_formed |-> (\A i \in 1..Len(es) : IsPair(es[i]) \/ IsAtomV(es[i])), dup |-> HasDupKeys(es),
                map |-> ToMapSet(es), normalized |-> MkList(Normalized(es), VNil), recursive |-> ToMapRec(MkList(es, VNil))] : es \in PropLists }
\* ------------------------------------------------------------------ builders (edp_elixir_terms builders.rs)
\* A builder is the fold of the calls made on it.  The keyword-list builder appends one pair per effective call (duplicates kept, in call order);
\* the atom-key-map builder holds, per key, the value of the last effective call ("Replaces existing values"; extend is a sequence of inserts,
\* whatever the sizes of the builder and of the extension).  put_if / put_some with a false condition / None change nothing.
BKey(k) == VAtom(CASE k = "a" -> <<97>> [] k = "b" -> <<98>> [] k = "c" -> <<99>> [] OTHER -> <<100>>)
BAtomX == VAtom(<<120>>)
BOp(o, k, n, on, ps) == [op |-> o, key |-> k, val |-> n, on |-> on, pairs |-> ps]
BExtensions == { <<>>, << <<"a", 7>> >>, << <<"a", 7>>, <<"b", 8>> >>, << <<"a", 7>>, <<"b", 8>>, <<"c", 9>> >>,
                 << <<"b", 8>>, <<"a", 7>>, <<"a", 9>> >>, << <<"c", 9>>, <<"b", 8>>, <<"a", 7>>, <<"d", 6>> >> }
BOps == { BOp("put", k, n, TRUE, <<>>) : k \in {"a", "b"}, n \in {1, 2} }
        \cup { BOp("put_atom", "a", 0, TRUE, <<>>), BOp("put_flag", "b", 0, TRUE, <<>>) }
        \cup { BOp(o, "a", 3, on, <<>>) : o \in {"put_if", "put_some"}, on \in BOOLEAN }
        \cup { BOp("extend", "-", 0, TRUE, ps) : ps \in BExtensions }
BPairsOf(o) == CASE o.op = "put" -> << <<BKey(o.key), SmallInt(o.val)>> >>
                 [] o.op = "put_atom" -> << <<BKey(o.key), BAtomX>> >>
                 [] o.op = "put_flag" -> << <<BKey(o.key), PTrue>> >>
                 [] o.op \in {"put_if", "put_some"} -> IF o.on THEN << <<BKey(o.key), SmallInt(o.val)>> >> ELSE <<>>
                 [] OTHER -> [i \in 1..Len(o.pairs) |-> <<BKey(o.pairs[i][1]), SmallInt(o.pairs[i][2])>>]
RECURSIVE BAll(_)
BAll(os) == IF os = <<>> THEN <<>> ELSE BPairsOf(Head(os)) \o BAll(Tail(os))
BuilderCases == { LET all == BAll(os) IN
                  [ops |-> os, keyword |-> MkList([i \in 1..Len(all) |-> PPair(all[i][1], all[i][2])], VNil),
                   map |-> { all[i] : i \in {j \in 1..Len(all) : \A m \in (j + 1)..Len(all) : all[m][1] # all[j][1]} }]
                  : os \in UNION { [1..n -> BOps] : n \in 0..3 } }
=============================================================================
