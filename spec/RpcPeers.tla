------------------------------ MODULE RpcPeers ------------------------------
(***************************************************************************)
(* Remote calls to several peers at once (property C17: "a reply is never  *)
(* delivered to a different caller", with more than one connection).       *)
(*                                                                         *)
(* Each call takes a reply identifier, enters it in the table of           *)
(* outstanding calls, sends the request to its peer and waits.  The table  *)
(* is one per node and is looked up by identifier alone by the receiver    *)
(* task of every connection (node.rs: pending_rpcs keyed by the reply      *)
(* pid), so what keeps calls to different peers apart is that identifiers  *)
(* are unique across the node.  The switch IdsPerPeer (FALSE in the code:  *)
(* one allocator per node) draws them from one counter per peer instead.   *)
(***************************************************************************)
EXTENDS Integers, Sequences, FiniteSets, TLC
CONSTANTS Callers, Peers, Target,      \* Target[c]: the peer caller c calls
          IdsPerPeer
VARIABLES pc, id, counter, table, wire, inbox, result
vars == <<pc, id, counter, table, wire, inbox, result>>
Ctr(p) == IF IdsPerPeer THEN p ELSE "node"
Init == /\ pc = [c \in Callers |-> "idle"] /\ id = [c \in Callers |-> 0] /\ counter = [k \in Peers \cup {"node"} |-> 0]
        /\ table = <<>> /\ wire = {} /\ inbox = <<>> /\ result = [c \in Callers |-> <<>>]
Alloc(c) == /\ pc[c] = "idle" /\ pc' = [pc EXCEPT ![c] = "allocated"]
            /\ counter' = [counter EXCEPT ![Ctr(Target[c])] = @ + 1] /\ id' = [id EXCEPT ![c] = counter[Ctr(Target[c])] + 1]
            /\ UNCHANGED <<table, wire, inbox, result>>
\* (a second entry under the same identifier replaces the first, as a map insert does)
Insert(c) == /\ pc[c] = "allocated" /\ pc' = [pc EXCEPT ![c] = "inserted"]
             /\ table' = [k \in DOMAIN table \cup {id[c]} |-> IF k = id[c] THEN c ELSE table[k]]
             /\ UNCHANGED <<id, counter, wire, inbox, result>>
Send(c) == /\ pc[c] = "inserted" /\ pc' = [pc EXCEPT ![c] = "awaiting"] /\ wire' = wire \cup {<<Target[c], id[c], c>>}
           /\ UNCHANGED <<id, counter, table, inbox, result>>
\* the peer answers the request it read: the answer names the identifier the request carried and says whose request it was
PeerReplies(m) == /\ m \in wire /\ wire' = wire \ {m} /\ inbox' = Append(inbox, m) /\ UNCHANGED <<pc, id, counter, table, result>>
Route == /\ inbox # <<>> /\ inbox' = Tail(inbox)
         /\ LET m == Head(inbox) IN
            IF m[2] \in DOMAIN table
            THEN /\ result' = [result EXCEPT ![table[m[2]]] = <<m[1], m[3]>>]
                 /\ table' = [k \in DOMAIN table \ {m[2]} |-> table[k]]
            ELSE UNCHANGED <<result, table>>
         /\ UNCHANGED <<pc, id, counter, wire>>
Return(c) == /\ pc[c] = "awaiting" /\ result[c] # <<>> /\ pc' = [pc EXCEPT ![c] = "returned"] /\ UNCHANGED <<id, counter, table, wire, inbox, result>>
Next == (\E c \in Callers : Alloc(c) \/ Insert(c) \/ Send(c) \/ Return(c)) \/ (\E m \in wire : PeerReplies(m)) \/ Route
Spec == Init /\ [][Next]_vars /\ WF_vars(Next)
\* what a caller is handed is the answer of its own peer to its own request
OwnReplyOnly == \A c \in Callers : result[c] # <<>> => result[c] = <<Target[c], c>>
\* every call whose answer arrived returns it (nothing is lost to another caller's entry)
AllAnswered == <>(\A c \in Callers : pc[c] = "returned")
=============================================================================
