------------------------------ MODULE Inbound ------------------------------
(***************************************************************************)
(* Inbound side of a node connection (property C19): the receiver task     *)
(* reads frames from the peer, routes well-formed messages to exactly the  *)
(* addressed local process / registered name / outstanding remote call,    *)
(* drops messages for unknown recipients, outlives every malformed but     *)
(* correctly framed input, and stops -- deregistering the connection --    *)
(* only when the peer closes the stream or breaks framing.                 *)
(*                                                                         *)
(* Recipients: processes P1 (registered as "alpha"), P2; D (terminated     *)
(* before the scenario), N (never existed), S1 (P1's number and serial     *)
(* with the creation of another incarnation of the node) and F1 (P1's      *)
(* number and serial on another node's name): four recipients that do not  *)
(* exist here, and Z, a process that has just ended: its entry is still in *)
(* the process table but its mailbox is closed (the window between a       *)
(* process task's end and its removal); one outstanding remote call.       *)
(* Local operations between frames: P2 terminates; the name alpha moves    *)
(* to P2 while P1 keeps running, or is unregistered.  A message from the   *)
(* peer may also make its recipient fail (die_pid / die_name): the process *)
(* ends while the receiver goes on routing what follows.                   *)
(***************************************************************************)
EXTENDS Integers, Sequences, FiniteSets, TLC
CONSTANT MaxFrames
Procs == {"P1", "P2"}
Targets == {"P1", "P2", "D", "N", "S1", "F1", "Z"}
Names == {"alpha", "ghost"}
Good == {"send_pid", "send_name", "exit", "monitor_exit", "rpc_reply", "die_pid", "die_name"}
Junk == {"tick", "unknown_control", "generic_control", "undecodable", "wrong_marker", "bad_control", "control_not_tuple", "empty_tuple_control", "truncated_term"}
Fatal == {"close", "overlong", "close_mid_frame"}
VARIABLES alive,       \* the receiver task runs
          registered,  \* the connection is in the node's table
          live,        \* set of live local processes
          nameOf,      \* "alpha" -> process or "none"
          callOpen,    \* the remote call is still waiting
          callGot,     \* what the call returned: 0 = nothing yet, else the frame number
          delivered,   \* [process -> sequence of <<frame number, kind>>] handed to its handler
          hist, n
vars == <<alive, registered, live, nameOf, callOpen, callGot, delivered, hist, n>>
Init == /\ alive = TRUE /\ registered = TRUE /\ live = Procs /\ nameOf = "P1" /\ callOpen = TRUE /\ callGot = 0
        /\ delivered = [p \in Procs |-> <<>>] /\ hist = <<>> /\ n = 0
Deliver(p, kind) == IF p \in live THEN delivered' = [delivered EXCEPT ![p] = Append(@, <<n + 1, kind>>)] ELSE UNCHANGED delivered
Frame(kind, tgt) ==
  /\ alive /\ n < MaxFrames /\ n' = n + 1 /\ hist' = Append(hist, <<kind, tgt>>)
  /\ CASE kind \in {"send_pid", "exit", "monitor_exit"} ->
            /\ Deliver(tgt, kind) /\ UNCHANGED <<alive, registered, live, nameOf, callOpen, callGot>>
       [] kind = "send_name" ->
            /\ (IF tgt = "alpha" /\ nameOf # "none" THEN Deliver(nameOf, kind) ELSE UNCHANGED delivered)
            /\ UNCHANGED <<alive, registered, live, nameOf, callOpen, callGot>>
       \* a message on whose handling the recipient fails: it is handled (once) and the process ends there; what the peer sends it afterwards
       \* finds nobody, whether or not the process has left the tables yet, and everybody else is served as before
       [] kind = "die_pid" ->
            /\ Deliver(tgt, "die") /\ live' = live \ {tgt} /\ UNCHANGED <<alive, registered, nameOf, callOpen, callGot>>
       [] kind = "die_name" ->
            /\ (IF tgt = "alpha" /\ nameOf \in live THEN Deliver(nameOf, "die") /\ live' = live \ {nameOf} ELSE UNCHANGED <<delivered, live>>)
            /\ UNCHANGED <<alive, registered, nameOf, callOpen, callGot>>
       [] kind = "rpc_reply" ->
            /\ (IF tgt = "call" /\ callOpen THEN callOpen' = FALSE /\ callGot' = n + 1 ELSE UNCHANGED <<callOpen, callGot>>)
            /\ UNCHANGED <<alive, registered, live, nameOf, delivered>>
       [] kind \in Junk -> UNCHANGED <<alive, registered, live, nameOf, callOpen, callGot, delivered>>
       [] kind \in Fatal -> /\ alive' = FALSE /\ registered' = FALSE /\ UNCHANGED <<live, nameOf, callOpen, callGot, delivered>>
\* a local operation between frames: P2 terminates (its handler fails on a local message)
KillP2 == /\ "P2" \in live /\ n < MaxFrames /\ live' = live \ {"P2"} /\ hist' = Append(hist, <<"kill", "P2">>)
          /\ UNCHANGED <<alive, registered, nameOf, callOpen, callGot, delivered, n>>
\* local registry operations between frames: the name changes hands while its former holder keeps running, or is given up
MoveName == /\ nameOf = "P1" /\ "P2" \in live /\ n < MaxFrames /\ nameOf' = "P2" /\ hist' = Append(hist, <<"move_name", "P2">>)
            /\ UNCHANGED <<alive, registered, live, callOpen, callGot, delivered, n>>
DropName == /\ nameOf # "none" /\ n < MaxFrames /\ nameOf' = "none" /\ hist' = Append(hist, <<"drop_name", "alpha">>)
            /\ UNCHANGED <<alive, registered, live, callOpen, callGot, delivered, n>>
Next == \/ MoveName \/ DropName
        \/ \E k \in {"send_pid", "exit", "monitor_exit"}, t \in Targets : Frame(k, t)
        \/ \E t \in Names : Frame("send_name", t)
        \/ \E t \in Procs : Frame("die_pid", t)
        \/ \E t \in Names : Frame("die_name", t)
        \/ \E t \in {"call", "unknown"} : Frame("rpc_reply", t)
        \/ \E k \in Junk \cup Fatal : Frame(k, "-")
        \/ KillP2
Spec == Init /\ [][Next]_vars
\* ---- C19
\* every delivered entry was a well-formed frame addressed to that process, in order
ExactRouting == \A p \in Procs : \A i \in 1..Len(delivered[p]) :
                   /\ delivered[p][i][1] <= Len(hist)
                   /\ (i > 1 => delivered[p][i - 1][1] < delivered[p][i][1])
StopsOnlyOnFatal == (~alive) <=> (\E i \in 1..Len(hist) : hist[i][1] \in Fatal)
DeregisteredIffStopped == registered = alive
View == <<alive, registered, live, nameOf, callOpen, callGot, delivered, n>>
=============================================================================
