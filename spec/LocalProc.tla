----------------------------- MODULE LocalProc -----------------------------
(***************************************************************************)
(* Local processes of a node (property C18): registry (pid table and name  *)
(* table, separately locked), mailboxes, links, monitors, failure and exit *)
(* propagation as the code performs it (links snapshot -> exit notices ->  *)
(* monitors snapshot -> down notices -> removal from the tables), and      *)
(* gen_server style call / reply.                                          *)
(*                                                                         *)
(* Client operations are the Node API; two-step operations (send_to_name = *)
(* whereis + get, link = two insertions) are two actions so that TLC       *)
(* explores the races.  Switches: NamesSurviveExit (deviation fixed by     *)
(* 61a953e), LinkAfterSnapshotNotified (FALSE = as coded: a link           *)
(* established after the exit snapshot is never notified -- finding        *)
(* C18-late-link).                                                         *)
(***************************************************************************)
EXTENDS Integers, Sequences, FiniteSets, TLC
CONSTANTS Procs, Names, Clients, MaxOps, NamesSurviveExit, Sequential,
          OpKinds,     \* the client operations in play (generator configurations focus on a subset)
          PreSpawn     \* TRUE: every process has been spawned before the first counted operation
None == "none"
VARIABLES byPid, byName, mbox, phase, links, mons, snap, handled, notices, pc, tmp, nops, nextMsg, nextRef, hist
vars == <<byPid, byName, mbox, phase, links, mons, snap, handled, notices, pc, tmp, nops, nextMsg, nextRef, hist>>
RECURSIVE SpawnOps(_)
SpawnOps(S) == IF S = {} THEN <<>> ELSE LET p == CHOOSE p \in S : TRUE IN <<<<"spawn", p, "", "ok">>>> \o SpawnOps(S \ {p})
Init == /\ byPid = (IF PreSpawn THEN Procs ELSE {}) /\ byName = [n \in Names |-> None]
        /\ mbox = [p \in Procs |-> <<>>] /\ phase = [p \in Procs |-> IF PreSpawn THEN "running" ELSE "unborn"]
        /\ links = [p \in Procs |-> {}] /\ mons = [p \in Procs |-> {}]
        /\ snap = [p \in Procs |-> {}] /\ handled = [p \in Procs |-> <<>>]
        /\ notices = [p \in Procs |-> <<>>]
        /\ pc = [c \in Clients |-> "idle"] /\ tmp = [c \in Clients |-> None]
        /\ nops = 0 /\ nextMsg = 1 /\ nextRef = 1 /\ hist = (IF PreSpawn THEN SpawnOps(Procs) ELSE <<>>)
\* a process is busy while it has work in its mailbox or is on its way out
Busy(p) == (phase[p] = "running" /\ mbox[p] # <<>>) \/ phase[p] \in {"failed", "notify_links", "snap_mons", "notify_mons", "removing"}
Quiet == \A p \in Procs : ~Busy(p)
Budget == nops < MaxOps /\ (Sequential => Quiet)
Op(o) == hist' = Append(hist, o) /\ nops' = nops + 1
\* ---- client API ----
Spawn(c, p) == /\ pc[c] = "idle" /\ Budget /\ phase[p] = "unborn"
               /\ phase' = [phase EXCEPT ![p] = "running"] /\ byPid' = byPid \cup {p}
               /\ Op(<<"spawn", p, "", "ok">>)
               /\ UNCHANGED <<byName, mbox, links, mons, snap, handled, notices, pc, tmp, nextMsg, nextRef>>
Register(c, n, p) == /\ pc[c] = "idle" /\ Budget /\ phase[p] = "running"   \* (register does not check liveness; naming a dead pid is outside C18)
                     /\ (IF byName[n] = None THEN byName' = [byName EXCEPT ![n] = p] /\ Op(<<"register", n, p, "ok">>)
                                             ELSE UNCHANGED byName /\ Op(<<"register", n, p, "err">>))
                     /\ UNCHANGED <<byPid, mbox, phase, links, mons, snap, handled, notices, pc, tmp, nextMsg, nextRef>>
Unregister(c, n) == /\ pc[c] = "idle" /\ Budget
                    /\ (IF byName[n] # None THEN byName' = [byName EXCEPT ![n] = None] /\ Op(<<"unregister", n, "", "ok">>)
                                            ELSE UNCHANGED byName /\ Op(<<"unregister", n, "", "err">>))
                    /\ UNCHANGED <<byPid, mbox, phase, links, mons, snap, handled, notices, pc, tmp, nextMsg, nextRef>>
Msg(c, poison) == [id |-> nextMsg, poison |-> poison, from |-> c]
Send(c, p, poison) == /\ pc[c] = "idle" /\ Budget /\ phase[p] # "unborn"
                /\ (IF p \in byPid
                    THEN /\ mbox' = [mbox EXCEPT ![p] = Append(@, Msg(c, poison))] /\ nextMsg' = nextMsg + 1
                         /\ Op(<<IF poison THEN "kill" ELSE "send", p, nextMsg, "ok">>)
                    ELSE /\ UNCHANGED <<mbox, nextMsg>> /\ Op(<<IF poison THEN "kill" ELSE "send", p, nextMsg, "err">>))
                /\ UNCHANGED <<byPid, byName, phase, links, mons, snap, handled, notices, pc, tmp, nextRef>>
\* send_to_name: whereis (step 1) then get + push (step 2)
Whereis(c, n) == /\ pc[c] = "idle" /\ Budget
                 /\ (IF byName[n] # None
                     THEN /\ pc' = [pc EXCEPT ![c] = "resolved"] /\ tmp' = [tmp EXCEPT ![c] = <<byName[n], n>>] /\ nops' = nops + 1 /\ UNCHANGED hist
                     ELSE /\ Op(<<"send_name", n, nextMsg, "err">>) /\ UNCHANGED <<pc, tmp>>)
                 /\ UNCHANGED <<byPid, byName, mbox, phase, links, mons, snap, handled, notices, nextMsg, nextRef>>
SendResolved(c) == /\ pc[c] = "resolved"
                   /\ (IF tmp[c][1] \in byPid
                        THEN /\ mbox' = [mbox EXCEPT ![tmp[c][1]] = Append(@, Msg(c, FALSE))] /\ nextMsg' = nextMsg + 1
                             /\ hist' = Append(hist, <<"send_name", tmp[c][2], nextMsg, "ok">>)
                        ELSE /\ UNCHANGED <<mbox, nextMsg>> /\ hist' = Append(hist, <<"send_name", tmp[c][2], nextMsg, "err">>))
                   /\ pc' = [pc EXCEPT ![c] = "idle"] /\ tmp' = [tmp EXCEPT ![c] = None]
                   /\ UNCHANGED <<byPid, byName, phase, links, mons, snap, handled, notices, nops, nextRef>>
\* link(a, b): step 1 adds b to a's set (if a is registered), step 2 adds a to b's set
Link1(c, a, b) == /\ pc[c] = "idle" /\ Budget /\ a # b /\ phase[a] # "unborn" /\ phase[b] # "unborn"
                  /\ links' = IF a \in byPid THEN [links EXCEPT ![a] = @ \cup {b}] ELSE links
                  /\ pc' = [pc EXCEPT ![c] = "link2"] /\ tmp' = [tmp EXCEPT ![c] = <<a, b>>] /\ Op(<<"link", a, b, "ok">>)
                  /\ UNCHANGED <<byPid, byName, mbox, phase, mons, snap, handled, notices, nextMsg, nextRef>>
Link2(c) == /\ pc[c] = "link2"
            /\ LET a == tmp[c][1] b == tmp[c][2] IN links' = IF b \in byPid THEN [links EXCEPT ![b] = @ \cup {a}] ELSE links
            /\ pc' = [pc EXCEPT ![c] = "idle"] /\ tmp' = [tmp EXCEPT ![c] = None]
            /\ UNCHANGED <<byPid, byName, mbox, phase, mons, snap, handled, notices, nops, nextMsg, nextRef, hist>>
Unlink(c, a, b) == /\ pc[c] = "idle" /\ Budget /\ a # b /\ phase[a] # "unborn" /\ phase[b] # "unborn"
                   /\ links' = [q \in Procs |-> IF q = a /\ a \in byPid THEN links[a] \ {b} ELSE IF q = b /\ b \in byPid THEN links[b] \ {a} ELSE links[q]]
                   /\ Op(<<"unlink", a, b, "ok">>)
                   /\ UNCHANGED <<byPid, byName, mbox, phase, mons, snap, handled, notices, pc, tmp, nextMsg, nextRef>>
Monitor(c, a, b) == /\ pc[c] = "idle" /\ Budget /\ a # b /\ phase[a] # "unborn" /\ phase[b] # "unborn"
                    /\ mons' = IF b \in byPid THEN [mons EXCEPT ![b] = @ \cup {<<a, nextRef>>}] ELSE mons
                    /\ nextRef' = nextRef + 1 /\ Op(<<"monitor", a, b, nextRef>>)
                    /\ UNCHANGED <<byPid, byName, mbox, phase, links, snap, handled, notices, pc, tmp, nextMsg>>
Demonitor(c, a, b, r) == /\ pc[c] = "idle" /\ Budget /\ <<a, r>> \in mons[b] /\ b \in byPid
                         /\ mons' = [mons EXCEPT ![b] = {m \in @ : m[2] # r}] /\ Op(<<"demonitor", a, b, r>>)
                         /\ UNCHANGED <<byPid, byName, mbox, phase, links, snap, handled, notices, pc, tmp, nextMsg, nextRef>>
\* ---- process task ----
Handle(p) == /\ phase[p] = "running" /\ mbox[p] # <<>>
             /\ LET m == Head(mbox[p]) IN
                /\ handled' = [handled EXCEPT ![p] = Append(@, <<m.id, m.from>>)]
                /\ phase' = [phase EXCEPT ![p] = IF m.poison THEN "failed" ELSE "running"]
             /\ mbox' = [mbox EXCEPT ![p] = Tail(@)]
             /\ UNCHANGED <<byPid, byName, links, mons, snap, notices, pc, tmp, nops, nextMsg, nextRef, hist>>
SnapLinks(p) == /\ phase[p] = "failed" /\ snap' = [snap EXCEPT ![p] = links[p]] /\ phase' = [phase EXCEPT ![p] = "notify_links"]
                /\ UNCHANGED <<byPid, byName, mbox, links, mons, handled, notices, pc, tmp, nops, nextMsg, nextRef, hist>>
NotifyLinks(p) == /\ phase[p] = "notify_links"
                  /\ notices' = [q \in Procs |-> IF q \in snap[p] /\ q \in byPid THEN Append(notices[q], <<"exit", p, 0>>) ELSE notices[q]]
                  /\ phase' = [phase EXCEPT ![p] = "snap_mons"]
                  /\ UNCHANGED <<byPid, byName, mbox, links, mons, snap, handled, pc, tmp, nops, nextMsg, nextRef, hist>>
SnapMons(p) == /\ phase[p] = "snap_mons" /\ snap' = [snap EXCEPT ![p] = mons[p]] /\ phase' = [phase EXCEPT ![p] = "notify_mons"]
               /\ UNCHANGED <<byPid, byName, mbox, links, mons, handled, notices, pc, tmp, nops, nextMsg, nextRef, hist>>
\* one "down" notice per monitor (a process may monitor another more than once, with different references)
RECURSIVE AppendAll(_, _)
AppendAll(seq, S) == IF S = {} THEN seq ELSE LET x == CHOOSE x \in S : \A y \in S : x[3] <= y[3] IN AppendAll(Append(seq, x), S \ {x})
NotifyMons(p) == /\ phase[p] = "notify_mons"
                 /\ notices' = [q \in Procs |-> IF q \in byPid THEN AppendAll(notices[q], {<<"down", p, m[2]>> : m \in {x \in snap[p] : x[1] = q}}) ELSE notices[q]]
                 /\ phase' = [phase EXCEPT ![p] = "removing"]
                 /\ UNCHANGED <<byPid, byName, mbox, links, mons, snap, handled, pc, tmp, nops, nextMsg, nextRef, hist>>
Remove(p) == /\ phase[p] = "removing" /\ byPid' = byPid \ {p} /\ phase' = [phase EXCEPT ![p] = "gone"]
             /\ byName' = IF NamesSurviveExit THEN byName ELSE [n \in Names |-> IF byName[n] = p THEN None ELSE byName[n]]
             /\ UNCHANGED <<mbox, links, mons, snap, handled, notices, pc, tmp, nops, nextMsg, nextRef, hist>>
On(k) == k \in OpKinds
ClientStep(c) == \/ \E p \in Procs : (On("spawn") /\ Spawn(c, p)) \/ (On("kill") /\ Send(c, p, TRUE)) \/ (On("send") /\ Send(c, p, FALSE))
                 \/ \E n \in Names : (On("unregister") /\ Unregister(c, n)) \/ (On("send_name") /\ Whereis(c, n)) \/ \E p \in Procs : (On("register") /\ Register(c, n, p))
                 \/ SendResolved(c) \/ Link2(c)
                 \/ \E a, b \in Procs : (On("link") /\ Link1(c, a, b)) \/ (On("unlink") /\ Unlink(c, a, b)) \/ (On("monitor") /\ Monitor(c, a, b))
                                         \/ \E r \in 1..4 : (On("demonitor") /\ Demonitor(c, a, b, r))
ProcStep(p) == Handle(p) \/ SnapLinks(p) \/ NotifyLinks(p) \/ SnapMons(p) \/ NotifyMons(p) \/ Remove(p)
Next == (\E c \in Clients : ClientStep(c)) \/ (\E p \in Procs : ProcStep(p))
Spec == Init /\ [][Next]_vars
\* ---- C18
\* a name never resolves to a process that is gone
NameFreedAfterExit == \A n \in Names : byName[n] # None => phase[byName[n]] # "gone"
\* each message is handled at most once, and per sender in the order of sending (ids grow per sender)
HandledOnceInOrder == \A p \in Procs : \A i, j \in 1..Len(handled[p]) :
                         i < j => (handled[p][i][1] # handled[p][j][1] /\ (handled[p][i][2] = handled[p][j][2] => handled[p][i][1] < handled[p][j][1]))
\* no notice is delivered twice
NoticeAtMostOnce == \A q \in Procs : \A i, j \in 1..Len(notices[q]) : i # j => notices[q][i] # notices[q][j]
\* quiescent form of "every live linked / monitoring process is notified exactly once": when p is gone and everything is
\* quiet, every process that was linked to p when its exit snapshot was taken ... (stated on the sequential behaviours,
\* where links are complete before a failure is handled)
LinkedNotifiedSeq == Sequential => \A p, q \in Procs :
                        (phase[p] = "gone" /\ q \in links[p] /\ phase[q] = "running" /\ Quiet /\ pc = [c \in Clients |-> "idle"])
                           => \E i \in 1..Len(notices[q]) : notices[q][i][1] = "exit" /\ notices[q][i][2] = p
\* the same without restricting to sequential behaviours: violated by a link that lands after the exit snapshot (finding C18-late-link)
LinkedNotifiedAll == \A p, q \in Procs :
                        (phase[p] = "gone" /\ q \in links[p] /\ phase[q] = "running" /\ Quiet /\ pc = [c \in Clients |-> "idle"])
                           => \E i \in 1..Len(notices[q]) : notices[q][i][1] = "exit" /\ notices[q][i][2] = p
View == <<byPid, byName, mbox, phase, links, mons, snap, handled, notices, pc, tmp, nops, nextMsg, nextRef>>
=============================================================================
