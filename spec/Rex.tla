-------------------------------- MODULE Rex --------------------------------
(***************************************************************************)
(* Beyond the listed properties (DESIGN 10.7, X07): what a remote call     *)
(* looks like on the wire and what its answer is taken for.                *)
(*                                                                         *)
(* Node::rpc_call speaks the classic rex protocol: the request is          *)
(*     REG_SEND {6, From, '', rex}  with message                           *)
(*     {From, {call, Module, Function, Args, user}}                        *)
(* where From is a fresh process identifier of the calling node and Args a *)
(* proper list; the answer is a message {rex, Result} addressed to From.   *)
(* rpc_call returns Result for {rex, Result} and a conversion error for    *)
(* any other answer; rpc_call_raw returns the answer as it came.  The      *)
(* erlang_* helpers of erlang_mod_fns.rs are calls to module erlang with   *)
(* the argument lists below.  (C17 decides who gets which answer; this     *)
(* module is about shapes only.)                                           *)
(***************************************************************************)
EXTENDS Etf
A(s) == VAtom(s)
ARex == A(<<114, 101, 120>>)
ACall == A(<<99, 97, 108, 108>>)
AUser == A(<<117, 115, 101, 114>>)
AErlang == A(<<101, 114, 108, 97, 110, 103>>)
AOk == A(<<111, 107>>)
RexControl(from) == VTuple(<<SmallInt(6), from, A(<<>>), ARex>>)
RexRequest(from, m, f, args) == VTuple(<<from, VTuple(<<ACall, m, f, MkList(args, VNil), AUser>>)>>)
\* the calls: [api, names as byte strings, the argument terms]
Txt(name) == CASE name = "lists" -> <<108, 105, 115, 116, 115>> [] name = "reverse" -> <<114, 101, 118, 101, 114, 115, 101>>
               [] name = "erlang" -> <<101, 114, 108, 97, 110, 103>> [] name = "m" -> <<109>> [] name = "f" -> <<102>> [] name = "é" -> <<195, 169>>
               [] name = "system_info" -> <<115, 121, 115, 116, 101, 109, 95, 105, 110, 102, 111>>
               [] name = "statistics" -> <<115, 116, 97, 116, 105, 115, 116, 105, 99, 115>>
               [] name = "memory" -> <<109, 101, 109, 111, 114, 121>>
               [] name = "processes" -> <<112, 114, 111, 99, 101, 115, 115, 101, 115>>
               [] name = "process_info" -> <<112, 114, 111, 99, 101, 115, 115, 95, 105, 110, 102, 111>>
               [] name = "list_to_pid" -> <<108, 105, 115, 116, 95, 116, 111, 95, 112, 105, 100>>
               [] name = "otp_release" -> <<111, 116, 112, 95, 114, 101, 108, 101, 97, 115, 101>>
               [] name = "reductions" -> <<114, 101, 100, 117, 99, 116, 105, 111, 110, 115>>
               [] name = "status" -> <<115, 116, 97, 116, 117, 115>>
               [] OTHER -> <<120>>
SomePid == VPid(A(<<112, 101, 101, 114, 64, 49, 50, 55, 46, 48, 46, 48, 46, 49>>), <<0, 0, 0, 9>>, <<0, 0, 0, 0>>, <<0, 0, 0, 1>>, <<>>)
ArgLists == { <<>>, <<AOk>>, <<SmallInt(1), VBin(<<0, 255>>)>>, <<MkList(<<SmallInt(3), SmallInt(2), SmallInt(1)>>, VNil)>>, <<VNil>>, <<VTuple(<<>>), VNil, SomePid>>,
              <<MkList(<<SmallInt(104), SmallInt(105)>>, VNil)>> }
RawCalls == { [api |-> "raw", m |-> m, f |-> f, args |-> as] : m \in {"lists", "m", "é"}, f \in {"reverse", "f"}, as \in ArgLists }
\* item arguments as texts for the harness; PidText is the text handed to list_to_pid (a charlist on the wire)
PidText == <<60, 48, 46, 57, 46, 48, 62>>
HelperCalls ==
  { [api |-> "system_info", m |-> "erlang", f |-> "system_info", args |-> <<A(Txt(i))>>, items |-> <<Txt(i)>>] : i \in {"otp_release", "é"} }
  \cup { [api |-> "statistics", m |-> "erlang", f |-> "statistics", args |-> <<A(Txt(i))>>, items |-> <<Txt(i)>>] : i \in {"reductions"} }
  \cup { [api |-> "memory", m |-> "erlang", f |-> "memory", args |-> <<>>, items |-> <<>>], [api |-> "processes", m |-> "erlang", f |-> "processes", args |-> <<>>, items |-> <<>>] }
  \cup { [api |-> "process_info", m |-> "erlang", f |-> "process_info", args |-> <<SomePid, MkList([k \in 1..Len(is) |-> A(Txt(is[k]))], VNil)>>, items |-> [k \in 1..Len(is) |-> Txt(is[k])]] : is \in {<<>>, <<"status">>, <<"status", "memory">>} }
  \cup { [api |-> "list_to_pid", m |-> "erlang", f |-> "list_to_pid", args |-> <<MkList([k \in 1..Len(PidText) |-> SmallInt(PidText[k])], VNil)>>, items |-> <<PidText>>] }
\* what the request must be, From left out (it is whatever fresh identifier the node chose; the control message and the message carry the same one)
Expected(c) == VTuple(<<ACall, A(Txt(c.m)), A(Txt(c.f)), MkList(c.args, VNil), AUser>>)
\* answers of the peer and what the two entry points make of them
Results == { AOk, SmallInt(7), VNil, MkList(<<SmallInt(1), SmallInt(2)>>, VNil), VTuple(<<A(<<98, 97, 100, 114, 112, 99>>), A(<<110, 111, 100, 101, 100, 111, 119, 110>>)>>), VTuple(<<ARex, AOk>>), VBin(<<>>) }
Answers == { [term |-> VTuple(<<ARex, r>>), unwrapped |-> TRUE, result |-> r] : r \in Results }
           \cup { [term |-> t, unwrapped |-> FALSE, result |-> t] : t \in { AOk, VTuple(<<AOk, SmallInt(1)>>), VTuple(<<ARex>>), VTuple(<<ARex, AOk, AOk>>), VTuple(<<VBin(<<114, 101, 120>>), AOk>>), VNil,
                                                                           MkList(<<ARex, AOk>>, VNil) } }
=============================================================================
