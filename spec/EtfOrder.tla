----------------------------- MODULE EtfOrder -----------------------------
(***************************************************************************)
(* Erlang's standard term order on the abstract values of Etf.tla,         *)
(* written from Erlang's rules (reference manual, "Term Comparisons"),     *)
(* independently of the Rust code.                                         *)
(*                                                                         *)
(*   Cmp(a, b) \in {-1, 0, 1, 2}                                           *)
(*     -1 / 0 / 1 : a < b, a == b, a > b                                   *)
(*     2          : a /= b but Erlang's rules (as far as property C12      *)
(*                  states them) do not fix the direction: two distinct    *)
(*                  identifiers or funs of the same kind.  The real order  *)
(*                  may answer Less or Greater there, never Equal.         *)
(*                                                                         *)
(* Numbers are compared EXACTLY by mathematical value across integer and   *)
(* float: a float is decomposed into sign, exponent and 53-bit significand *)
(* and compared with the integer's digit string by shifting -- no          *)
(* rounding anywhere (TLC has no floating point, and must not need any).   *)
(***************************************************************************)
EXTENDS Etf

Sgn(x) == IF x < 0 THEN -1 ELSE IF x > 0 THEN 1 ELSE 0
Neg(c) == IF c = 2 THEN 2 ELSE 0 - c

\* ------------------------------------------------------------------ type rank
Rank(v) ==
  CASE v.k \in {"int", "float"} -> 0
    [] v.k = "atom"   -> 1
    [] v.k = "ref"    -> 2
    [] v.k \in {"fun", "export"} -> 3
    [] v.k = "port"   -> 4
    [] v.k = "pid"    -> 5
    [] v.k = "tuple"  -> 6
    [] v.k = "map"    -> 7
    [] v.k = "nil"    -> 8
    [] v.k = "list"   -> 9
    [] v.k \in {"bin", "bits"} -> 10

\* ------------------------------------------------------------------ sequences of small numbers
\* lexicographic comparison; a proper prefix is smaller
RECURSIVE LexCmp(_, _)
LexCmp(a, b) == IF a = <<>> THEN (IF b = <<>> THEN 0 ELSE -1) ELSE IF b = <<>> THEN 1
                ELSE IF a[1] # b[1] THEN Sgn(a[1] - b[1]) ELSE LexCmp(Tail(a), Tail(b))
\* magnitudes as minimal little-endian digit strings: longer is larger, then most significant digit first
MagCmp(a, b) == IF Len(a) # Len(b) THEN Sgn(Len(a) - Len(b)) ELSE LexCmp(Rev(a), Rev(b))

\* ------------------------------------------------------------------ bits
ByteBits(x) == [i \in 1..8 |-> (x \div (2 ^ (8 - i))) % 2]            \* most significant bit first
BitsOfBytes(bs) == Concat([i \in 1..Len(bs) |-> ByteBits(bs[i])])      \* big-endian bit string
\* little-endian bit string -> minimal little-endian base-256 digits
LeBitsToMag(bits) ==
  LET n == (Len(bits) + 7) \div 8
      digit(j) == LET lo == (8 * (j - 1)) + 1 IN
                  FoldLeft(LAMBDA acc, i : acc + (IF lo + i <= Len(bits) THEN bits[lo + i] * (2 ^ i) ELSE 0), 0, [i \in 1..8 |-> i - 1])
  IN TrimHi([j \in 1..n |-> digit(j)])

\* ------------------------------------------------------------------ floats, exactly
FSign(f)  == f.bits[1] \div 128
FExp(f)   == ((f.bits[1] % 128) * 16) + (f.bits[2] \div 16)                       \* 11-bit biased exponent
FFracBits(f) == SubSeq(BitsOfBytes(f.bits), 13, 64)                                 \* 52 bits, most significant first
\* significand M as little-endian bits (53 bits for normal numbers) and exponent E with |f| = M * 2^E
FSigLe(f) == Rev((IF FExp(f) = 0 THEN <<0>> ELSE <<1>>) \o FFracBits(f))
FE(f)     == IF FExp(f) = 0 THEN 0 - 1074 ELSE FExp(f) - 1075
FIsZero(f) == FExp(f) = 0 /\ \A i \in 1..52 : FFracBits(f)[i] = 0
\* floor(|f|) as magnitude digits, and whether |f| has a fractional part
FFloorMag(f) == LET e == FE(f)  m == FSigLe(f) IN
                IF e >= 0 THEN LeBitsToMag([i \in 1..e |-> 0] \o m)
                ELSE IF 0 - e >= Len(m) THEN <<>> ELSE LeBitsToMag(SubSeq(m, 1 - e, Len(m)))
FHasFrac(f) == LET e == FE(f)  m == FSigLe(f) IN
               e < 0 /\ \E i \in 1..(IF 0 - e > Len(m) THEN Len(m) ELSE 0 - e) : m[i] = 1
\* |i| versus |f|
AbsIntFloatCmp(mag, f) == LET c == MagCmp(mag, FFloorMag(f)) IN IF c # 0 THEN c ELSE IF FHasFrac(f) THEN -1 ELSE 0
IntSign(i) == IF i.mag = <<>> THEN 0 ELSE IF i.neg THEN -1 ELSE 1
FloatSign(f) == IF FIsZero(f) THEN 0 ELSE IF FSign(f) = 1 THEN -1 ELSE 1
IntIntCmp(a, b) == IF IntSign(a) # IntSign(b) THEN Sgn(IntSign(a) - IntSign(b))
                   ELSE IF IntSign(a) >= 0 THEN MagCmp(a.mag, b.mag) ELSE MagCmp(b.mag, a.mag)
IntFloatCmp(i, f) == IF IntSign(i) # FloatSign(f) THEN Sgn(IntSign(i) - FloatSign(f))
                     ELSE IF IntSign(i) = 0 THEN 0
                     ELSE IF IntSign(i) > 0 THEN AbsIntFloatCmp(i.mag, f) ELSE 0 - AbsIntFloatCmp(i.mag, f)
\* same-sign floats compare like their bit patterns (sign-magnitude)
FloatFloatCmp(a, b) == IF FloatSign(a) # FloatSign(b) THEN Sgn(FloatSign(a) - FloatSign(b))
                       ELSE IF FloatSign(a) = 0 THEN 0
                       ELSE LET c == LexCmp(Tail(BitsOfBytes(a.bits)), Tail(BitsOfBytes(b.bits))) IN IF FloatSign(a) > 0 THEN c ELSE 0 - c
NumCmp(a, b) ==
  CASE a.k = "int" /\ b.k = "int"     -> IntIntCmp(a, b)
    [] a.k = "int" /\ b.k = "float"   -> IntFloatCmp(a, b)
    [] a.k = "float" /\ b.k = "int"   -> 0 - IntFloatCmp(b, a)
    [] a.k = "float" /\ b.k = "float" -> FloatFloatCmp(a, b)

\* ------------------------------------------------------------------ bit strings
BitString(v) == IF v.k = "bin" THEN BitsOfBytes(v.b)
                ELSE BitsOfBytes(SubSeq(v.b, 1, Len(v.b) - 1)) \o SubSeq(ByteBits(v.b[Len(v.b)]), 1, v.n)

\* ------------------------------------------------------------------ the order
RECURSIVE Cmp(_, _), KeyCmp(_, _)
\* first non-zero result of comparing two equally long sequences element-wise with op
SeqCmpWith(op(_, _), a, b) ==
  FoldLeft(LAMBDA acc, i : IF acc # 0 THEN acc ELSE op(a[i], b[i]), 0, [i \in 1..Len(a) |-> i])
IdFieldsEq(a, b) ==
  CASE a.k = "pid"  -> a.node = b.node /\ a.id = b.id /\ a.serial = b.serial /\ a.creation = b.creation
    [] a.k = "port" -> a.node = b.node /\ a.id = b.id /\ a.creation = b.creation
    [] a.k = "ref"  -> a.node = b.node /\ a.creation = b.creation /\ a.words = b.words
ListCmp(a, b) == \* both "list": element-wise, then the rests (a rest is a shorter list or the tail term)
  LET n == IF Len(a.e) < Len(b.e) THEN Len(a.e) ELSE Len(b.e)
      c == SeqCmpWith(Cmp, SubSeq(a.e, 1, n), SubSeq(b.e, 1, n))
      rest(l) == IF Len(l.e) > n THEN VList(SubSeq(l.e, n + 1, Len(l.e)), l.t) ELSE l.t
  IN IF c # 0 THEN c ELSE IF Len(a.e) = n /\ Len(b.e) = n THEN Cmp(a.t, b.t) ELSE Cmp(rest(a), rest(b))
\* map keys are ordered by the term order, except that an integer sorts before a float it equals
KeyCmp(a, b) ==
  IF Rank(a) = 0 /\ Rank(b) = 0
  THEN LET c == NumCmp(a, b) IN IF c # 0 THEN c ELSE IF a.k = b.k THEN 0 ELSE IF a.k = "int" THEN -1 ELSE 1
  ELSE IF a.k = "tuple" /\ b.k = "tuple" THEN (IF Len(a.e) # Len(b.e) THEN Sgn(Len(a.e) - Len(b.e)) ELSE SeqCmpWith(KeyCmp, a.e, b.e))
  ELSE Cmp(a, b)
SortedKv(m) == SortSeq(m.kv, LAMBDA x, y : KeyCmp(x[1], y[1]) = -1)
MapCmp(a, b) ==
  IF Len(a.kv) # Len(b.kv) THEN Sgn(Len(a.kv) - Len(b.kv)) ELSE
  LET ka == SortedKv(a)  kb == SortedKv(b)
      ck == SeqCmpWith(KeyCmp, [i \in 1..Len(ka) |-> ka[i][1]], [i \in 1..Len(kb) |-> kb[i][1]])
  IN IF ck # 0 THEN ck ELSE SeqCmpWith(Cmp, [i \in 1..Len(ka) |-> ka[i][2]], [i \in 1..Len(kb) |-> kb[i][2]])
FunEq(a, b) ==
  IF a.k # b.k THEN FALSE
  ELSE IF a.k = "export" THEN a.m = b.m /\ a.f = b.f /\ a.a = b.a
  ELSE /\ a.m = b.m /\ a.oi = b.oi /\ a.ou = b.ou /\ a.index = b.index /\ a.uniq = b.uniq
       /\ IdFieldsEq(a.pid, b.pid) /\ Len(a.free) = Len(b.free) /\ SeqCmpWith(Cmp, a.free, b.free) = 0
Cmp(a, b) ==
  IF Rank(a) # Rank(b) THEN Sgn(Rank(a) - Rank(b)) ELSE
  CASE Rank(a) = 0  -> NumCmp(a, b)
    [] a.k = "atom" -> LexCmp(a.b, b.b)
    [] a.k \in {"pid", "port", "ref"} -> IF IdFieldsEq(a, b) THEN 0 ELSE 2
    [] Rank(a) = 3  -> IF FunEq(a, b) THEN 0 ELSE 2
    [] a.k = "tuple" -> IF Len(a.e) # Len(b.e) THEN Sgn(Len(a.e) - Len(b.e)) ELSE SeqCmpWith(Cmp, a.e, b.e)
    [] a.k = "map"  -> MapCmp(a, b)
    [] a.k = "nil"  -> 0
    [] a.k = "list" -> ListCmp(a, b)
    [] Rank(a) = 10 -> LexCmp(BitString(a), BitString(b))
\* Erlang's == on values
ErlEq(a, b) == Cmp(a, b) = 0

\* ------------------------------------------------------------------ laws (C11) over an observed relation
\* C: matrix of observed comparisons (-1, 0, 1), E: matrix of observed ==, H: sequence of observed hashes
AntisymViolations(C) == { <<i, j>> \in (1..Len(C)) \X (1..Len(C)) : C[i][j] # 0 - C[j][i] }
TransViolations(C) == { t \in (1..Len(C)) \X (1..Len(C)) \X (1..Len(C)) :
                           C[t[1]][t[2]] <= 0 /\ C[t[2]][t[3]] <= 0 /\ C[t[1]][t[3]] > 0 }
EqCmpViolations(C, E) == { <<i, j>> \in (1..Len(C)) \X (1..Len(C)) : E[i][j] /\ C[i][j] # 0 }
EqHashViolations(E, H) == { <<i, j>> \in (1..Len(H)) \X (1..Len(H)) : E[i][j] /\ H[i] # H[j] }
=============================================================================
