------------------------------ MODULE PidAlloc ------------------------------
(***************************************************************************)
(* Identifier allocation of a node (property C16).                         *)
(*                                                                         *)
(* PidAllocator::allocate as coded, one action per atomic step:            *)
(*   Call -> Acquire (mutex) -> LoadId -> LoadSer ->                       *)
(*        StoreOne -> FetchAdd        (id at the wrap point)               *)
(*      | StoreNext                   (otherwise)                          *)
(*   -> Return (releases the mutex)                                        *)
(* Node::make_reference: three fetch-adds on one counter (unlink ids draw  *)
(* from the same counter: DrawId).                                         *)
(*                                                                         *)
(* LockEnforced = FALSE is the weakened spec whose counterexamples are the *)
(* adversarial schedules replayed on the real allocator.                   *)
(***************************************************************************)
EXTENDS Integers, Sequences, FiniteSets, TLC
CONSTANTS Threads, MaxId, SerialMod, NAlloc, StartId, StartSerial, LockEnforced,
          RefThreads, NRef, StartCtr,
          Creations,         \* creation values the environment may put in force (PidAllocator::set_creation; they recur: EPMD hands out 1, 2, 3, 1, ...)
          MaxSet,            \* bound on the number of set_creation calls
          GivesBackOnFailure, \* deviation (FALSE in the code): an operation that made a reference and then fails (Node::monitor on a connection that
                              \* is not connected) moves the counter back by the three words it drew
          CreationRewinds    \* deviation (FALSE in the code): set_creation also restarts the numbering at <<1, 0>>
VARIABLES nextId, nextSerial, creation, lock, pc, lid, lser, left, issued,
          ctr, rpc, rwords, rleft, rissued,
          nset,       \* set_creation calls so far
          epoch,      \* ghost: Len(issued) at the last set_creation (identifiers after that index were made under the creation now in force)
          origin      \* ghost: the position <<id, serial>> the allocator was at when observation began;
                      \* everything before that position (in issue order) counts as already issued
pvars == <<nextId, nextSerial, creation, lock, pc, lid, lser, left, issued>>
rvars == <<ctr, rpc, rwords, rleft, rissued>>
vars == <<pvars, rvars, origin, nset, epoch>>
None == 0     \* thread identities are model values or positive integers
Init == /\ nextId = StartId /\ nextSerial = StartSerial /\ creation = 1 /\ lock = None
        /\ pc = [t \in Threads |-> "idle"] /\ lid = [t \in Threads |-> 0] /\ lser = [t \in Threads |-> 0]
        /\ left = [t \in Threads |-> NAlloc] /\ issued = <<>>
        /\ ctr = StartCtr /\ rpc = [t \in RefThreads |-> 0] /\ rwords = [t \in RefThreads |-> <<>>]
        /\ rleft = [t \in RefThreads |-> NRef] /\ rissued = <<>>
        /\ origin = <<StartId, StartSerial>> /\ nset = 0 /\ epoch = 0
Go(t, from, to) == pc[t] = from /\ pc' = [pc EXCEPT ![t] = to]
Call(t)    == Go(t, "idle", "probe") /\ left[t] > 0 /\ left' = [left EXCEPT ![t] = @ - 1]
              /\ UNCHANGED <<nextId, nextSerial, creation, lock, lid, lser, issued, rvars>>
Acquire(t) == Go(t, "probe", "locked") /\ (lock = None \/ ~LockEnforced)
              /\ lock' = (IF LockEnforced THEN t ELSE lock)
              /\ UNCHANGED <<nextId, nextSerial, creation, lid, lser, left, issued, rvars>>
LoadId(t)  == Go(t, "locked", "loaded_id") /\ lid' = [lid EXCEPT ![t] = nextId]
              /\ UNCHANGED <<nextId, nextSerial, creation, lock, lser, left, issued, rvars>>
LoadSer(t) == Go(t, "loaded_id", "loaded_ser") /\ lser' = [lser EXCEPT ![t] = nextSerial % SerialMod]
              /\ UNCHANGED <<nextId, nextSerial, creation, lock, lid, left, issued, rvars>>
StoreOne(t) == Go(t, "loaded_ser", "stored_one") /\ lid[t] >= MaxId /\ nextId' = 1
              /\ UNCHANGED <<nextSerial, creation, lock, lid, lser, left, issued, rvars>>
FetchAdd(t) == Go(t, "stored_one", "ret") /\ nextSerial' = nextSerial + 1 /\ lser' = [lser EXCEPT ![t] = (nextSerial + 1) % SerialMod]
              /\ UNCHANGED <<nextId, creation, lock, lid, left, issued, rvars>>
StoreNext(t) == Go(t, "loaded_ser", "ret") /\ lid[t] < MaxId /\ nextId' = lid[t] + 1
              /\ UNCHANGED <<nextSerial, creation, lock, lid, lser, left, issued, rvars>>
Return(t)  == Go(t, "ret", "idle") /\ issued' = Append(issued, <<lid[t], lser[t], creation>>)
              /\ lock' = (IF lock = t THEN None ELSE lock)
              /\ UNCHANGED <<nextId, nextSerial, creation, lid, lser, left, rvars>>
\* the environment changes the creation (Node::start, a new EPMD registration) only while no allocation is in progress
\* (the documented precondition of set_creation); the value may be one that was in force before.  The counters are
\* not touched: numbering goes on, which is what keeps identifiers of a recurring creation apart.
SetCreation(c) == /\ (\A t \in Threads : pc[t] = "idle") /\ nset < MaxSet /\ nset' = nset + 1
                  /\ creation' = c /\ epoch' = Len(issued)
                  /\ IF CreationRewinds THEN nextId' = 1 /\ nextSerial' = 0 ELSE UNCHANGED <<nextId, nextSerial>>
                  /\ origin' = <<nextId', nextSerial'>>
                  /\ UNCHANGED <<lock, pc, lid, lser, left, issued, rvars>>
\* ---- references
RefWord(t) == /\ rpc[t] < 3 /\ (rpc[t] > 0 \/ rleft[t] > 0)
              /\ rwords' = [rwords EXCEPT ![t] = Append(@, ctr)] /\ ctr' = ctr + 1
              /\ rpc' = [rpc EXCEPT ![t] = @ + 1]
              /\ rleft' = IF rpc[t] = 0 THEN [rleft EXCEPT ![t] = @ - 1] ELSE rleft
              /\ UNCHANGED <<rissued, pvars>>
\* the reference was made for an operation that fails afterwards: nobody keeps it, and (deviation) its words are handed back
RefFail(t) == /\ GivesBackOnFailure /\ rpc[t] = 3 /\ ctr' = ctr - 3
              /\ rpc' = [rpc EXCEPT ![t] = 0] /\ rwords' = [rwords EXCEPT ![t] = <<>>]
              /\ UNCHANGED <<rissued, rleft, pvars>>
RefReturn(t) == /\ rpc[t] = 3 /\ rissued' = Append(rissued, rwords[t])
                /\ rpc' = [rpc EXCEPT ![t] = 0] /\ rwords' = [rwords EXCEPT ![t] = <<>>]
                /\ UNCHANGED <<ctr, rleft, pvars>>
PStep(t) == Call(t) \/ Acquire(t) \/ LoadId(t) \/ LoadSer(t) \/ StoreOne(t) \/ FetchAdd(t) \/ StoreNext(t) \/ Return(t)
PNext == (\E t \in Threads : PStep(t)) /\ UNCHANGED <<origin, nset, epoch>>
RNext == (\E t \in RefThreads : RefWord(t) \/ RefReturn(t) \/ RefFail(t)) /\ UNCHANGED <<origin, nset, epoch>>
Next == PNext \/ RNext \/ (\E c \in Creations : SetCreation(c))
Spec == Init /\ [][Next]_vars
\* ---- C16
Unique == \A i, j \in 1..Len(issued) : i # j => issued[i] # issued[j]
Bounded == Len(issued) < MaxId * SerialMod      \* the id/serial space itself repeats after that many
UniqueWhileBounded == Bounded => Unique
\* every identifier carries the creation in force when it was made (checked on the identifiers of the current epoch;
\* those of earlier epochs were checked when they were current)
CreationInForce == \A i \in (epoch + 1)..Len(issued) : issued[i][3] = creation
RefUnique == \A i, j \in 1..Len(rissued) : i # j => rissued[i] # rissued[j]
\* An identifier issued now is not one that was issued before observation began: with the allocator having
\* reached <<origin id, origin serial>> from <<1, 0>>, every <<id, serial>> before that position is taken.
\* (d = number of id-space wraps between the origin and the issue; exact while fewer than SerialMod wraps happened)
NoReissue == (nextSerial - origin[2] < SerialMod) =>
             \A i \in (epoch + 1)..Len(issued) : LET d == (issued[i][2] - origin[2]) % SerialMod IN d > 0 \/ issued[i][1] >= origin[1]
\* The sequence the allocator issues (closed form of the sequential behaviour): numbers run 1..MaxId round and round;
\* a number below MaxId carries the count of wraps so far, MaxId itself (the wrapping allocation) already the next count.
\* k = 0, 1, 2, ... counted from the origin.
SeqIssue(k) == LET pos == (origin[1] - 1) + k
                   id == (pos % MaxId) + 1
                   cyc == pos \div MaxId
               IN <<id, (origin[2] + cyc + (IF id = MaxId THEN 1 ELSE 0)) % SerialMod>>
\* whenever no allocation is in flight, what has been issued is exactly the first n members of that sequence (in some order)
AllIdle == \A t \in Threads : pc[t] = "idle"
\* (per epoch: the origin is re-anchored at every set_creation, so this speaks about the identifiers made since)
IssuedIsSequence == AllIdle => \A k \in 0..(Len(issued) - epoch - 1) : \E i \in (epoch + 1)..Len(issued) : <<issued[i][1], issued[i][2]>> = SeqIssue(k)
\* references: whenever no reference is being made, the words handed out are exactly the counter values StartCtr .. ctr - 1,
\* each once (so references are pairwise distinct, and distinct from the unlink ids drawn from the same counter)
RefsIdle == \A t \in RefThreads : rpc[t] = 0
RefWords == UNION {{rissued[i][j] : j \in 1..Len(rissued[i])} : i \in 1..Len(rissued)}
RefWordsAreCounter == RefsIdle => (RefWords = StartCtr..(ctr - 1) /\ ctr - StartCtr = 3 * Len(rissued))
SerialAdvancesOnWrap == \A i \in 1..Len(issued) : \A j \in 1..Len(issued) : (i < j /\ issued[i][1] = issued[j][1]) => issued[i][2] # issued[j][2]
=============================================================================
