----------------------------- MODULE Connection -----------------------------
(***************************************************************************)
(* Send path of a connection shared by several tasks (property C07).       *)
(*                                                                         *)
(* Each send-side operation becomes one frame.  In pass-through mode the   *)
(* frame leaves in four writes (length, marker, control, message); a task  *)
(* may be descheduled between any two of them.  The per-connection lock is *)
(* taken before the first write and released after the flush.              *)
(*   FrameLockHeld = FALSE is the weakened spec (adversarial schedules).   *)
(* A write hands a buffer to the kernel, which may take only part of it    *)
(* (socket buffer full: big frames, slow reader); the writer has to go on  *)
(* until everything is out.  WritesWhole = FALSE is the weakened spec in   *)
(* which an operation may return after a short write.                      *)
(*                                                                         *)
(* The wire is a sequence of tokens <<task, k, part>>; a frame is intact   *)
(* when its parts 1..Parts(k) are adjacent and in order.                   *)
(***************************************************************************)
EXTENDS Integers, Sequences, FiniteSets, TLC
CONSTANTS Tasks, NOps, PartsOf, FrameLockHeld, Connected, WritesWhole
VARIABLES lock, pc, k, wire, hist
vars == <<lock, pc, k, wire, hist>>
None == 0
Init == /\ lock = None /\ pc = [t \in Tasks |-> 0] /\ k = [t \in Tasks |-> 1] /\ wire = <<>> /\ hist = <<>>
\* pc: 0 = idle, -1 = holds the lock before the first write, i in 1..Parts = i parts written
Parts(t) == PartsOf[((t + k[t]) % Len(PartsOf)) + 1]
Begin(t) == /\ pc[t] = 0 /\ k[t] <= NOps /\ Connected
            /\ (lock = None \/ ~FrameLockHeld) /\ lock' = (IF FrameLockHeld THEN t ELSE lock)
            /\ pc' = [pc EXCEPT ![t] = -1] /\ hist' = Append(hist, t) /\ UNCHANGED <<k, wire>>
\* before the handshake completes an operation fails without writing
Refuse(t) == /\ pc[t] = 0 /\ k[t] <= NOps /\ ~Connected
             /\ k' = [k EXCEPT ![t] = @ + 1] /\ hist' = Append(hist, t) /\ UNCHANGED <<lock, pc, wire>>
Write(t) == /\ pc[t] # 0 /\ (IF pc[t] = -1 THEN 0 ELSE pc[t]) < Parts(t)
            /\ LET i == (IF pc[t] = -1 THEN 0 ELSE pc[t]) + 1 IN
               /\ wire' = Append(wire, <<t, k[t], i>>) /\ pc' = [pc EXCEPT ![t] = i]
            /\ hist' = Append(hist, t) /\ UNCHANGED <<lock, k>>
End(t) == /\ pc[t] = Parts(t) /\ pc' = [pc EXCEPT ![t] = 0] /\ k' = [k EXCEPT ![t] = @ + 1]
          /\ lock' = (IF lock = t THEN None ELSE lock) /\ hist' = Append(hist, t) /\ UNCHANGED wire
\* weakened: the operation returns although only the first parts of its frame went out
ShortWrite(t) == /\ ~WritesWhole /\ pc[t] >= 1 /\ pc[t] < Parts(t) /\ pc' = [pc EXCEPT ![t] = 0] /\ k' = [k EXCEPT ![t] = @ + 1]
                 /\ lock' = (IF lock = t THEN None ELSE lock) /\ hist' = Append(hist, t) /\ UNCHANGED wire
Next == \E t \in Tasks : Begin(t) \/ Refuse(t) \/ Write(t) \/ End(t) \/ ShortWrite(t)
Spec == Init /\ [][Next]_vars
\* ---- C07
\* every part on the wire continues the frame of the part before it, or starts a new frame after a finished one
FramesIntact == \A i \in 1..Len(wire) :
                  IF wire[i][3] = 1 THEN (i = 1 \/ wire[i - 1][3] = PartsOf[((wire[i - 1][1] + wire[i - 1][2]) % Len(PartsOf)) + 1])
                  ELSE i > 1 /\ wire[i - 1][1] = wire[i][1] /\ wire[i - 1][2] = wire[i][2] /\ wire[i - 1][3] = wire[i][3] - 1
\* per task, frames appear in the order of issue
OrderPerTask == \A i, j \in 1..Len(wire) : (i < j /\ wire[i][1] = wire[j][1]) => wire[i][2] <= wire[j][2]
NoWriteBeforeConnected == (~Connected) => wire = <<>>
View == <<lock, pc, k, wire>>
=============================================================================
