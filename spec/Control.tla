------------------------------ MODULE Control ------------------------------
(***************************************************************************)
(* Control messages of the Erlang distribution protocol (DESIGN.md app.    *)
(* C.3): the protocol's table (tag, field order, carries-a-payload), the   *)
(* abstract parser / serialiser of property C08, and the universe of       *)
(* control tuples used to bind it to edp_client::control.                   *)
(***************************************************************************)
EXTENDS Etf

Op(name, tag, fields, payload) == [name |-> name, tag |-> tag, fields |-> fields, payload |-> payload]
Ops == {
  Op("LINK", 1, <<"FromPid", "ToPid">>, FALSE),
  Op("SEND", 2, <<"Unused", "ToPid">>, TRUE),
  Op("EXIT", 3, <<"FromPid", "ToPid", "Reason">>, FALSE),
  Op("UNLINK", 4, <<"FromPid", "ToPid">>, FALSE),
  Op("NODE_LINK", 5, <<>>, FALSE),
  Op("REG_SEND", 6, <<"FromPid", "Unused", "ToName">>, TRUE),
  Op("GROUP_LEADER", 7, <<"FromPid", "ToPid">>, FALSE),
  Op("EXIT2", 8, <<"FromPid", "ToPid", "Reason">>, FALSE),
  Op("SEND_TT", 12, <<"Unused", "ToPid", "TraceToken">>, TRUE),
  Op("EXIT_TT", 13, <<"FromPid", "ToPid", "TraceToken", "Reason">>, FALSE),
  Op("REG_SEND_TT", 16, <<"FromPid", "Unused", "ToName", "TraceToken">>, TRUE),
  Op("EXIT2_TT", 18, <<"FromPid", "ToPid", "TraceToken", "Reason">>, FALSE),
  Op("MONITOR_P", 19, <<"FromPid", "ToProc", "Ref">>, FALSE),
  Op("DEMONITOR_P", 20, <<"FromPid", "ToProc", "Ref">>, FALSE),
  Op("MONITOR_P_EXIT", 21, <<"FromProc", "ToPid", "Ref", "Reason">>, FALSE),
  Op("SEND_SENDER", 22, <<"FromPid", "ToPid">>, TRUE),
  Op("SEND_SENDER_TT", 23, <<"FromPid", "ToPid", "TraceToken">>, TRUE),
  Op("PAYLOAD_EXIT", 24, <<"FromPid", "ToPid">>, TRUE),
  Op("PAYLOAD_EXIT_TT", 25, <<"FromPid", "ToPid", "TraceToken">>, TRUE),
  Op("PAYLOAD_EXIT2", 26, <<"FromPid", "ToPid">>, TRUE),
  Op("PAYLOAD_EXIT2_TT", 27, <<"FromPid", "ToPid", "TraceToken">>, TRUE),
  Op("PAYLOAD_MONITOR_P_EXIT", 28, <<"FromProc", "ToPid", "Ref">>, TRUE),
  Op("SPAWN_REQUEST", 29, <<"ReqId", "From", "GroupLeader", "MFA", "OptList">>, TRUE),
  Op("SPAWN_REQUEST_TT", 30, <<"ReqId", "From", "GroupLeader", "MFA", "OptList", "TraceToken">>, TRUE),
  Op("SPAWN_REPLY", 31, <<"ReqId", "To", "Flags", "Result">>, FALSE),
  Op("SPAWN_REPLY_TT", 32, <<"ReqId", "To", "Flags", "Result", "TraceToken">>, FALSE),
  Op("ALIAS_SEND", 33, <<"FromPid", "Alias">>, TRUE),
  Op("ALIAS_SEND_TT", 34, <<"FromPid", "Alias", "TraceToken">>, TRUE),
  Op("UNLINK_ID", 35, <<"Id", "FromPid", "ToPid">>, FALSE),
  Op("UNLINK_ID_ACK", 36, <<"Id", "FromPid", "ToPid">>, FALSE) }
OpByName(n) == CHOOSE o \in Ops : o.name = n
OpByTag(t) == IF \E o \in Ops : o.tag = t THEN CHOOSE o \in Ops : o.tag = t ELSE Op("generic", t, <<>>, FALSE)
Arity(o) == Len(o.fields) + 1

\* the tuple a named operation is written as, with every field a distinct marker atom
StrBytes(s) == s      \* field names are ASCII; the harness maps them to atoms of the same text
TableTuple(o) == [tag |-> o.tag, arity |-> Arity(o), fields |-> o.fields, payload |-> o.payload, name |-> o.name]

\* ---- abstract parser (C08): which tuples parse, and what serialising gives back
SmallTag(v) == v.k = "int" /\ ~v.neg /\ Len(v.mag) <= 1
TagOf(v) == IF v.mag = <<>> THEN 0 ELSE v.mag[1]
IsUnlinkId(v) == v.k = "int" /\ ~v.neg /\ Len(v.mag) <= 8           \* non-negative, below 2^64
Parses(t) ==
  /\ t.k = "tuple" /\ Len(t.e) >= 1 /\ SmallTag(t.e[1])
  /\ (TagOf(t.e[1]) \in {35, 36} /\ Len(t.e) = 4) => IsUnlinkId(t.e[2])
\* Serialise(Parse(t)) = t for every t that parses: nothing dropped, reordered or altered,
\* whether or not the tag is a known one.
RoundTrip(t) == t

\* ---- universe
FillerPool == << VAtom(<<102, 49>>), SmallInt(7), VInt(FALSE, <<0, 0, 0, 128>>), VBin(<<1, 2>>), VNil, VTuple(<<SmallInt(1), VAtom(<<120>>)>>),
                 VList(<<SmallInt(1)>>, VNil), VFloat(<<63, 248, 0, 0, 0, 0, 0, 0>>), VAtom(<<102, 57>>),
                 VPid(VAtom(<<110, 64, 104>>), <<0,0,0,1>>, <<0,0,0,2>>, <<0,0,0,3>>, <<>>),
                 VRef(VAtom(<<110, 64, 104>>), <<0,0,0,2>>, <<<<0,0,0,1>>, <<0,0,0,2>>>>, <<>>), VAtom(<<>>) >>
Filler(tag, i) == FillerPool[((tag + (5 * i)) % Len(FillerPool)) + 1]
AllTagTuples == { VTuple(<<SmallInt(tag)>> \o [i \in 1..(n - 1) |-> Filler(tag, i)]) : tag \in 0..255, n \in 1..10 }
IdValues == { Zero, SmallInt(1), VInt(FALSE, <<255,255,255,127>>), VInt(FALSE, <<0,0,0,128>>), VInt(FALSE, <<255,255,255,255,255,255,255,127>>),
              VInt(FALSE, <<0,0,0,0,0,0,0,128>>), VInt(FALSE, [i \in 1..8 |-> 255]), VInt(FALSE, <<0,0,0,0,0,0,0,0,1>>),
              VInt(TRUE, <<1>>), VInt(TRUE, <<0,0,0,0,0,0,0,128>>), VAtom(<<105, 100>>), VFloat(<<63, 240, 0, 0, 0, 0, 0, 0>>), VBin(<<1>>) }
UnlinkTuples == { VTuple(<<SmallInt(tag), id, Filler(tag, 2), Filler(tag, 3)>>) : tag \in {35, 36}, id \in IdValues }
NonMessages == { VTuple(<<>>), VNil, SmallInt(1), VAtom(<<97>>), VList(<<SmallInt(1), VAtom(<<97>>)>>, VNil), VBin(<<1>>),
                 VTuple(<<VAtom(<<97>>), SmallInt(1)>>), VTuple(<<VInt(FALSE, <<0, 1>>), SmallInt(1)>>), VTuple(<<VInt(TRUE, <<1>>), SmallInt(1)>>),
                 VTuple(<<VFloat(<<63, 240, 0, 0, 0, 0, 0, 0>>)>>), VTuple(<<VTuple(<<SmallInt(1)>>)>>), VTuple(<<VInt(FALSE, <<0,0,0,0,1>>)>>) }
\* heads outside 0..255 whose low byte is the tag of a known operation, with exactly that operation's arity: not control messages
\* (head = tag + 256, tag - 256, tag + 2^16, tag + 2^32 as a big integer)
Lookalike(o, how) ==
  LET n == Len(o.fields)
      head == CASE how = 1 -> VInt(FALSE, <<o.tag, 1>>)                                   \* tag + 256
                [] how = 2 -> VInt(TRUE, <<256 - o.tag, 0>>)                              \* tag - 256 (negative)
                [] how = 3 -> VInt(FALSE, <<o.tag, 0, 1>>)                                \* tag + 2^16
                [] OTHER -> VInt(FALSE, <<o.tag, 0, 0, 0, 1>>)                            \* tag + 2^32
  IN VTuple(<<head>> \o [i \in 1..n |-> Filler(o.tag, i)])
Lookalikes == { Lookalike(o, how) : o \in Ops, how \in 1..4 }
Universe == AllTagTuples \cup UnlinkTuples \cup NonMessages \cup Lookalikes
=============================================================================
