------------------------------ MODULE Framing ------------------------------
(***************************************************************************)
(* Length-prefixed framing of the distribution protocol (property C05).    *)
(*                                                                         *)
(*   Frame(m)   = big-endian length prefix (2 bytes in handshake mode, 4   *)
(*                in distribution mode) followed by m                      *)
(*   transport  = hands the reader the wire in arbitrary chunks, may       *)
(*                answer "pending" between chunks, may close the stream    *)
(*                at any point                                             *)
(*   deframer   = two-phase state machine (length, body) as in             *)
(*                framing.rs::read_framed, which asks for exactly the      *)
(*                bytes it still needs                                     *)
(*                                                                         *)
(* Invariant: the messages returned are a prefix of the messages sent,     *)
(* byte for byte, and all of them once the whole wire has been consumed;   *)
(* a zero-length frame is returned as an empty message; a stream that ends *)
(* inside a frame ends in an error, never in a short message; a declared   *)
(* length above the cap is refused.                                        *)
(***************************************************************************)
EXTENDS Integers, Sequences, FiniteSets, TLC, SequencesExt
CONSTANTS Sent,        \* sequence of messages (each a sequence of bytes)
          Prefix,      \* 2 or 4
          Cap,         \* largest accepted length
          MaxPend,     \* bound on "pending" answers per behaviour
          EofYieldsShort, \* weakening switch (FALSE in the code): end-of-stream inside a body returns what was gathered
          MaxGiveUps,     \* bound on read timeouts per behaviour (the caller of the deframer stops waiting)
          ResumeAfterTimeout  \* deviation (FALSE in the code): after a read timeout the caller goes on reading frames from the same stream
Concat(ss) == FoldLeft(LAMBDA acc, x : acc \o x, <<>>, ss)
BE(n, w) == [i \in 1..w |-> (n \div (256 ^ (w - i))) % 256]
Frame(m) == BE(Len(m), Prefix) \o m
Wire == Concat([i \in 1..Len(Sent) |-> Frame(Sent[i])])
FromBE(bs) == FoldLeft(LAMBDA acc, b : (acc * 256) + b, 0, bs)

VARIABLES consumed,   \* bytes of the wire the reader has taken
          chunk,      \* bytes of the current chunk not yet taken
          closed,     \* the transport has signalled end-of-stream
          phase,      \* "len" | "body" | "err" | "eof" | "timeout"
          acc,        \* bytes gathered in the current phase
          need,       \* bytes still needed in the current phase
          out,        \* messages returned so far
          pends,      \* pending answers so far
          sched       \* the schedule so far (history; what the harness replays)
VARIABLE giveups
vars == <<consumed, chunk, closed, phase, acc, need, out, pends, sched, giveups>>

Init == /\ consumed = 0 /\ chunk = 0 /\ closed = FALSE /\ phase = "len" /\ acc = <<>> /\ need = Prefix
        /\ out = <<>> /\ pends = 0 /\ sched = <<>> /\ giveups = 0
Running == phase \in {"len", "body"}
\* the transport makes k more bytes available
NewChunk(k) == /\ Running /\ chunk = 0 /\ ~closed /\ consumed + k <= Len(Wire)
               /\ chunk' = k /\ sched' = Append(sched, k)
               /\ UNCHANGED <<consumed, closed, phase, acc, need, out, pends>>
\* the reader is polled with nothing available
Pend == /\ Running /\ chunk = 0 /\ ~closed /\ pends < MaxPend
        /\ pends' = pends + 1 /\ sched' = Append(sched, 0)
        /\ UNCHANGED <<consumed, chunk, closed, phase, acc, need, out>>
\* the transport closes the stream
Close == /\ Running /\ chunk = 0 /\ ~closed
         /\ closed' = TRUE /\ sched' = Append(sched, -1)
         /\ phase' = "eof"       \* read_exact reports end-of-stream as an error, whatever had been gathered
         /\ out' = IF EofYieldsShort /\ phase = "body" /\ acc # <<>> THEN Append(out, acc) ELSE out
         /\ UNCHANGED <<consumed, chunk, acc, need, pends>>
\* the reader takes what it needs from the current chunk
Read == /\ Running /\ chunk > 0
        /\ LET n == IF chunk < need THEN chunk ELSE need
               got == acc \o SubSeq(Wire, consumed + 1, consumed + n) IN
           /\ consumed' = consumed + n /\ chunk' = chunk - n
           /\ IF n < need
              THEN /\ acc' = got /\ need' = need - n /\ UNCHANGED <<phase, out>>
              ELSE IF phase = "len"
                   THEN LET l == FromBE(got) IN
                        IF l = 0 THEN /\ out' = Append(out, <<>>) /\ acc' = <<>> /\ need' = Prefix /\ UNCHANGED phase
                        ELSE IF l > Cap THEN /\ phase' = "err" /\ acc' = <<>> /\ need' = 0 /\ UNCHANGED out
                        ELSE /\ phase' = "body" /\ acc' = <<>> /\ need' = l /\ UNCHANGED out
                   ELSE /\ out' = Append(out, got) /\ phase' = "len" /\ acc' = <<>> /\ need' = Prefix
        /\ UNCHANGED <<closed, pends, sched>>
\* the caller's read timeout fires while the deframer waits for more bytes.  The future of read_framed is dropped, and with it
\* whatever it had gathered (read_exact is not cancellation safe): the only sound continuation is to give the stream up, which
\* is what the receiver loop does (it ends and the connection is deregistered).  Going on reading would start a "length" in
\* the middle of a frame.
GiveUp == /\ Running /\ chunk = 0 /\ ~closed /\ giveups < MaxGiveUps /\ giveups' = giveups + 1 /\ sched' = Append(sched, -2)
          /\ IF ResumeAfterTimeout THEN /\ phase' = "len" /\ acc' = <<>> /\ need' = Prefix
                                   ELSE /\ phase' = "timeout" /\ UNCHANGED <<acc, need>>
          /\ UNCHANGED <<consumed, chunk, closed, out, pends>>
Next == (((\E k \in 1..Len(Wire) : NewChunk(k)) \/ Pend \/ Close \/ Read) /\ UNCHANGED giveups) \/ GiveUp
Spec == Init /\ [][Next]_vars

\* ---- C05
OutIsPrefixOfSent == IsPrefix(out, Sent)
AllDeliveredWhenConsumed == (consumed = Len(Wire) /\ chunk = 0 /\ phase = "len" /\ need = Prefix /\ \A i \in 1..Len(Sent) : Len(Sent[i]) <= Cap) => out = Sent
NoShortMessage == \A i \in 1..Len(out) : out[i] = Sent[i]
OverCapRefused == \A i \in 1..Len(Sent) : (Len(Sent[i]) > Cap /\ \A j \in 1..(i - 1) : Len(Sent[j]) <= Cap) => Len(out) < i
\* observable summary of a finished behaviour (what the harness compares)
Outcome == [out |-> out, state |-> phase, consumed |-> consumed]
View == <<consumed, chunk, closed, phase, acc, need, out, pends, giveups>>
=============================================================================
