---------------------------- MODULE DistHeader ----------------------------
(***************************************************************************)
(* Distribution header and atom cache (DESIGN.md app. C.2).                *)
(*                                                                         *)
(*   HeaderBytes / MsgBytes : writer of a conforming sender                *)
(*   ReadHeader / ReadMsg   : reader of a conforming receiver              *)
(*   Sender / receiver state machine over message histories: the sender    *)
(*   picks, per distinct atom of a message, to reference an existing       *)
(*   cache entry, to create an entry in a free slot or to overwrite one;   *)
(*   the receiver applies the header and resolves ATOM_CACHE_REF k as the  *)
(*   k-th reference OF THIS HEADER.  Invariant (C14): what the receiver    *)
(*   resolves is what the sender meant, for every message of every history.*)
(*                                                                         *)
(* Layout.  131, 68, N, flags, refs.  flags: N/2+1 bytes, absent if N = 0; *)
(* 4-bit field i (0-based) lives in byte i/2, low nibble for even i, high  *)
(* for odd i; bit 3 = NewCacheEntry, bits 0-2 = SegmentIndex.  One more    *)
(* 4-bit field follows the last reference (field number N); its bit 0 is   *)
(* LongAtoms.  Reference = InternalSegmentIndex, and for new entries       *)
(* Length (1 byte, or 2 if LongAtoms) + AtomText.  Cache slot =            *)
(* SegmentIndex * 256 + InternalSegmentIndex.  The terms follow without a  *)
(* version byte.                                                           *)
(***************************************************************************)
EXTENDS Etf
CONSTANT ReaderIgnoresSegment   \* weakening switch (FALSE = conforming reader): the cache is keyed by the internal index alone

\* a reference: [seg |-> 0..7, idx |-> 0..255, new |-> BOOLEAN, atom |-> utf-8 bytes]
Slot(r) == (r.seg * 256) + r.idx
NibbleOf(r) == (IF r.new THEN 8 ELSE 0) + r.seg
\* 4-bit fields 0..N (N+1 of them), packed low nibble first
PackNibbles(ns) ==
  [b \in 1..((Len(ns) + 1) \div 2) |->
      ns[(2 * b) - 1] + (IF 2 * b <= Len(ns) THEN 16 * ns[2 * b] ELSE 0)]
HeaderBytes(refs) ==
  LET n == Len(refs)
      long == \E i \in 1..n : refs[i].new /\ Len(refs[i].atom) > 255
      fields == [i \in 1..(n + 1) |-> IF i <= n THEN NibbleOf(refs[i]) ELSE (IF long THEN 1 ELSE 0)]
      refBytes(r) == <<r.idx>> \o (IF r.new THEN (IF long THEN U16(Len(r.atom)) ELSE <<Len(r.atom)>>) \o r.atom ELSE <<>>)
  IN <<131, 68, n>> \o (IF n = 0 THEN <<>> ELSE PackNibbles(fields)) \o Concat([i \in 1..n |-> refBytes(refs[i])])

\* terms with every atom that has a reference in this header written as ATOM_CACHE_REF position
PosOf(atomBytes, refs) == CHOOSE i \in 1..Len(refs) : refs[i].atom = atomBytes
HasRef(atomBytes, refs) == \E i \in 1..Len(refs) : refs[i].atom = atomBytes
RECURSIVE EncA(_, _)
EncA(v, refs) == IF v.k = "atom" /\ HasRef(v.b, refs) THEN <<82, PosOf(v.b, refs) - 1>>
                 ELSE IF IsContainer(v) THEN LET c == Children(v) IN Wrap(v, [i \in 1..Len(c) |-> EncA(c[i], refs)])
                 ELSE EncLeaf(v)
MsgBytes(refs, terms) == HeaderBytes(refs) \o Concat([i \in 1..Len(terms) |-> EncA(terms[i], refs)])

\* ------------------------------------------------------------------ reader
\* cache: function slot -> atom bytes (only defined slots in DOMAIN)
NibbleAt(s, flagsAt, i) == \* 4-bit field i (0-based)
  LET byte == s[flagsAt + (i \div 2)] IN IF i % 2 = 0 THEN byte % 16 ELSE byte \div 16
\* result: <<ok, cache', atoms by header position, index of first term byte>>
ReadHeader(s, cache) ==
  IF Len(s) < 3 \/ s[1] # 131 \/ s[2] # 68 THEN <<FALSE, cache, <<>>, 0>> ELSE
  LET n == s[3] IN
  IF n = 0 THEN <<TRUE, cache, <<>>, 4>> ELSE
  LET flagsAt == 4
      flagsLen == (n \div 2) + 1 IN
  IF ~Has(s, flagsAt, flagsLen) THEN <<FALSE, cache, <<>>, 0>> ELSE
  LET long == (NibbleAt(s, flagsAt, n) % 2) = 1
      step(st, i) == \* st = <<ok, cache, atoms, pos>>
        IF ~st[1] THEN st ELSE
        LET nib == NibbleAt(s, flagsAt, i - 1)  p == st[4] IN
        IF ~Has(s, p, 1) THEN <<FALSE, cache, <<>>, 0>> ELSE
        LET slot == (IF ReaderIgnoresSegment THEN 0 ELSE (nib % 8) * 256) + s[p] IN
        IF nib >= 8
        THEN LET lenBytes == IF long THEN 2 ELSE 1 IN
             IF ~Has(s, p + 1, lenBytes) THEN <<FALSE, cache, <<>>, 0>> ELSE
             LET alen == IF long THEN B16At(s, p + 1) ELSE s[p + 1] IN
             IF ~Has(s, p + 1 + lenBytes, alen) \/ ~Utf8OkAt(s, p + 1 + lenBytes, p + lenBytes + alen) THEN <<FALSE, cache, <<>>, 0>> ELSE
             LET a == Sl(s, p + 1 + lenBytes, alen) IN
             <<TRUE, (slot :> a) @@ st[2], Append(st[3], a), p + 1 + lenBytes + alen>>
        ELSE IF slot \in DOMAIN st[2] THEN <<TRUE, st[2], Append(st[3], st[2][slot]), p + 1>>
             ELSE <<FALSE, cache, <<>>, 0>>
  IN FoldLeft(step, <<TRUE, cache, <<>>, flagsAt + flagsLen>>, [i \in 1..n |-> i])
\* nTerms terms after the header; result <<ok, cache', terms>>
ReadMsg(s, cache, nTerms) ==
  LET h == ReadHeader(s, cache) IN
  IF ~h[1] THEN <<FALSE, cache, <<>>>> ELSE
  LET refs == [i \in 1..Len(h[3]) |-> VAtom(h[3][i])]
      x == DecN(s, h[4], nTerms, refs) IN
  IF x[1] /\ x[3] = Len(s) + 1 THEN <<TRUE, h[2], x[2]>> ELSE <<FALSE, cache, <<>>>>
\* one or two terms (control, optional payload), as many as the bytes hold
ReadControlAndPayload(s, cache) ==
  LET one == ReadMsg(s, cache, 1) IN IF one[1] THEN one ELSE ReadMsg(s, cache, 2)

\* ------------------------------------------------------------------ sender / receiver over histories
CONSTANTS AtomsInPlay,     \* set of atoms (byte sequences)
          SlotsInPlay,     \* set of <<seg, idx>>
          Messages,        \* set of sequences of terms (each message: <<control>> or <<control, payload>>)
          MaxMsgs
VARIABLES sCache,          \* sender's view of the cache: slot -> atom
          rCache,          \* receiver's cache
          sent,            \* number of messages so far
          bad,             \* the receiver failed to resolve the last message to the sender's terms
          last             \* [bytes, terms, resolved] of the last message (observation only; not in View)
hvars == <<sCache, rCache, sent, bad, last>>
RECURSIVE AtomsIn(_)
AtomsIn(v) == IF v.k = "atom" THEN {v.b}
              ELSE IF IsContainer(v) THEN LET c == Children(v) IN UNION {AtomsIn(c[i]) : i \in 1..Len(c)} ELSE {}
\* the sender caches every atom of the message that is in play (others travel inline)
AtomsOf(terms) == (UNION {AtomsIn(terms[i]) : i \in 1..Len(terms)}) \cap AtomsInPlay
HInit == /\ sCache = <<>> /\ rCache = <<>> /\ sent = 0 /\ bad = FALSE /\ last = [bytes |-> <<>>, terms |-> <<>>, resolved |-> <<>>]
\* All reference lists a conforming sender may write for the atoms `as` (in this header order): each atom
\* either names a slot that holds it already (new = FALSE) or (re)defines any slot not defined earlier in this header.
RECURSIVE RefChoices(_, _, _)
RefChoices(as, cache, taken) ==
  IF as = <<>> THEN {<<>>} ELSE
  LET a == Head(as)
      reuse == { [seg |-> sl[1], idx |-> sl[2], new |-> FALSE, atom |-> a] :
                   sl \in {x \in SlotsInPlay : ((x[1] * 256) + x[2]) \in DOMAIN cache /\ cache[(x[1] * 256) + x[2]] = a /\ x \notin taken} }
      fresh == { [seg |-> sl[1], idx |-> sl[2], new |-> TRUE, atom |-> a] : sl \in SlotsInPlay \ taken }
  IN UNION { { <<r>> \o rest : rest \in RefChoices(Tail(as), IF r.new THEN (Slot(r) :> a) @@ cache ELSE cache,
                                                      IF r.new THEN taken \cup {<<r.seg, r.idx>>} ELSE taken) } : r \in reuse \cup fresh }
\* header orders: ascending and descending by atom text (so that position /= slot occurs)
Orders(S) == LET asc == SetToSortSeq(S, LAMBDA x, y : BytesLess(x, y)) IN {asc, Rev(asc)}
ApplyRefs(cache, rs) == FoldLeft(LAMBDA c, i : IF rs[i].new THEN (Slot(rs[i]) :> rs[i].atom) @@ c ELSE c, cache, [i \in 1..Len(rs) |-> i])
Send == /\ sent < MaxMsgs
        /\ \E terms \in Messages : \E order \in Orders(AtomsOf(terms)) : \E rs \in RefChoices(order, sCache, {}) :
             LET bytes == MsgBytes(rs, terms)
                 rd == ReadMsg(bytes, rCache, Len(terms)) IN
             /\ sCache' = ApplyRefs(sCache, rs)
             /\ rCache' = rd[2]
             /\ bad' = ~(rd[1] /\ rd[3] = terms)
             /\ last' = [bytes |-> bytes, terms |-> terms, resolved |-> rd[3]]
             /\ sent' = sent + 1
HNext == Send
HSpec == HInit /\ [][HNext]_hvars
\* C14 (design level): a conforming receiver resolves every message of every history to the sender's terms
Resolved == ~bad
CachesAgree == rCache = sCache
HView == <<sCache, rCache, sent, bad>>
=============================================================================
