-------------------------- MODULE FragmentsTimed --------------------------
(***************************************************************************)
(* Fragments with the passing of time (property C09: the assembler "holds  *)
(* only incomplete and unexpired sequences", and a sequence stays alive as *)
(* long as its fragments keep arriving within the timeout).                *)
(*                                                                         *)
(* Time is counted per sequence in ticks since its last arrival (capped at *)
(* Expired); the timeout lies between one and two ticks, so a sequence is  *)
(* expired exactly when its age has reached 2.  The abstract layer and the *)
(* implementation layer keep their own ages: the abstract one is reset by  *)
(* every arrival of the sequence, the implementation one by what the code  *)
(* does (FragmentedMessage::add_fragment sets last_update; the header of a *)
(* sequence that already buffered continuations goes through add_fragment  *)
(* as well).  Switch LateHeaderRefreshes (protection, TRUE in the code):   *)
(* FALSE models a header that fills its slot without touching last_update. *)
(*                                                                         *)
(* Only arrivals the property speaks about are generated here (ids within  *)
(* 1..n, no duplicates, one header per incarnation); the untimed module    *)
(* covers the rest.                                                        *)
(***************************************************************************)
EXTENDS Fragments
CONSTANTS LateHeaderRefreshes
VARIABLES aAge, iAge
Expired == 2
tvars == <<vars, aAge, iAge>>
TInit == Init /\ aAge = [s \in SeqIds |-> 0] /\ iAge = [s \in SeqIds |-> 0]
Alive(s) == aTotal[s] > 0 \/ aGot[s] # {}
\* ages of sequences nobody holds are kept at 0 (canonical form)
Canon(a, live) == [s \in SeqIds |-> IF live[s] THEN a[s] ELSE 0]
ALive1 == [s \in SeqIds |-> aTotal'[s] > 0 \/ aGot'[s] # {}]
ILive1 == [s \in SeqIds |-> iPresent'[s]]
TStart(s, n) == /\ n \notin aGot[s] /\ \A i \in aGot[s] : i <= n
                /\ Start(s, n)
                /\ aAge' = Canon([aAge EXCEPT ![s] = 0], ALive1)
                /\ iAge' = Canon([iAge EXCEPT ![s] = IF iPresent[s] /\ ~LateHeaderRefreshes THEN @ ELSE 0], ILive1)
TCont(s, id) == /\ id >= 1 /\ id \notin aGot[s] /\ (aTotal[s] = 0 \/ id < aTotal[s])
                /\ Cont(s, id)
                /\ aAge' = Canon([aAge EXCEPT ![s] = 0], ALive1)
                /\ iAge' = Canon([iAge EXCEPT ![s] = 0], ILive1)
Older(a) == [s \in SeqIds |-> IF a[s] < Expired THEN a[s] + 1 ELSE a[s]]
Tick == /\ nops < MaxOps /\ nops' = nops + 1 /\ act' = [name |-> "tick", seq |-> 0, id |-> 0]
        /\ aAge' = Canon(Older(aAge), [s \in SeqIds |-> Alive(s)]) /\ iAge' = Canon(Older(iAge), iPresent)
        /\ retA' = <<>> /\ retI' = <<>>
        /\ UNCHANGED <<aTotal, aGot, iTotal, iSlots, iPendingFr, iCount, iPresent>>
\* cleanup_expired(): every sequence whose age has reached the timeout is forgotten, the others are untouched
TCleanup == /\ nops < MaxOps /\ nops' = nops + 1 /\ act' = [name |-> "cleanup", seq |-> 0, id |-> 0]
            /\ retA' = <<>> /\ retI' = <<>>
            /\ aTotal' = [s \in SeqIds |-> IF aAge[s] >= Expired THEN 0 ELSE aTotal[s]]
            /\ aGot' = [s \in SeqIds |-> IF aAge[s] >= Expired THEN {} ELSE aGot[s]]
            /\ aAge' = [s \in SeqIds |-> IF aAge[s] >= Expired THEN 0 ELSE aAge[s]]
            /\ iPresent' = [s \in SeqIds |-> iPresent[s] /\ iAge[s] < Expired]
            /\ iTotal' = [s \in SeqIds |-> IF iAge[s] >= Expired THEN 0 ELSE iTotal[s]]
            /\ iSlots' = [s \in SeqIds |-> IF iAge[s] >= Expired THEN {} ELSE iSlots[s]]
            /\ iPendingFr' = [s \in SeqIds |-> IF iAge[s] >= Expired THEN {} ELSE iPendingFr[s]]
            /\ iCount' = [s \in SeqIds |-> IF iAge[s] >= Expired THEN 0 ELSE iCount[s]]
            /\ iAge' = [s \in SeqIds |-> IF iAge[s] >= Expired THEN 0 ELSE iAge[s]]
TNext == \/ \E s \in SeqIds : (\E n \in 1..MaxN : TStart(s, n)) \/ (\E id \in 1..MaxN : TCont(s, id))
         \/ Tick \/ TCleanup
TSpec == TInit /\ [][TNext]_tvars
\* ---- properties
\* the implementation layer holds exactly the pieces of the incomplete, unexpired sequences: nothing of a
\* sequence that completed or expired, and everything of one that did neither
HoldsExactly == \A s \in SeqIds : Held(s) = aGot[s]
AgesAgree == \A s \in SeqIds : Alive(s) => iAge[s] = aAge[s]
TView == <<View, aAge, iAge>>
=============================================================================
