----------------------------- MODULE Fragments -----------------------------
(***************************************************************************)
(* Fragment reassembly of the Erlang distribution protocol.                *)
(*                                                                         *)
(* Abstract layer  : what the protocol prescribes (property C09).          *)
(* Implementation  : edp_client::fragmentation::FragmentAssembler as coded *)
(*                   (slots, continuations buffered before the header,     *)
(*                   received_count, removal on completion, expiry).       *)
(*                                                                         *)
(* Pieces are symbolic tokens <<seq, id>>; the message of sequence s cut   *)
(* into n pieces is <<s,n>> \o <<s,n-1>> \o ... \o <<s,1>> (the first      *)
(* fragment carries the fragment count as its id and the start of the      *)
(* data, the ids count down to 1).                                         *)
(*                                                                         *)
(* The header fragment may carry an atom-cache section in front of its     *)
(* data (start_fragment takes it as a separate argument); it is the very   *)
(* beginning of the message under both concatenation orders, so it needs   *)
(* no token of its own: the binding's "cache" replays attach it to the     *)
(* header arrival and expect it in front of the returned tokens.           *)
(*                                                                         *)
(* Switches.  Protections (TRUE in the code; FALSE yields the design-level *)
(* counterexample used as an adversarial scenario): DupCheck, RangeCheck,  *)
(* RemoveOnComplete.  Deviation (TRUE = what the code does, FALSE = what   *)
(* the protocol prescribes): AscendingConcat.                              *)
(***************************************************************************)
EXTENDS Integers, Sequences, FiniteSets, TLC
CONSTANTS SeqIds,           \* sequence ids in play
          MaxN,             \* largest fragment count
          MaxOps,           \* bound on arrivals
          ExpireMode,       \* "all": cleanup_expired() finds every sequence expired; "none": none
          AscendingConcat,  \* deviation: reassemble() walks the slots by ascending id
          DupCheck,         \* protection: a second copy of a fragment is ignored
          RangeCheck,       \* protection: ids outside 1..total are ignored
          RemoveOnComplete  \* protection: a completed sequence is forgotten
VARIABLES
  \* ---- abstract layer
  aTotal,      \* [SeqIds -> 0..MaxN]            0 = header not seen
  aGot,        \* [SeqIds -> SUBSET 1..MaxN+1]   distinct ids received (before the header: any id >= 1)
  \* ---- implementation layer (fragmentation.rs)
  iTotal,      \* total_fragments (0 = None)
  iSlots,      \* ids of filled slots of `fragments`
  iPendingFr,  \* ids in `pending_fragments` (continuations that arrived before the header)
  iCount,      \* received_count
  iPresent,    \* sequence has an entry in `pending`
  \* ---- bookkeeping
  act, retA, retI, nops
vars == <<aTotal, aGot, iTotal, iSlots, iPendingFr, iCount, iPresent, act, retA, retI, nops>>

Descending(s, n) == [i \in 1..n |-> <<s, n + 1 - i>>]     \* the original message, as tokens
Ascending(s, n)  == [i \in 1..n |-> <<s, i>>]

Init == /\ aTotal = [s \in SeqIds |-> 0] /\ aGot = [s \in SeqIds |-> {}]
        /\ iTotal = [s \in SeqIds |-> 0] /\ iSlots = [s \in SeqIds |-> {}] /\ iPendingFr = [s \in SeqIds |-> {}]
        /\ iCount = [s \in SeqIds |-> 0] /\ iPresent = [s \in SeqIds |-> FALSE]
        /\ act = [name |-> "init"] /\ retA = <<>> /\ retI = <<>> /\ nops = 0

\* ---------------------------------------------------------------- abstract layer
AComplete(t, g) == t > 0 /\ (1..t) \subseteq g
AbsArrive(s, id, isHeader) ==
  LET t1 == IF isHeader THEN id ELSE aTotal[s]
      g1 == IF id >= 1 /\ (t1 = 0 \/ id <= t1) THEN aGot[s] \cup {id} ELSE aGot[s]
      g2 == IF t1 > 0 THEN {i \in g1 : i <= t1} ELSE g1
  IN IF AComplete(t1, g2)
       THEN /\ retA' = Descending(s, t1) /\ aTotal' = [aTotal EXCEPT ![s] = 0] /\ aGot' = [aGot EXCEPT ![s] = {}]
       ELSE /\ retA' = <<>> /\ aTotal' = [aTotal EXCEPT ![s] = t1] /\ aGot' = [aGot EXCEPT ![s] = g2]
AbsForgetAll == /\ aTotal' = [s \in SeqIds |-> 0] /\ aGot' = [s \in SeqIds |-> {}] /\ retA' = <<>>

\* ---------------------------------------------------------------- implementation layer
Reassemble(s, n) == IF AscendingConcat THEN Ascending(s, n) ELSE Descending(s, n)
\* FragmentedMessage::add_fragment
IAdd(total, slots, pend, cnt, id) ==
  IF id = 0 /\ RangeCheck THEN <<slots, pend, cnt>>
  ELSE IF total > 0
       THEN IF id <= total \/ ~RangeCheck
            THEN IF DupCheck /\ id \in slots THEN <<slots, pend, cnt>> ELSE <<slots \cup {id}, pend, cnt + 1>>
            ELSE <<slots, pend, cnt>>
       ELSE <<slots, pend \cup {id}, cnt>>
IForget(s) == /\ iPresent' = [iPresent EXCEPT ![s] = FALSE]
              /\ iTotal' = [iTotal EXCEPT ![s] = 0] /\ iSlots' = [iSlots EXCEPT ![s] = {}]
              /\ iPendingFr' = [iPendingFr EXCEPT ![s] = {}] /\ iCount' = [iCount EXCEPT ![s] = 0]
IComplete(s, n) == /\ retI' = Reassemble(s, n)
                   /\ IF RemoveOnComplete THEN IForget(s)
                      ELSE UNCHANGED <<iPresent, iTotal, iSlots, iPendingFr, iCount>>
ImplStart(s, n) ==   \* FragmentAssembler::start_fragment(seq, n, .., payload)
  IF iPresent[s]
  THEN \* header for a sequence that already buffered continuations: set_total_fragments, then add
       LET moved == IF iTotal[s] # n THEN {i \in iPendingFr[s] : i >= 1 /\ i <= n /\ i \notin iSlots[s]} ELSE {}
           slots0 == iSlots[s] \cup moved
           cnt0 == iCount[s] + Cardinality(moved)
           pend0 == IF iTotal[s] # n THEN {} ELSE iPendingFr[s]
           r == IAdd(n, slots0, pend0, cnt0, n)
       IN IF r[3] = n
            THEN IComplete(s, n)
            ELSE /\ retI' = <<>> /\ iTotal' = [iTotal EXCEPT ![s] = n] /\ iSlots' = [iSlots EXCEPT ![s] = r[1]]
                 /\ iPendingFr' = [iPendingFr EXCEPT ![s] = r[2]] /\ iCount' = [iCount EXCEPT ![s] = r[3]] /\ UNCHANGED iPresent
  ELSE LET r == IAdd(n, {}, {}, 0, n) IN
       IF r[3] = n
         THEN /\ retI' = Reassemble(s, n) /\ UNCHANGED <<iPresent, iTotal, iSlots, iPendingFr, iCount>>
         ELSE /\ retI' = <<>> /\ iPresent' = [iPresent EXCEPT ![s] = TRUE] /\ iTotal' = [iTotal EXCEPT ![s] = n]
              /\ iSlots' = [iSlots EXCEPT ![s] = r[1]] /\ iPendingFr' = [iPendingFr EXCEPT ![s] = r[2]] /\ iCount' = [iCount EXCEPT ![s] = r[3]]
ImplCont(s, id) ==   \* FragmentAssembler::add_fragment
  IF iPresent[s]
  THEN LET r == IAdd(iTotal[s], iSlots[s], iPendingFr[s], iCount[s], id) IN
       IF iTotal[s] > 0 /\ r[3] = iTotal[s]
         THEN IComplete(s, iTotal[s])
         ELSE /\ retI' = <<>> /\ iSlots' = [iSlots EXCEPT ![s] = r[1]] /\ iPendingFr' = [iPendingFr EXCEPT ![s] = r[2]]
              /\ iCount' = [iCount EXCEPT ![s] = r[3]] /\ UNCHANGED <<iPresent, iTotal>>
  ELSE LET r == IAdd(0, {}, {}, 0, id) IN
       /\ retI' = <<>> /\ iPresent' = [iPresent EXCEPT ![s] = TRUE] /\ iTotal' = [iTotal EXCEPT ![s] = 0]
       /\ iSlots' = [iSlots EXCEPT ![s] = r[1]] /\ iPendingFr' = [iPendingFr EXCEPT ![s] = r[2]] /\ iCount' = [iCount EXCEPT ![s] = r[3]]
ImplForgetAll == /\ iPresent' = [s \in SeqIds |-> FALSE] /\ iTotal' = [s \in SeqIds |-> 0]
                 /\ iSlots' = [s \in SeqIds |-> {}] /\ iPendingFr' = [s \in SeqIds |-> {}]
                 /\ iCount' = [s \in SeqIds |-> 0] /\ retI' = <<>>

\* ---------------------------------------------------------------- joint actions
\* A conforming-or-not peer: header with any count, continuation with any id 0..MaxN+1.
\* A header may arrive again while its sequence is live (a duplicate like any other: same count);
\* a second header announcing another count is outside what the property speaks about.
Start(s, n) == /\ nops < MaxOps /\ (aTotal[s] = 0 \/ aTotal[s] = n)
               /\ AbsArrive(s, n, TRUE) /\ ImplStart(s, n)
               /\ act' = [name |-> "start", seq |-> s, id |-> n] /\ nops' = nops + 1
Cont(s, id) == /\ nops < MaxOps
               /\ AbsArrive(s, id, FALSE) /\ ImplCont(s, id)
               /\ act' = [name |-> "cont", seq |-> s, id |-> id] /\ nops' = nops + 1
\* cleanup_expired(): with ExpireMode = "all" the harness lets every deadline pass first
Cleanup == /\ nops < MaxOps
           /\ IF ExpireMode = "all" THEN AbsForgetAll /\ ImplForgetAll
              ELSE /\ retA' = <<>> /\ retI' = <<>>
                   /\ UNCHANGED <<aTotal, aGot, iTotal, iSlots, iPendingFr, iCount, iPresent>>
           /\ act' = [name |-> "cleanup", seq |-> 0, id |-> 0] /\ nops' = nops + 1
Clear == /\ nops < MaxOps /\ AbsForgetAll /\ ImplForgetAll
         /\ act' = [name |-> "clear", seq |-> 0, id |-> 0] /\ nops' = nops + 1
Next == \/ \E s \in SeqIds : (\E n \in 1..MaxN : Start(s, n)) \/ (\E id \in 0..(MaxN + 1) : Cont(s, id))
        \/ Cleanup \/ Clear
Spec == Init /\ [][Next]_vars

\* ---------------------------------------------------------------- properties
\* C09: same return value on every call: the original message exactly once, when and only when
\* the last missing fragment arrives, nothing otherwise.
Refines == retI = retA
\* C09: the implementation holds no more than the data of sequences still incomplete
HeldOnlyIncomplete == \A s \in SeqIds : (iSlots[s] \cup iPendingFr[s]) \subseteq aGot[s]
\* sequences are isolated: by construction of the layers, an arrival for s changes only index s
Isolation == [][\A s \in SeqIds : (act'.name \in {"start", "cont"} /\ act'.seq # s) =>
                    /\ aTotal'[s] = aTotal[s] /\ aGot'[s] = aGot[s] /\ iSlots'[s] = iSlots[s]
                    /\ iPendingFr'[s] = iPendingFr[s] /\ iCount'[s] = iCount[s]]_vars
\* bookkeeping consistency of the implementation layer (holds with all protections on)
CountMatchesSlots == \A s \in SeqIds : iCount[s] = Cardinality(iSlots[s])

\* projection observable on the real object (hook H9: per sequence total + ids held)
Held(s) == iSlots[s] \cup iPendingFr[s]
View == <<aTotal, aGot, iTotal, iSlots, iPendingFr, iCount, iPresent>>
=============================================================================
