---- MODULE RemoteLinks_TTrace_1791107085 ----
EXTENDS Sequences, TLCExt, Toolbox, Naturals, TLC, RemoteLinks

_expression ==
    LET RemoteLinks_TEExpression == INSTANCE RemoteLinks_TEExpression
    IN RemoteLinks_TEExpression!expression
----

_trace ==
    LET RemoteLinks_TETrace == INSTANCE RemoteLinks_TETrace
    IN RemoteLinks_TETrace!trace
----

_inv ==
    ~(
        TLCGet("level") = Len(_TETrace)
        /\
        lAlive = (FALSE)
        /\
        lLinks = (TRUE)
        /\
        lMonSet = (FALSE)
        /\
        lInbox = (<<>>)
        /\
        toPeer = (<<"LINK">>)
        /\
        lMonitorsR = (FALSE)
        /\
        up = (TRUE)
        /\
        rMonitorsL = (FALSE)
        /\
        rBelieves = (TRUE)
    )
----

_init ==
    /\ lLinks = _TETrace[1].lLinks
    /\ lAlive = _TETrace[1].lAlive
    /\ up = _TETrace[1].up
    /\ rMonitorsL = _TETrace[1].rMonitorsL
    /\ rBelieves = _TETrace[1].rBelieves
    /\ lInbox = _TETrace[1].lInbox
    /\ lMonSet = _TETrace[1].lMonSet
    /\ toPeer = _TETrace[1].toPeer
    /\ lMonitorsR = _TETrace[1].lMonitorsR
----

_next ==
    /\ \E i,j \in DOMAIN _TETrace:
        /\ \/ /\ j = i + 1
              /\ i = TLCGet("level")
        /\ lLinks  = _TETrace[i].lLinks
        /\ lLinks' = _TETrace[j].lLinks
        /\ lAlive  = _TETrace[i].lAlive
        /\ lAlive' = _TETrace[j].lAlive
        /\ up  = _TETrace[i].up
        /\ up' = _TETrace[j].up
        /\ rMonitorsL  = _TETrace[i].rMonitorsL
        /\ rMonitorsL' = _TETrace[j].rMonitorsL
        /\ rBelieves  = _TETrace[i].rBelieves
        /\ rBelieves' = _TETrace[j].rBelieves
        /\ lInbox  = _TETrace[i].lInbox
        /\ lInbox' = _TETrace[j].lInbox
        /\ lMonSet  = _TETrace[i].lMonSet
        /\ lMonSet' = _TETrace[j].lMonSet
        /\ toPeer  = _TETrace[i].toPeer
        /\ toPeer' = _TETrace[j].toPeer
        /\ lMonitorsR  = _TETrace[i].lMonitorsR
        /\ lMonitorsR' = _TETrace[j].lMonitorsR

\* Uncomment the ASSUME below to write the states of the error trace
\* to the given file in Json format. Note that you can pass any tuple
\* to `JsonSerialize`. For example, a sub-sequence of _TETrace.
    \* ASSUME
    \*     LET J == INSTANCE Json
    \*         IN J!JsonSerialize("RemoteLinks_TTrace_1791107085.json", _TETrace)

=============================================================================

 Note that you can extract this module `RemoteLinks_TEExpression`
  to a dedicated file to reuse `expression` (the module in the 
  dedicated `RemoteLinks_TEExpression.tla` file takes precedence 
  over the module `RemoteLinks_TEExpression` below).

---- MODULE RemoteLinks_TEExpression ----
EXTENDS Sequences, TLCExt, Toolbox, Naturals, TLC, RemoteLinks

expression == 
    [
        \* To hide variables of the `RemoteLinks` spec from the error trace,
        \* remove the variables below.  The trace will be written in the order
        \* of the fields of this record.
        lLinks |-> lLinks
        ,lAlive |-> lAlive
        ,up |-> up
        ,rMonitorsL |-> rMonitorsL
        ,rBelieves |-> rBelieves
        ,lInbox |-> lInbox
        ,lMonSet |-> lMonSet
        ,toPeer |-> toPeer
        ,lMonitorsR |-> lMonitorsR
        
        \* Put additional constant-, state-, and action-level expressions here:
        \* ,_stateNumber |-> _TEPosition
        \* ,_lLinksUnchanged |-> lLinks = lLinks'
        
        \* Format the `lLinks` variable as Json value.
        \* ,_lLinksJson |->
        \*     LET J == INSTANCE Json
        \*     IN J!ToJson(lLinks)
        
        \* Lastly, you may build expressions over arbitrary sets of states by
        \* leveraging the _TETrace operator.  For example, this is how to
        \* count the number of times a spec variable changed up to the current
        \* state in the trace.
        \* ,_lLinksModCount |->
        \*     LET F[s \in DOMAIN _TETrace] ==
        \*         IF s = 1 THEN 0
        \*         ELSE IF _TETrace[s].lLinks # _TETrace[s-1].lLinks
        \*             THEN 1 + F[s-1] ELSE F[s-1]
        \*     IN F[_TEPosition - 1]
    ]

=============================================================================



Parsing and semantic processing can take forever if the trace below is long.
 In this case, it is advised to uncomment the module below to deserialize the
 trace from a generated binary file.

\*
\*---- MODULE RemoteLinks_TETrace ----
\*EXTENDS IOUtils, TLC, RemoteLinks
\*
\*trace == IODeserialize("RemoteLinks_TTrace_1791107085.bin", TRUE)
\*
\*=============================================================================
\*

---- MODULE RemoteLinks_TETrace ----
EXTENDS TLC, RemoteLinks

trace == 
    <<
    ([lAlive |-> TRUE,lLinks |-> FALSE,lMonSet |-> FALSE,lInbox |-> <<>>,toPeer |-> <<>>,lMonitorsR |-> FALSE,up |-> TRUE,rMonitorsL |-> FALSE,rBelieves |-> FALSE]),
    ([lAlive |-> TRUE,lLinks |-> TRUE,lMonSet |-> FALSE,lInbox |-> <<>>,toPeer |-> <<"LINK">>,lMonitorsR |-> FALSE,up |-> TRUE,rMonitorsL |-> FALSE,rBelieves |-> TRUE]),
    ([lAlive |-> FALSE,lLinks |-> TRUE,lMonSet |-> FALSE,lInbox |-> <<>>,toPeer |-> <<"LINK">>,lMonitorsR |-> FALSE,up |-> TRUE,rMonitorsL |-> FALSE,rBelieves |-> TRUE])
    >>
----


=============================================================================

---- CONFIG RemoteLinks_TTrace_1791107085 ----
CONSTANTS
    RecordsInboundLink = FALSE
    RecordsInboundMonitor = FALSE
    SendsExitToRemote = FALSE
    NotifiesOnConnDown = FALSE

INVARIANT
    _inv

CHECK_DEADLOCK
    \* CHECK_DEADLOCK off because of PROPERTY or INVARIANT above.
    FALSE

INIT
    _init

NEXT
    _next

CONSTANT
    _TETrace <- _trace

ALIAS
    _expression
=============================================================================
\* Generated on Sun Oct 04 09:44:46 UTC 2026