------------------------------ MODULE NodeConn ------------------------------
(***************************************************************************)
(* Connection management of a node (beyond the listed properties; DESIGN   *)
(* §8 item 2): Node::connect as coded is check (contains_key) -> dial      *)
(* (EPMD lookup + handshake, many awaits) -> insert into the table +       *)
(* spawn the receiver; the receiver task, when its stream ends, removes    *)
(* the table entry *by peer name*.  connect_with_retries repeats connect   *)
(* on recoverable errors.                                                  *)
(*                                                                         *)
(* Protections (both FALSE in the code):                                   *)
(*   RemoveByIdentity  the receiver removes the entry only if it is still  *)
(*                     its own connection                                  *)
(*   SingleFlight      a second caller waits for the dial in progress      *)
(*                     instead of dialling again                           *)
(* The peer accepts every handshake (PeerRejectsDuplicates = FALSE) or     *)
(* answers a second simultaneous one with status "alive"/nok (TRUE, what   *)
(* an Erlang node does).                                                   *)
(***************************************************************************)
EXTENDS Integers, Sequences, FiniteSets, TLC
CONSTANTS Callers, MaxConns, MaxAttempts, RemoveByIdentity, SingleFlight, PeerRejectsDuplicates
VARIABLES table,        \* connection id registered for the peer, 0 if none
          open,         \* id -> BOOLEAN: the stream of that connection is open
          rx,           \* id -> "none" | "running" | "closing" | "done"
          pc, mine, attempts, result, nextId
vars == <<table, open, rx, pc, mine, attempts, result, nextId>>
Ids == 1..MaxConns
Init == /\ table = 0 /\ open = [i \in Ids |-> FALSE] /\ rx = [i \in Ids |-> "none"]
        /\ pc = [c \in Callers |-> "idle"] /\ mine = [c \in Callers |-> 0] /\ attempts = [c \in Callers |-> 0]
        /\ result = [c \in Callers |-> "none"] /\ nextId = 1
Dialling == {c \in Callers : pc[c] \in {"dialling", "established"}}
Check(c) == /\ pc[c] = "idle" /\ attempts[c] < MaxAttempts /\ attempts' = [attempts EXCEPT ![c] = @ + 1]
            /\ IF table # 0 THEN pc' = [pc EXCEPT ![c] = "done"] /\ result' = [result EXCEPT ![c] = "ok"]
               ELSE IF SingleFlight /\ Dialling # {} THEN UNCHANGED <<pc, result>> /\ attempts' = attempts
               ELSE pc' = [pc EXCEPT ![c] = "dialling"] /\ UNCHANGED result
            /\ UNCHANGED <<table, open, rx, mine, nextId>>
DialOk(c) == /\ pc[c] = "dialling" /\ nextId <= MaxConns
             /\ ~(PeerRejectsDuplicates /\ \E i \in Ids : open[i])
             /\ open' = [open EXCEPT ![nextId] = TRUE] /\ mine' = [mine EXCEPT ![c] = nextId] /\ nextId' = nextId + 1
             /\ pc' = [pc EXCEPT ![c] = "established"] /\ UNCHANGED <<table, rx, attempts, result>>
\* recoverable failure (connection refused, "alive" status ...): connect_with_retries goes round again
DialFail(c) == /\ pc[c] = "dialling"
               /\ pc' = [pc EXCEPT ![c] = IF attempts[c] < MaxAttempts THEN "idle" ELSE "done"]
               /\ result' = [result EXCEPT ![c] = IF attempts[c] < MaxAttempts THEN @ ELSE "error"]
               /\ UNCHANGED <<table, open, rx, mine, attempts, nextId>>
\* insert + spawn receiver; a replaced entry loses its owner, whose write half is dropped: that stream goes down
Insert(c) == /\ pc[c] = "established" /\ table' = mine[c] /\ rx' = [rx EXCEPT ![mine[c]] = "running"]
             /\ open' = IF table # 0 /\ table # mine[c] THEN [open EXCEPT ![table] = FALSE] ELSE open
             /\ pc' = [pc EXCEPT ![c] = "done"] /\ result' = [result EXCEPT ![c] = "ok"]
             /\ UNCHANGED <<mine, attempts, nextId>>
PeerClose(i) == /\ open[i] /\ open' = [open EXCEPT ![i] = FALSE] /\ UNCHANGED <<table, rx, pc, mine, attempts, result, nextId>>
RxNotice(i) == /\ rx[i] = "running" /\ ~open[i] /\ rx' = [rx EXCEPT ![i] = "closing"]
               /\ UNCHANGED <<table, open, pc, mine, attempts, result, nextId>>
RxRemove(i) == /\ rx[i] = "closing" /\ rx' = [rx EXCEPT ![i] = "done"]
               /\ table' = IF RemoveByIdentity /\ table # i THEN table ELSE 0
               /\ UNCHANGED <<open, pc, mine, attempts, result, nextId>>
Next == (\E c \in Callers : Check(c) \/ DialOk(c) \/ DialFail(c) \/ Insert(c)) \/ (\E i \in Ids : PeerClose(i) \/ RxNotice(i) \/ RxRemove(i))
Spec == Init /\ [][Next]_vars
\* a healthy connection with a running receiver is the one the node sends on
NoLiveOrphan == \A i \in Ids : (rx[i] = "running" /\ open[i]) => table = i
\* the table never points at a connection whose receiver has finished
NoDeadEntry == table # 0 => rx[table] # "done"
\* at most one stream to the peer is open at any time
AtMostOneOpen == Cardinality({i \in Ids : open[i]}) <= 1
=============================================================================
