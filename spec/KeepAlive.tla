------------------------------ MODULE KeepAlive ------------------------------
(***************************************************************************)
(* Keep-alive of an established connection (beyond the listed properties;  *)
(* DESIGN §8 item 3).  Time advances in quarters of the peer's             *)
(* net_ticktime (15 s by default).  A conforming peer sends a tick in      *)
(* every quarter in which it sent nothing else, and takes the connection   *)
(* down when it has received nothing for four quarters.  The node's        *)
(* receiver gives up when it has read nothing for ReadTimeoutQ quarters    *)
(* (as coded: the 10 s handshake timeout, i.e. less than one quarter:      *)
(* finding C19-idle-timeout; modelled here as 0 = "within the quarter").   *)
(* NodeTicks says whether the node sends a tick in quarters in which it    *)
(* sent nothing else (FALSE as coded: nothing in the library writes a      *)
(* zero-length frame).                                                     *)
(***************************************************************************)
EXTENDS Integers
CONSTANTS NodeTicks, ReadTimeoutQ, MaxQ, AppTraffic
VARIABLES q, up, peerSilent, nodeSilent, nodeSentThisQ
vars == <<q, up, peerSilent, nodeSilent, nodeSentThisQ>>
Init == q = 0 /\ up = TRUE /\ peerSilent = 0 /\ nodeSilent = 0 /\ nodeSentThisQ = FALSE
\* the application sends something (only if the scenario allows traffic)
AppSend == /\ up /\ AppTraffic /\ ~nodeSentThisQ /\ nodeSentThisQ' = TRUE /\ UNCHANGED <<q, up, peerSilent, nodeSilent>>
\* end of a quarter: ticks are exchanged according to the rules, silence counters move, the two sides judge
EndQuarter == /\ up /\ q < MaxQ /\ q' = q + 1
              /\ LET nodeSent == nodeSentThisQ \/ NodeTicks
                     ns == IF nodeSent THEN 0 ELSE nodeSilent + 1      \* quarters the peer has heard nothing
                     ps == 0                                            \* the peer always ticks
                 IN /\ nodeSilent' = ns /\ peerSilent' = ps
                    /\ up' = (ns < 4 /\ (ReadTimeoutQ = 0 => FALSE) /\ ps < ReadTimeoutQ)
              /\ nodeSentThisQ' = FALSE
Next == AppSend \/ EndQuarter
Spec == Init /\ [][Next]_vars
\* an established connection to a healthy peer is never taken down by keep-alive alone
StaysUp == up
=============================================================================
