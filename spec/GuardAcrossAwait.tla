-------------------------- MODULE GuardAcrossAwait --------------------------
(***************************************************************************)
(* A lock guard held across a suspension point (beyond the listed          *)
(* properties; DESIGN §8 item 4).  Node::send_remote / rpc_call take a     *)
(* guard of the connection table (`connections.get(..)`: a read lock on    *)
(* one shard of a DashMap, a *thread-blocking* lock) and keep it while     *)
(* they await the connection mutex and the socket write.  The receiver     *)
(* task, when its stream ends, calls `connections.remove(..)`, which needs *)
(* the write lock on that shard and blocks its executor thread until every *)
(* guard is gone.                                                          *)
(*                                                                         *)
(* Executor model (tokio): Workers threads.  A task is "ready" (spawned,   *)
(* wants a thread), "running", "awaiting" an external event (holds no      *)
(* thread), "blocked" on the table lock (keeps its thread) or "done".      *)
(* External events (socket readiness, timers) are delivered by the I/O     *)
(* driver, which is polled by an *idle worker*: at most one idle worker    *)
(* sits on the driver, the others sleep until work is pushed to them.  The *)
(* worker that receives an event runs the woken task itself and stops      *)
(* polling; the driver is polled again when a worker next goes idle.       *)
(* HoldAcrossAwait = TRUE is the code; FALSE releases the guard before the *)
(* first await (clone the Arc out of the table, drop the guard).           *)
(***************************************************************************)
EXTENDS Integers, FiniteSets
CONSTANTS Workers, HoldAcrossAwait
VARIABLES st,        \* task -> state
          guard,     \* the sender holds the read guard
          drv,       \* an idle worker is polling the driver (events can be delivered)
          peerReads, \* the peer has started reading: the sender's write can complete
          eof        \* the peer closed its sending direction: the receiver's stream has ended
vars == <<st, guard, drv, peerReads, eof>>
Tasks == {"sender", "receiver"}
Init == st = [t \in Tasks |-> IF t = "sender" THEN "ready" ELSE "awaiting"] /\ guard = FALSE /\ drv = TRUE /\ peerReads = FALSE /\ eof = FALSE
Busy == Cardinality({t \in Tasks : st[t] \in {"running", "blocked"}})
\* a spawned task is picked up by a free thread (a sleeping worker is notified of pushed work)
Schedule(t) == /\ st[t] = "ready" /\ Busy < Workers /\ st' = [st EXCEPT ![t] = "running"]
               /\ drv' = (Busy + 1 < Workers)          \* some other worker is still idle and keeps (or takes) the driver
               /\ UNCHANGED <<guard, peerReads, eof>>
\* a thread that runs out of work goes idle and polls the driver
GoesIdle(newst, t) == st' = [st EXCEPT ![t] = newst] /\ drv' = TRUE
\* sender: takes the guard, then either writes at once or awaits the socket
SenderGet == /\ st["sender"] = "running" /\ ~guard
             /\ IF peerReads THEN guard' = FALSE /\ GoesIdle("done", "sender")
                             ELSE guard' = HoldAcrossAwait /\ GoesIdle("awaiting", "sender")
             /\ UNCHANGED <<peerReads, eof>>
\* an event is delivered by the worker polling the driver, which then runs the woken task itself
SenderWake == /\ st["sender"] = "awaiting" /\ peerReads /\ drv /\ st' = [st EXCEPT !["sender"] = "running2"] /\ drv' = FALSE
              /\ UNCHANGED <<guard, peerReads, eof>>
SenderFinish == /\ st["sender"] = "running2" /\ guard' = FALSE /\ GoesIdle("done", "sender") /\ UNCHANGED <<peerReads, eof>>
ReceiverWake == /\ st["receiver"] = "awaiting" /\ eof /\ drv /\ st' = [st EXCEPT !["receiver"] = "running"] /\ drv' = FALSE
                /\ UNCHANGED <<guard, peerReads, eof>>
ReceiverRemove == /\ st["receiver"] \in {"running", "blocked"}
                  /\ IF guard THEN st' = [st EXCEPT !["receiver"] = "blocked"] /\ UNCHANGED drv
                              ELSE GoesIdle("done", "receiver")
                  /\ UNCHANGED <<guard, peerReads, eof>>
PeerHalfClose == ~eof /\ eof' = TRUE /\ UNCHANGED <<st, guard, drv, peerReads>>
PeerStartsReading == ~peerReads /\ peerReads' = TRUE /\ UNCHANGED <<st, guard, drv, eof>>
Next == (\E t \in Tasks : Schedule(t)) \/ SenderGet \/ SenderWake \/ SenderFinish \/ ReceiverWake \/ ReceiverRemove \/ PeerHalfClose \/ PeerStartsReading
Fair == /\ \A t \in Tasks : WF_vars(Schedule(t))
        /\ WF_vars(SenderGet) /\ WF_vars(SenderWake) /\ WF_vars(SenderFinish) /\ WF_vars(ReceiverWake) /\ WF_vars(ReceiverRemove)
Spec == Init /\ [][Next]_vars /\ Fair
\* the executor is wedged: the event a task waits for has happened, but nothing will ever deliver it
Wedged == st["sender"] = "awaiting" /\ peerReads /\ ~drv /\ st["receiver"] = "blocked"
NeverWedged == ~Wedged
\* once the peer reads, the send completes
SendCompletes == (peerReads ~> st["sender"] = "done")
=============================================================================
