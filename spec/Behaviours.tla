----------------------------- MODULE Behaviours -----------------------------
(***************************************************************************)
(* OTP-style behaviours of a node (property C18, last clause: "behaviours  *)
(* answer each call once to its caller"): GenServerProcess and             *)
(* GenEventManager as processes with a mailbox, dispatching on the shape   *)
(* of the message.                                                         *)
(*                                                                         *)
(* gen_server   {$gen_call, {From, Ref}, Req} -> handle_call ->            *)
(*                  Reply(v): {Ref, v} to From (if From resolves), once    *)
(*                  NoReply : nothing                                      *)
(*                  error   : the process fails (everything queued behind  *)
(*                            is lost with it)                             *)
(*              {$gen_cast, Req} -> handle_cast;  anything else (also a    *)
(*              $gen_call tuple of another shape) -> handle_info           *)
(* gen_event    {$gen_notify, E}: every installed handler sees E once; a   *)
(*              handler answering remove / failing is dropped afterwards,  *)
(*              swap replaces it by a fresh instance under the same id     *)
(*              {$gen_sync_notify, E}: the same, then ok to the sender     *)
(*              {$gen_call, {From, Ref}, Id, Req}: {Ref, reply} to From,   *)
(*              once; {Ref, error} if no such handler or the handler fails *)
(*              {$gen_which_handlers, {From, Ref}}: {Ref, ids}             *)
(*                                                                         *)
(* The clients' requests carry what the scripted server / handler is to    *)
(* do, so a behaviour of this module is a complete test script.            *)
(***************************************************************************)
EXTENDS Integers, Sequences, FiniteSets, TLC
CONSTANTS Callers,        \* recording processes that issue calls (their inbox is observed)
          Handlers,       \* gen_event handler ids
          MaxOps,
          ErrorReplyOnMissing   \* protection (TRUE in the code): a call naming a handler that is not installed is answered with error
Ghost == "ghost"          \* a From that resolves to no process
VARIABLES gsAlive, gsQ, gsLog,          \* gen_server: alive, mailbox, what the callbacks saw
          geQ, installed, gen, seen,    \* gen_event: mailbox, installed handler ids, instance number per id, events seen per id
          inbox,                        \* caller -> sequence of messages received
          nextRef, nops, hist,
          initial                       \* ghost: the handlers installed before the manager was spawned
vars == <<gsAlive, gsQ, gsLog, geQ, installed, gen, seen, inbox, nextRef, nops, hist, initial>>
Init == /\ gsAlive = TRUE /\ gsQ = <<>> /\ gsLog = <<>>
        /\ geQ = <<>> /\ installed \in (SUBSET Handlers) /\ initial = installed /\ gen = [h \in Handlers |-> 1] /\ seen = [h \in Handlers |-> <<>>]
        /\ inbox = [k \in Callers |-> <<>>] /\ nextRef = 1 /\ nops = 0 /\ hist = <<>>
Quiet == gsQ = <<>> /\ geQ = <<>>
Budget == nops < MaxOps /\ Quiet                      \* clients issue one operation at a time (sequential scripts)
Op(o) == hist' = Append(hist, o) /\ nops' = nops + 1
Froms == Callers \cup {Ghost}
GsModes == {"reply", "noreply", "fail"}
\* ---- clients -> gen_server (a send to a dead server fails at the registry and changes nothing)
GsSend(m, o) == /\ Budget /\ Op(o \o <<IF gsAlive THEN "ok" ELSE "err">>)
                /\ gsQ' = IF gsAlive THEN Append(gsQ, m) ELSE gsQ
                /\ UNCHANGED <<gsAlive, gsLog, geQ, installed, gen, seen, inbox>>
GsCall(f, mode) == GsSend([k |-> "call", from |-> f, ref |-> nextRef, mode |-> mode], <<"gs_call", f, nextRef, mode>>) /\ nextRef' = nextRef + 1
GsCast == GsSend([k |-> "cast", n |-> nextRef], <<"gs_cast", "", nextRef, "">>) /\ nextRef' = nextRef + 1
GsInfo == GsSend([k |-> "info", n |-> nextRef], <<"gs_info", "", nextRef, "">>) /\ nextRef' = nextRef + 1
\* a $gen_call tuple whose From is not {Pid, Ref}: not a call
GsBadCall == GsSend([k |-> "badcall", n |-> nextRef], <<"gs_badcall", "", nextRef, "">>) /\ nextRef' = nextRef + 1
Deliver(f, m) == IF f \in Callers THEN [inbox EXCEPT ![f] = Append(@, m)] ELSE inbox
Msg(t, ref, v) == [t |-> t, ref |-> ref, v |-> v, ids |-> {}]
GsHandle == /\ gsAlive /\ gsQ # <<>>
            /\ LET m == Head(gsQ) IN
               /\ gsLog' = Append(gsLog, IF m.k = "call" THEN <<"call", m.ref>> ELSE IF m.k = "cast" THEN <<"cast", m.n>> ELSE <<"info", m.n>>)
               /\ IF m.k = "call" /\ m.mode = "fail" THEN gsAlive' = FALSE /\ gsQ' = <<>> /\ UNCHANGED inbox
                  ELSE /\ gsAlive' = TRUE /\ gsQ' = Tail(gsQ)
                       /\ inbox' = IF m.k = "call" /\ m.mode = "reply" THEN Deliver(m.from, Msg("reply", m.ref, "gs")) ELSE inbox
            /\ UNCHANGED <<geQ, installed, gen, seen, nextRef, nops, hist>>
\* ---- clients -> gen_event
\* swapfail: the handler asks to be swapped for a replacement whose init fails
Acts == {"ok", "remove", "swap", "fail", "swapfail"}
CallModes == {"reply", "remove", "swap", "fail", "swapfail"}
GeSend(m, o) == /\ Budget /\ Op(o) /\ geQ' = Append(geQ, m)
                /\ UNCHANGED <<gsAlive, gsQ, gsLog, installed, gen, seen, inbox>>
GeNotify(act, sync, f) == /\ GeSend([k |-> "notify", n |-> nextRef, act |-> act, sync |-> sync, from |-> f],
                                    <<IF sync THEN "ge_sync_notify" ELSE "ge_notify", f, nextRef, act>>) /\ nextRef' = nextRef + 1
GeCall(f, h, mode) == /\ GeSend([k |-> "call", from |-> f, ref |-> nextRef, h |-> h, mode |-> mode], <<"ge_call", f, nextRef, <<h, mode>>>>) /\ nextRef' = nextRef + 1
GeWhich(f) == /\ GeSend([k |-> "which", from |-> f, ref |-> nextRef], <<"ge_which", f, nextRef, "">>) /\ nextRef' = nextRef + 1
GeInfo == /\ GeSend([k |-> "info", n |-> nextRef], <<"ge_info", "", nextRef, "">>) /\ nextRef' = nextRef + 1
After(h, a) == IF a \in {"remove", "fail", "swapfail"} THEN "gone" ELSE IF a = "swap" THEN "swapped" ELSE "same"
GeHandle == /\ geQ # <<>> /\ geQ' = Tail(geQ)
            /\ LET m == Head(geQ) IN
               CASE m.k = "notify" ->
                      /\ seen' = [h \in Handlers |-> IF h \in installed THEN Append(seen[h], <<"event", gen[h], m.n>>) ELSE seen[h]]
                      /\ installed' = {h \in installed : After(h, m.act[h]) # "gone"}
                      /\ gen' = [h \in Handlers |-> IF h \in installed /\ m.act[h] = "swap" THEN gen[h] + 1 ELSE gen[h]]
                      /\ inbox' = IF m.sync THEN Deliver(m.from, Msg("ok", 0, "ge")) ELSE inbox
                 [] m.k = "call" ->
                      IF m.h \in installed
                      THEN /\ seen' = [seen EXCEPT ![m.h] = Append(@, <<"call", gen[m.h], m.ref>>)]
                           /\ installed' = IF m.mode \in {"remove", "fail"} THEN installed \ {m.h} ELSE installed
                           \* (as coded, a replacement whose init fails stays installed under the id; the call is answered with error)
                           /\ gen' = IF m.mode \in {"swap", "swapfail"} THEN [gen EXCEPT ![m.h] = @ + 1] ELSE gen
                           /\ inbox' = Deliver(m.from, Msg("reply", m.ref, IF m.mode \in {"fail", "swapfail"} THEN "error" ELSE "ge"))
                      ELSE /\ inbox' = (IF ErrorReplyOnMissing THEN Deliver(m.from, Msg("reply", m.ref, "error")) ELSE inbox) /\ UNCHANGED <<seen, installed, gen>>
                 [] m.k = "which" -> /\ inbox' = Deliver(m.from, [t |-> "which", ref |-> m.ref, v |-> "ids", ids |-> installed]) /\ UNCHANGED <<seen, installed, gen>>
                 [] OTHER -> /\ seen' = [h \in Handlers |-> IF h \in installed THEN Append(seen[h], <<"info", gen[h], m.n>>) ELSE seen[h]]
                             /\ UNCHANGED <<installed, gen, inbox>>
            /\ UNCHANGED <<gsAlive, gsQ, gsLog, nextRef, nops, hist>>
Step == \/ \E f \in Froms, mode \in GsModes : GsCall(f, mode)
        \/ GsCast \/ GsInfo \/ GsBadCall \/ GsHandle
        \/ \E act \in [Handlers -> Acts] : GeNotify(act, FALSE, Ghost)
        \/ \E act \in [Handlers -> {"ok", "remove"}], f \in Froms : GeNotify(act, TRUE, f)
        \/ \E f \in Froms, h \in Handlers, mode \in CallModes : GeCall(f, h, mode)
        \/ \E f \in Froms : GeWhich(f)
        \/ GeInfo \/ GeHandle
Next == Step /\ UNCHANGED initial
Spec == Init /\ [][Next]_vars
\* ---- C18, last clause
\* every call reference is answered at most once, and only to the caller that issued it
IssuedBy(ref) == LET is == {i \in 1..Len(hist) : hist[i][1] \in {"gs_call", "ge_call", "ge_which"} /\ hist[i][3] = ref} IN
                 IF is = {} THEN "nobody" ELSE hist[CHOOSE i \in is : TRUE][2]
AnswerOnce == \A k \in Callers : \A i, j \in 1..Len(inbox[k]) :
                 (i # j /\ inbox[k][i].t \in {"reply", "which"} /\ inbox[k][j].t \in {"reply", "which"}) => inbox[k][i].ref # inbox[k][j].ref
AnswerToCaller == \A k \in Callers : \A i \in 1..Len(inbox[k]) : inbox[k][i].t \in {"reply", "which"} => IssuedBy(inbox[k][i].ref) = k
\* at rest, a call that asked for a reply and whose server handled it has its answer
Answered == Quiet => \A i \in 1..Len(hist) :
              (hist[i][1] = "gs_call" /\ hist[i][4] = "reply" /\ hist[i][5] = "ok" /\ hist[i][2] \in Callers /\ \E j \in 1..Len(gsLog) : gsLog[j] = <<"call", hist[i][3]>>)
                 => \E j \in 1..Len(inbox[hist[i][2]]) : inbox[hist[i][2]][j] = Msg("reply", hist[i][3], "gs")
\* at rest every gen_event call / which_handlers request of a live caller has exactly one answer
GeAnswered == Quiet => \A i \in 1..Len(hist) : (hist[i][1] \in {"ge_call", "ge_which"} /\ hist[i][2] \in Callers)
                 => Cardinality({j \in 1..Len(inbox[hist[i][2]]) : inbox[hist[i][2]][j].t \in {"reply", "which"} /\ inbox[hist[i][2]][j].ref = hist[i][3]}) = 1
\* an event reaches every handler installed at that moment exactly once
EventOnce == \A h \in Handlers : \A i, j \in 1..Len(seen[h]) : (i # j /\ seen[h][i][1] = "event" /\ seen[h][j][1] = "event") => seen[h][i][3] # seen[h][j][3]
=============================================================================
