------------------------------- MODULE Etf -------------------------------
(***************************************************************************)
(* Erlang External Term Format — reference model.                          *)
(*                                                                         *)
(*   Val            abstract Erlang values (what a term denotes)           *)
(*   Enc / Encode   the canonical encoding (smallest modern tag)           *)
(*   Alts / AltsDeep  every other encoding the format admits for a value   *)
(*   Dec / Decode   a total recursive-descent parser: bytes -> value | fail *)
(*                                                                         *)
(* Written from the External Term Format document (DESIGN.md app. C.1),    *)
(* independently of the Rust code.  All wide numbers are byte / digit      *)
(* sequences because TLC integers are 32-bit.  The parser is index based   *)
(* (no copying of the input) and folds over element counts iteratively so  *)
(* that only nesting depth consumes stack.                                 *)
(***************************************************************************)
EXTENDS Integers, Sequences, FiniteSets, TLC, SequencesExt, Functions

CONSTANTS FloatTexts,     \* set of records [text |-> 31 bytes, bits |-> 8 bytes]   (FLOAT_EXT table)
          Deflated        \* set of records [z |-> zlib stream bytes, plain |-> bytes] (COMPRESSED table)

\* ------------------------------------------------------------------ bytes
Byte == 0..255
U16(n) == << n \div 256, n % 256 >>
U32(n) == << n \div 16777216, (n \div 65536) % 256, (n \div 256) % 256, n % 256 >>
B16At(s, p) == (s[p] * 256) + s[p + 1]
\* value of a 4-byte big-endian field at p, or -1 if it does not fit a TLC integer (>= 2^31)
B32At(s, p) == IF s[p] >= 128 THEN -1 ELSE (s[p] * 16777216) + (s[p + 1] * 65536) + (s[p + 2] * 256) + s[p + 3]
Drop(s, n) == SubSeq(s, n + 1, Len(s))
Take(s, n) == SubSeq(s, 1, n)
Sl(s, p, n) == SubSeq(s, p, p + n - 1)            \* n bytes starting at index p
Has(s, p, n) == p + n - 1 <= Len(s)
Rev(s) == [i \in 1..Len(s) |-> s[Len(s) + 1 - i]]
Concat(ss) == FoldLeft(LAMBDA acc, x : acc \o x, <<>>, ss)
\* drop most-significant zero digits of a little-endian digit string
TrimHi(d) == LET nz == {i \in 1..Len(d) : d[i] # 0} IN
             IF nz = {} THEN <<>> ELSE SubSeq(d, 1, CHOOSE i \in nz : \A j \in nz : j <= i)
RECURSIVE BytesLess(_, _)
BytesLess(a, b) == IF a = <<>> THEN b # <<>> ELSE IF b = <<>> THEN FALSE
                   ELSE IF a[1] # b[1] THEN a[1] < b[1] ELSE BytesLess(Tail(a), Tail(b))

\* ------------------------------------------------------------------ values
VInt(neg, mag)  == [k |-> "int", neg |-> neg, mag |-> mag]     \* mag: little-endian base 256, minimal; 0 = <<>>, not neg
VFloat(bits)    == [k |-> "float", bits |-> bits]              \* 8 bytes big-endian IEEE-754
VAtom(b)        == [k |-> "atom", b |-> b]                     \* UTF-8 bytes
VBin(b)         == [k |-> "bin", b |-> b]
VBits(b, n)     == [k |-> "bits", b |-> b, n |-> n]            \* n in 1..7 used bits of the last byte (8 bits = VBin)
VNil            == [k |-> "nil"]
VList(e, t)     == [k |-> "list", e |-> e, t |-> t]            \* e non-empty, t not a list (t = VNil: proper)
VTuple(e)       == [k |-> "tuple", e |-> e]
VMap(kv)        == [k |-> "map", kv |-> kv]                    \* sequence of <<key, value>>, canonical order
VPid(node, id, serial, creation, loc)  == [k |-> "pid", node |-> node, id |-> id, serial |-> serial, creation |-> creation, loc |-> loc]
VPort(node, id, creation, loc)         == [k |-> "port", node |-> node, id |-> id, creation |-> creation, loc |-> loc]
VRef(node, creation, words, loc)       == [k |-> "ref", node |-> node, creation |-> creation, words |-> words, loc |-> loc]
VExport(m, f, a) == [k |-> "export", m |-> m, f |-> f, a |-> a]
VFun(arity, uniq, index, m, oi, ou, pid, free) ==
    [k |-> "fun", arity |-> arity, uniq |-> uniq, index |-> index, m |-> m, oi |-> oi, ou |-> ou, pid |-> pid, free |-> free]

Zero == VInt(FALSE, <<>>)
SmallInt(n) == IF n = 0 THEN Zero ELSE VInt(FALSE, <<n>>)      \* 0..255
IsContainer(v) == v.k \in {"tuple", "list", "map", "fun", "pid", "port", "ref", "export"}

\* ------------------------------------------------------------------ integers
FitsI32(v) == \/ Len(v.mag) <= 3
              \/ Len(v.mag) = 4 /\ v.mag[4] <= 127
              \/ v.neg /\ v.mag = <<0, 0, 0, 128>>
Pad4(d) == d \o [i \in 1..(4 - Len(d)) |-> 0]
\* two's complement of a 4-digit LE magnitude
RECURSIVE Neg4(_, _)
Neg4(d, carry) == IF d = <<>> THEN <<>>
                  ELSE LET x == (255 - d[1]) + carry IN << x % 256 >> \o Neg4(Tail(d), x \div 256)
I32Bytes(v) == Rev(IF v.neg THEN Neg4(Pad4(v.mag), 1) ELSE Pad4(v.mag))
I32Val(b) == \* 4 bytes big-endian two's complement -> VInt
    LET le == Rev(b) IN
    IF b[1] >= 128 THEN VInt(TRUE, TrimHi(Neg4(le, 1))) ELSE VInt(FALSE, TrimHi(le))
BigVal(sign, digits) == LET m == TrimHi(digits) IN VInt(sign # 0 /\ m # <<>>, m)

\* ------------------------------------------------------------------ canonical encoder
EncAtom(b) == IF Len(b) <= 255 THEN <<119, Len(b)>> \o b ELSE <<118>> \o U16(Len(b)) \o b
EncInt(v) ==
    IF ~v.neg /\ Len(v.mag) <= 1 THEN << 97, IF v.mag = <<>> THEN 0 ELSE v.mag[1] >>
    ELSE IF FitsI32(v) THEN <<98>> \o I32Bytes(v)
    ELSE IF Len(v.mag) <= 255 THEN <<110, Len(v.mag), IF v.neg THEN 1 ELSE 0>> \o v.mag
    ELSE <<111>> \o U32(Len(v.mag)) \o <<IF v.neg THEN 1 ELSE 0>> \o v.mag
EncLeaf(v) ==
  CASE v.k = "int"    -> EncInt(v)
    [] v.k = "float"  -> <<70>> \o v.bits
    [] v.k = "atom"   -> EncAtom(v.b)
    [] v.k = "bin"    -> <<109>> \o U32(Len(v.b)) \o v.b
    [] v.k = "bits"   -> <<77>> \o U32(Len(v.b)) \o <<v.n>> \o v.b
    [] v.k = "nil"    -> <<106>>

\* children of a container in encoding order, and the bytes of the container given the
\* encodings of its children (so that one child at a time can be re-encoded differently)
FlatKv(kv) == [i \in 1..(2 * Len(kv)) |-> kv[(i + 1) \div 2][IF i % 2 = 1 THEN 1 ELSE 2]]
Children(v) ==
  CASE v.k = "tuple"  -> v.e
    [] v.k = "list"   -> Append(v.e, v.t)
    [] v.k = "map"    -> FlatKv(v.kv)
    [] v.k = "fun"    -> <<v.m, v.oi, v.ou, v.pid>> \o v.free
    [] v.k \in {"pid", "port", "ref"} -> <<v.node>>
    [] v.k = "export" -> <<v.m, v.f>>
    [] OTHER -> <<>>
LocalPrefix(v) == IF v.loc = <<>> THEN <<>> ELSE <<121>> \o v.loc
Wrap(v, ce) ==
  CASE v.k = "tuple"  -> (IF Len(v.e) <= 255 THEN <<104, Len(v.e)>> ELSE <<105>> \o U32(Len(v.e))) \o Concat(ce)
    [] v.k = "list"   -> <<108>> \o U32(Len(v.e)) \o Concat(ce)
    [] v.k = "map"    -> <<116>> \o U32(Len(v.kv)) \o Concat(ce)
    [] v.k = "pid"    -> LocalPrefix(v) \o <<88>> \o ce[1] \o v.id \o v.serial \o v.creation
    [] v.k = "port"   -> LocalPrefix(v) \o <<120>> \o ce[1] \o v.id \o v.creation
    [] v.k = "ref"    -> LocalPrefix(v) \o <<90>> \o U16(Len(v.words)) \o ce[1] \o v.creation \o Concat(v.words)
    [] v.k = "export" -> <<113>> \o ce[1] \o ce[2] \o <<97, v.a>>
    [] v.k = "fun"    -> LET body == <<v.arity>> \o v.uniq \o v.index \o U32(Len(v.free)) \o Concat(ce)
                         IN <<112>> \o U32(Len(body) + 4) \o body
RECURSIVE Enc(_)
Enc(v) == IF IsContainer(v) THEN LET c == Children(v) IN Wrap(v, [i \in 1..Len(c) |-> Enc(c[i])]) ELSE EncLeaf(v)
Encode(v) == <<131>> \o Enc(v)

CanonMap(kv) == SortSeq(kv, LAMBDA a, b : BytesLess(Enc(a[1]), Enc(b[1])))

\* ------------------------------------------------------------------ UTF-8 / Latin-1
Latin1ToUtf8(b) == Concat([i \in 1..Len(b) |-> IF b[i] < 128 THEN <<b[i]>> ELSE <<192 + (b[i] \div 64), 128 + (b[i] % 64)>>])
Cont(x) == x >= 128 /\ x <= 191
\* well-formed UTF-8 between indices p and q (inclusive) of s; iterative: state = index of next char or 0 = bad
Utf8OkAt(s, p, q) ==
  LET step(st, i) ==
        IF st = 0 \/ i < st THEN st
        ELSE LET c == s[i] IN
          IF c < 128 THEN i + 1
          ELSE IF c >= 194 /\ c <= 223 THEN (IF i + 1 <= q /\ Cont(s[i + 1]) THEN i + 2 ELSE 0)
          ELSE IF c >= 224 /\ c <= 239 THEN
                 (IF i + 2 <= q /\ Cont(s[i + 1]) /\ Cont(s[i + 2]) /\ (c # 224 \/ s[i + 1] >= 160) /\ (c # 237 \/ s[i + 1] <= 159)
                  THEN i + 3 ELSE 0)
          ELSE IF c >= 240 /\ c <= 244 THEN
                 (IF i + 3 <= q /\ Cont(s[i + 1]) /\ Cont(s[i + 2]) /\ Cont(s[i + 3]) /\ (c # 240 \/ s[i + 1] >= 144) /\ (c # 244 \/ s[i + 1] <= 143)
                  THEN i + 4 ELSE 0)
          ELSE 0
  IN FoldLeft(step, p, [i \in 1..(q - p + 1) |-> p + i - 1]) # 0
Utf8Ok(b) == Utf8OkAt(b, 1, Len(b))

\* ------------------------------------------------------------------ parser
\* Results are triples <<ok, value, next index>>; value is Zero when ok = FALSE.
Fail == <<FALSE, Zero, 0>>
MkList(es, t) == IF es = <<>> THEN t ELSE IF t.k = "list" THEN VList(es \o t.e, t.t) ELSE VList(es, t)
RECURSIVE DecR(_, _, _)
\* n terms starting at p (iterative over n; recursion only through nesting)
DecN(s, p, n, rf) ==
  IF n > (Len(s) - p) + 1 THEN <<FALSE, <<>>, 0>> ELSE
  FoldLeft(LAMBDA st, i : IF ~st[1] THEN st ELSE
                            LET r == DecR(s, st[3], rf) IN IF r[1] THEN <<TRUE, Append(st[2], r[2]), r[3]>> ELSE <<FALSE, <<>>, 0>>,
           <<TRUE, <<>>, p>>, [i \in 1..n |-> i])
DecAtomAt(s, p, rf) == LET r == DecR(s, p, rf) IN IF r[1] /\ r[2].k = "atom" THEN r ELSE Fail
Pairs(es) == [i \in 1..(Len(es) \div 2) |-> <<es[(2 * i) - 1], es[2 * i]>>]
DecR(s, p0, rf) ==
  IF ~Has(s, p0, 1) THEN Fail ELSE
  LET t == s[p0]  p == p0 + 1 IN
  CASE t = 97  -> IF Has(s, p, 1) THEN <<TRUE, SmallInt(s[p]), p + 1>> ELSE Fail
    [] t = 98  -> IF Has(s, p, 4) THEN <<TRUE, I32Val(Sl(s, p, 4)), p + 4>> ELSE Fail
    [] t = 110 -> IF Has(s, p, 2) /\ Has(s, p, 2 + s[p]) THEN <<TRUE, BigVal(s[p + 1], Sl(s, p + 2, s[p])), p + 2 + s[p]>> ELSE Fail
    [] t = 111 -> IF Has(s, p, 5) /\ B32At(s, p) >= 0 /\ Has(s, p, 5 + B32At(s, p))
                  THEN <<TRUE, BigVal(s[p + 4], Sl(s, p + 5, B32At(s, p))), p + 5 + B32At(s, p)>> ELSE Fail
    [] t = 70  -> IF Has(s, p, 8) THEN <<TRUE, VFloat(Sl(s, p, 8)), p + 8>> ELSE Fail
    [] t = 99  -> IF Has(s, p, 31) /\ \E ft \in FloatTexts : ft.text = Sl(s, p, 31)
                  THEN <<TRUE, VFloat((CHOOSE ft \in FloatTexts : ft.text = Sl(s, p, 31)).bits), p + 31>> ELSE Fail
    [] t = 119 -> IF Has(s, p, 1) /\ Has(s, p, 1 + s[p]) /\ Utf8OkAt(s, p + 1, p + s[p])
                  THEN <<TRUE, VAtom(Sl(s, p + 1, s[p])), p + 1 + s[p]>> ELSE Fail
    [] t = 118 -> IF Has(s, p, 2) /\ Has(s, p, 2 + B16At(s, p)) /\ Utf8OkAt(s, p + 2, p + 1 + B16At(s, p))
                  THEN <<TRUE, VAtom(Sl(s, p + 2, B16At(s, p))), p + 2 + B16At(s, p)>> ELSE Fail
    [] t = 115 -> IF Has(s, p, 1) /\ Has(s, p, 1 + s[p])
                  THEN <<TRUE, VAtom(Latin1ToUtf8(Sl(s, p + 1, s[p]))), p + 1 + s[p]>> ELSE Fail
    [] t = 100 -> IF Has(s, p, 2) /\ Has(s, p, 2 + B16At(s, p))
                  THEN <<TRUE, VAtom(Latin1ToUtf8(Sl(s, p + 2, B16At(s, p)))), p + 2 + B16At(s, p)>> ELSE Fail
    [] t = 104 -> IF ~Has(s, p, 1) THEN Fail ELSE
                  LET x == DecN(s, p + 1, s[p], rf) IN IF x[1] THEN <<TRUE, VTuple(x[2]), x[3]>> ELSE Fail
    [] t = 105 -> IF ~Has(s, p, 4) \/ B32At(s, p) < 0 THEN Fail ELSE
                  LET x == DecN(s, p + 4, B32At(s, p), rf) IN IF x[1] THEN <<TRUE, VTuple(x[2]), x[3]>> ELSE Fail
    [] t = 106 -> <<TRUE, VNil, p>>
    [] t = 107 -> IF Has(s, p, 2) /\ Has(s, p, 2 + B16At(s, p))
                  THEN <<TRUE, MkList([i \in 1..B16At(s, p) |-> SmallInt(s[p + 1 + i])], VNil), p + 2 + B16At(s, p)>> ELSE Fail
    [] t = 108 -> IF ~Has(s, p, 4) \/ B32At(s, p) < 0 THEN Fail ELSE
                  LET x == DecN(s, p + 4, B32At(s, p), rf) IN IF ~x[1] THEN Fail ELSE
                  LET tl == DecR(s, x[3], rf) IN IF ~tl[1] THEN Fail ELSE <<TRUE, MkList(x[2], tl[2]), tl[3]>>
    [] t = 109 -> IF Has(s, p, 4) /\ B32At(s, p) >= 0 /\ Has(s, p, 4 + B32At(s, p))
                  THEN <<TRUE, VBin(Sl(s, p + 4, B32At(s, p))), p + 4 + B32At(s, p)>> ELSE Fail
    [] t = 77  -> IF Has(s, p, 5) /\ B32At(s, p) >= 0 /\ Has(s, p, 5 + B32At(s, p)) /\ s[p + 4] >= 1 /\ s[p + 4] <= 8
                     /\ (B32At(s, p) > 0 \/ s[p + 4] = 8)
                  THEN <<TRUE, IF s[p + 4] = 8 THEN VBin(Sl(s, p + 5, B32At(s, p))) ELSE VBits(Sl(s, p + 5, B32At(s, p)), s[p + 4]),
                         p + 5 + B32At(s, p)>> ELSE Fail
    [] t = 116 -> IF ~Has(s, p, 4) \/ B32At(s, p) < 0 \/ B32At(s, p) > Len(s) THEN Fail ELSE
                  LET x == DecN(s, p + 4, 2 * B32At(s, p), rf) IN
                  IF ~x[1] THEN Fail ELSE
                  LET kv == Pairs(x[2]) IN
                  IF Cardinality({kv[i][1] : i \in 1..Len(kv)}) # Len(kv) THEN Fail
                  ELSE <<TRUE, VMap(CanonMap(kv)), x[3]>>
    [] t = 88  -> LET n == DecAtomAt(s, p, rf) IN IF n[1] /\ Has(s, n[3], 12)
                  THEN <<TRUE, VPid(n[2], Sl(s, n[3], 4), Sl(s, n[3] + 4, 4), Sl(s, n[3] + 8, 4), <<>>), n[3] + 12>> ELSE Fail
    [] t = 103 -> LET n == DecAtomAt(s, p, rf) IN IF n[1] /\ Has(s, n[3], 9)
                  THEN <<TRUE, VPid(n[2], Sl(s, n[3], 4), Sl(s, n[3] + 4, 4), <<0, 0, 0, s[n[3] + 8]>>, <<>>), n[3] + 9>> ELSE Fail
    [] t = 120 -> LET n == DecAtomAt(s, p, rf) IN IF n[1] /\ Has(s, n[3], 12)
                  THEN <<TRUE, VPort(n[2], Sl(s, n[3], 8), Sl(s, n[3] + 8, 4), <<>>), n[3] + 12>> ELSE Fail
    [] t = 89  -> LET n == DecAtomAt(s, p, rf) IN IF n[1] /\ Has(s, n[3], 8)
                  THEN <<TRUE, VPort(n[2], <<0, 0, 0, 0>> \o Sl(s, n[3], 4), Sl(s, n[3] + 4, 4), <<>>), n[3] + 8>> ELSE Fail
    [] t = 102 -> LET n == DecAtomAt(s, p, rf) IN IF n[1] /\ Has(s, n[3], 5)
                  THEN <<TRUE, VPort(n[2], <<0, 0, 0, 0>> \o Sl(s, n[3], 4), <<0, 0, 0, s[n[3] + 4]>>, <<>>), n[3] + 5>> ELSE Fail
    [] t = 90  -> IF ~Has(s, p, 2) THEN Fail ELSE LET n == DecAtomAt(s, p + 2, rf) w == B16At(s, p) IN
                  IF n[1] /\ Has(s, n[3], 4 + (4 * w))
                  THEN <<TRUE, VRef(n[2], Sl(s, n[3], 4), [i \in 1..w |-> Sl(s, n[3] + (4 * i), 4)], <<>>), n[3] + 4 + (4 * w)>> ELSE Fail
    [] t = 114 -> IF ~Has(s, p, 2) THEN Fail ELSE LET n == DecAtomAt(s, p + 2, rf) w == B16At(s, p) IN
                  IF n[1] /\ Has(s, n[3], 1 + (4 * w))
                  THEN <<TRUE, VRef(n[2], <<0, 0, 0, s[n[3]]>>, [i \in 1..w |-> Sl(s, n[3] + (4 * i) - 3, 4)], <<>>), n[3] + 1 + (4 * w)>> ELSE Fail
    [] t = 101 -> LET n == DecAtomAt(s, p, rf) IN IF n[1] /\ Has(s, n[3], 5)
                  THEN <<TRUE, VRef(n[2], <<0, 0, 0, s[n[3] + 4]>>, <<Sl(s, n[3], 4)>>, <<>>), n[3] + 5>> ELSE Fail
    [] t = 113 -> LET m == DecAtomAt(s, p, rf) IN IF ~m[1] THEN Fail ELSE
                  LET f == DecAtomAt(s, m[3], rf) IN IF ~f[1] THEN Fail ELSE
                  LET a == DecR(s, f[3], rf) IN IF a[1] /\ a[2].k = "int" /\ ~a[2].neg /\ Len(a[2].mag) <= 1
                  THEN <<TRUE, VExport(m[2], f[2], IF a[2].mag = <<>> THEN 0 ELSE a[2].mag[1]), a[3]>> ELSE Fail
    [] t = 112 -> IF ~Has(s, p, 29) \/ B32At(s, p) < 29 \/ ~Has(s, p, B32At(s, p)) \/ B32At(s, p + 25) < 0 THEN Fail ELSE
                  LET size == B32At(s, p)  nf == B32At(s, p + 25)
                      m == DecAtomAt(s, p + 29, rf) IN IF ~m[1] THEN Fail ELSE
                  LET oi == DecR(s, m[3], rf) IN IF ~oi[1] \/ oi[2].k # "int" THEN Fail ELSE
                  LET ou == DecR(s, oi[3], rf) IN IF ~ou[1] \/ ou[2].k # "int" THEN Fail ELSE
                  LET pd == DecR(s, ou[3], rf) IN IF ~pd[1] \/ pd[2].k # "pid" THEN Fail ELSE
                  LET fv == DecN(s, pd[3], nf, rf) IN IF ~fv[1] \/ fv[3] # p + size THEN Fail ELSE
                  <<TRUE, VFun(s[p + 4], Sl(s, p + 5, 16), Sl(s, p + 21, 4), m[2], oi[2], ou[2], pd[2], fv[2]), fv[3]>>
    [] t = 121 -> IF ~Has(s, p, 8) THEN Fail ELSE LET x == DecR(s, p + 8, rf) IN IF ~x[1] THEN Fail ELSE
                  <<TRUE, IF x[2].k \in {"pid", "port", "ref"} /\ x[2].loc = <<>> THEN [x[2] EXCEPT !.loc = Sl(s, p, 8)] ELSE x[2], x[3]>>
    [] t = 82  -> IF Has(s, p, 1) /\ s[p] + 1 <= Len(rf) THEN <<TRUE, rf[s[p] + 1], p + 1>> ELSE Fail     \* ATOM_CACHE_REF: k-th reference of this header
    [] OTHER   -> Fail

\* without a distribution header there are no cached-atom references
Dec(s, p) == DecR(s, p, <<>>)

\* COMPRESSED is admissible at the top level only (after the version byte)
DecCompressed(s) == \* s[2] = 80
  IF ~Has(s, 3, 4) THEN Fail ELSE
  LET body == SubSeq(s, 7, Len(s))
      cands == {d \in Deflated : d.z = body /\ U32(Len(d.plain)) = Sl(s, 3, 4)} IN
  IF cands = {} THEN Fail ELSE
  LET d == CHOOSE d \in cands : TRUE  x == Dec(d.plain, 1) IN
  IF x[1] /\ x[3] = Len(d.plain) + 1 THEN <<TRUE, x[2], Len(s) + 1>> ELSE Fail

\* top level: version byte, one term, nothing after it
Decode(s) == IF Len(s) < 2 \/ s[1] # 131 THEN Fail
             ELSE IF s[2] = 80 THEN DecCompressed(s)
             ELSE LET x == Dec(s, 2) IN IF x[1] /\ x[3] = Len(s) + 1 THEN x ELSE Fail
\* version byte, one term, and the index of the first byte after it
DecodeWithTrailing(s) == IF Len(s) < 2 \/ s[1] # 131 THEN Fail ELSE Dec(s, 2)

\* ------------------------------------------------------------------ alternative encodings
\* Alts(v): other encodings of the ROOT node (children canonical); elements are <<why, bytes>>.
IntAlts(v) ==
    (IF FitsI32(v) /\ ~v.neg /\ Len(v.mag) <= 1 THEN {<<"INTEGER_EXT", <<98>> \o I32Bytes(v)>>} ELSE {})
    \cup (IF Len(v.mag) <= 255 /\ FitsI32(v)
             THEN {<<"SMALL_BIG_EXT", <<110, Len(v.mag), IF v.neg THEN 1 ELSE 0>> \o v.mag>>} ELSE {})
    \cup (IF Len(v.mag) <= 253
             THEN {<<"SMALL_BIG_EXT zero-padded", <<110, Len(v.mag) + 2, IF v.neg THEN 1 ELSE 0>> \o v.mag \o <<0, 0>>>>} ELSE {})
    \cup (IF Len(v.mag) <= 255 THEN {<<"LARGE_BIG_EXT", <<111>> \o U32(Len(v.mag)) \o <<IF v.neg THEN 1 ELSE 0>> \o v.mag>>} ELSE {})
IsLatin1(b) == \* UTF-8 bytes whose code points are all <= 255
    /\ Utf8Ok(b)
    /\ \A i \in 1..Len(b) : b[i] < 128 \/ b[i] \in {194, 195} \/ (i > 1 /\ b[i - 1] \in {194, 195} /\ Cont(b[i]))
Utf8ToLatin1(b) == LET keep == {i \in 1..Len(b) : b[i] \notin {194, 195}} IN
    [j \in 1..Cardinality(keep) |->
        LET i == CHOOSE i \in keep : Cardinality({x \in keep : x <= i}) = j IN
        IF b[i] < 128 THEN b[i] ELSE ((b[i - 1] - 192) * 64) + (b[i] - 128)]
AtomAlts(b) ==
    (IF Len(b) <= 255 THEN {<<"ATOM_UTF8_EXT", <<118>> \o U16(Len(b)) \o b>>} ELSE {})
    \cup (IF Len(b) <= 300 /\ IsLatin1(b) THEN LET l == Utf8ToLatin1(b) IN
            LET cls == IF \E i \in 1..Len(l) : l[i] >= 128 THEN " (Latin-1 bytes >= 128)" ELSE " (ASCII)" IN
            {<<"ATOM_EXT" \o cls, <<100>> \o U16(Len(l)) \o l>>} \cup (IF Len(l) <= 255 THEN {<<"SMALL_ATOM_EXT" \o cls, <<115, Len(l)>> \o l>>} ELSE {})
          ELSE {})
IsByteList(v) == v.k = "list" /\ v.t = VNil /\ Len(v.e) <= 65535 /\ \A i \in 1..Len(v.e) : v.e[i].k = "int" /\ ~v.e[i].neg /\ Len(v.e[i].mag) <= 1
ByteOf(x) == IF x.mag = <<>> THEN 0 ELSE x.mag[1]
Creation8(c) == c[1] = 0 /\ c[2] = 0 /\ c[3] = 0
Alts(v) ==
  CASE v.k = "int"   -> IntAlts(v)
    [] v.k = "float" -> {<<"FLOAT_EXT", <<99>> \o ft.text>> : ft \in {f \in FloatTexts : f.bits = v.bits}}
    [] v.k = "atom"  -> AtomAlts(v.b)
    [] v.k = "nil"   -> {<<"STRING_EXT empty", <<107, 0, 0>>>>}
    [] v.k = "list"  -> (IF IsByteList(v) THEN {<<"STRING_EXT", <<107>> \o U16(Len(v.e)) \o [i \in 1..Len(v.e) |-> ByteOf(v.e[i])]>>} ELSE {})
                        \cup (IF Len(v.e) >= 2 /\ Len(v.e) <= 300
                                THEN {<<"LIST_EXT nested tail", <<108>> \o U32(1) \o Enc(v.e[1]) \o Enc(VList(Tail(v.e), v.t))>>} ELSE {})
    [] v.k = "tuple" -> IF Len(v.e) <= 255 THEN {<<"LARGE_TUPLE_EXT", <<105>> \o U32(Len(v.e)) \o Concat([i \in 1..Len(v.e) |-> Enc(v.e[i])])>>} ELSE {}
    [] v.k = "bin"   -> IF v.b # <<>> THEN {<<"BIT_BINARY_EXT bits=8", <<77>> \o U32(Len(v.b)) \o <<8>> \o v.b>>} ELSE {}
    [] v.k = "pid"   -> IF v.loc = <<>> /\ Creation8(v.creation)
                        THEN {<<"PID_EXT", <<103>> \o Enc(v.node) \o v.id \o v.serial \o <<v.creation[4]>>>>} ELSE {}
    [] v.k = "port"  -> IF v.loc = <<>> /\ Take(v.id, 4) = <<0, 0, 0, 0>>
                        THEN {<<"NEW_PORT_EXT", <<89>> \o Enc(v.node) \o Drop(v.id, 4) \o v.creation>>}
                             \cup (IF Creation8(v.creation) THEN {<<"PORT_EXT", <<102>> \o Enc(v.node) \o Drop(v.id, 4) \o <<v.creation[4]>>>>} ELSE {})
                        ELSE {}
    [] v.k = "ref"   -> IF v.loc = <<>> /\ Creation8(v.creation)
                        THEN {<<"NEW_REFERENCE_EXT", <<114>> \o U16(Len(v.words)) \o Enc(v.node) \o <<v.creation[4]>> \o Concat(v.words)>>}
                             \cup (IF Len(v.words) = 1 THEN {<<"REFERENCE_EXT", <<101>> \o Enc(v.node) \o v.words[1] \o <<v.creation[4]>>>>} ELSE {})
                        ELSE {}
    \* (the arity of an export is a term of its own on the wire: a writer may use the 32-bit integer tag for it)
    [] v.k = "export" -> {<<"EXPORT_EXT arity as INTEGER_EXT", <<113>> \o Enc(v.m) \o Enc(v.f) \o <<98, 0, 0, 0, v.a>>>>}
    [] OTHER -> {}
\* LOCAL_EXT may wrap any term; for non-identifiers the wrapper carries no value
LocalWrapAlts(v) == IF v.k \in {"pid", "port", "ref"} THEN {} ELSE {<<"LOCAL_EXT wrapping a non-identifier", <<121, 1, 2, 3, 4, 5, 6, 7, 8>> \o Enc(v)>>}
\* one level below the root: exactly one child encoded by one of ITS root alternatives
ChildAlts(v) ==
  IF ~IsContainer(v) THEN {} ELSE
  LET c == Children(v)  canon == [i \in 1..Len(c) |-> Enc(c[i])] IN
  UNION { { << "child " \o ToString(i) \o ": " \o a[1], Wrap(v, [canon EXCEPT ![i] = a[2]]) >> : a \in Alts(c[i]) \cup LocalWrapAlts(c[i]) }
          : i \in 1..(IF Len(c) > 8 THEN 8 ELSE Len(c)) }
AltsDeep(v) == Alts(v) \cup LocalWrapAlts(v) \cup ChildAlts(v)
\* COMPRESSED at the top level: <<131, 80, size, zlib(Enc(v))>>
CompressedAlts(v) == {<<"COMPRESSED", <<131, 80>> \o U32(Len(d.plain)) \o d.z>> :
                        d \in {x \in Deflated : LET r == Dec(x.plain, 1) IN r[1] /\ r[3] = Len(x.plain) + 1 /\ r[2] = v}}

\* tags current OTP releases emit over distribution (C13's "modern" set)
ModernTags == {97, 98, 110, 111, 70, 119, 118, 104, 105, 106, 107, 108, 109, 77, 116, 88, 120, 90, 113, 112}
=============================================================================
