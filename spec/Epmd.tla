-------------------------------- MODULE Epmd --------------------------------
(***************************************************************************)
(* The port-mapper side of a node (beyond the listed properties; DESIGN    *)
(* §8 item 1): EpmdClient::register_node / lookup_node / list_nodes and    *)
(* the way Node::start uses them.                                          *)
(*                                                                         *)
(* Two layers.                                                             *)
(*  (1) Lease model.  A name is registered with the daemon for as long as  *)
(*      the connection on which ALIVE2_REQ was sent stays open; the daemon *)
(*      forgets the name when that connection closes.  The client's        *)
(*      register call is three steps (connect+request, response, return);  *)
(*      the switch KeepsLease says whether the connection survives the     *)
(*      return (FALSE = as coded: the stream is a local of register_node). *)
(*  (2) Wire layouts of requests and responses, a reader for the two       *)
(*      responses the client interprets, and the classes of malformed /    *)
(*      truncated / silent daemon answers with what the client must do.    *)
(***************************************************************************)
EXTENDS Integers, Sequences, FiniteSets, TLC
CONSTANTS Nodes,          \* node names in play (model values or strings)
          KeepsLease      \* protection: the registering connection is kept while the node runs
VARIABLES daemon,         \* name -> connection id holding the registration, or 0
          conns,          \* open connection ids
          pc,             \* node -> "down" | "requested" | "answered" | "running"
          myConn,         \* node -> its registering connection id (0: none)
          nextConn
vars == <<daemon, conns, pc, myConn, nextConn>>
Init == /\ daemon = [n \in Nodes |-> 0] /\ conns = {} /\ pc = [n \in Nodes |-> "down"]
        /\ myConn = [n \in Nodes |-> 0] /\ nextConn = 1
\* Node::start -> EpmdClient::register_node: connect and send ALIVE2_REQ
Request(n) == /\ pc[n] = "down" /\ pc' = [pc EXCEPT ![n] = "requested"]
              /\ conns' = conns \cup {nextConn} /\ myConn' = [myConn EXCEPT ![n] = nextConn] /\ nextConn' = nextConn + 1
              /\ UNCHANGED daemon
\* the daemon registers the name against that connection (refuses a name that is taken) and answers
Answer(n) == /\ pc[n] = "requested" /\ myConn[n] \in conns
             /\ IF daemon[n] = 0 THEN daemon' = [daemon EXCEPT ![n] = myConn[n]] /\ pc' = [pc EXCEPT ![n] = "answered"]
                                 ELSE UNCHANGED daemon /\ pc' = [pc EXCEPT ![n] = "down"]
             /\ UNCHANGED <<conns, myConn, nextConn>>
\* register_node returns the creation; what happens to the connection is the switch
Return(n) == /\ pc[n] = "answered" /\ pc' = [pc EXCEPT ![n] = "running"]
             /\ conns' = IF KeepsLease THEN conns ELSE conns \ {myConn[n]}
             /\ UNCHANGED <<daemon, myConn, nextConn>>
\* the daemon notices closed connections and forgets their names
Reap == /\ \E n \in Nodes : daemon[n] # 0 /\ daemon[n] \notin conns
        /\ daemon' = [n \in Nodes |-> IF daemon[n] \notin conns THEN 0 ELSE daemon[n]]
        /\ UNCHANGED <<conns, pc, myConn, nextConn>>
\* the node stops (or dies): its connection, if any, closes
Stop(n) == /\ pc[n] = "running" /\ pc' = [pc EXCEPT ![n] = "down"] /\ conns' = conns \ {myConn[n]}
           /\ myConn' = [myConn EXCEPT ![n] = 0] /\ UNCHANGED <<daemon, nextConn>>
Next == (\E n \in Nodes : Request(n) \/ Answer(n) \/ Return(n) \/ Stop(n)) \/ Reap
Spec == Init /\ [][Next]_vars
\* what a peer's lookup (PORT_PLEASE2_REQ) answers
Found(n) == daemon[n] # 0
\* a running node can be found once the daemon has caught up (no Reap pending)
Settled == \A n \in Nodes : daemon[n] # 0 => daemon[n] \in conns
RunningIsFindable == Settled => \A n \in Nodes : pc[n] = "running" => Found(n)
\* a stopped node is not found once the daemon has caught up
DownIsForgotten == Settled => \A n \in Nodes : (pc[n] = "down" /\ myConn[n] = 0) => ~Found(n)

\* ------------------------------------------------------------------ wire layouts
U16(n) == << n \div 256, n % 256 >>
U32(n) == << 0, 0 >> \o U16(n)              \* values below 2^16 only
AliveReq(port, ty, hi, lo, name, extra) ==
  LET body == <<120>> \o U16(port) \o <<ty, 0>> \o U16(hi) \o U16(lo) \o U16(Len(name)) \o name \o U16(Len(extra)) \o extra
  IN U16(Len(body)) \o body
PortReq(name) == U16(1 + Len(name)) \o <<122>> \o name
NamesReq == <<0, 1, 110>>
\* reader of a request (what a daemon sees): <<ok, record>>
ReadReq(b) ==
  IF Len(b) < 3 \/ (b[1] * 256) + b[2] # Len(b) - 2 THEN <<FALSE, [k |-> "bad length"]>>
  ELSE IF b[3] = 122 THEN <<TRUE, [k |-> "port", name |-> SubSeq(b, 4, Len(b))]>>
  ELSE IF b[3] = 110 /\ Len(b) = 3 THEN <<TRUE, [k |-> "names"]>>
  ELSE IF b[3] = 120 /\ Len(b) >= 15 THEN
    LET nl == (b[12] * 256) + b[13] IN
    IF Len(b) < 15 + nl THEN <<FALSE, [k |-> "short name"]>> ELSE
    LET el == (b[14 + nl] * 256) + b[15 + nl] IN
    IF Len(b) # 15 + nl + el THEN <<FALSE, [k |-> "bad extra length"]>> ELSE
    <<TRUE, [k |-> "alive", port |-> (b[4] * 256) + b[5], ty |-> b[6], proto |-> b[7], hi |-> (b[8] * 256) + b[9], lo |-> (b[10] * 256) + b[11],
             name |-> SubSeq(b, 14, 13 + nl), extra |-> SubSeq(b, 16 + nl, Len(b))]>>
  ELSE <<FALSE, [k |-> "unknown request"]>>
Port2Ok(port, ty, proto, hi, lo, name, extra) ==
  <<119, 0>> \o U16(port) \o <<ty, proto>> \o U16(hi) \o U16(lo) \o U16(Len(name)) \o name \o U16(Len(extra)) \o extra
Port2Err(code) == <<119, code>>
AliveResp(res, creation) == <<121, res>> \o U16(creation)
AliveXResp(res, creation4) == <<118, res>> \o creation4
NodeTypes == {77, 72, 104}
\* what lookup_node must make of a complete answer followed by the daemon closing the connection
LookupOutcome(b) ==
  IF Len(b) = 0 THEN "error"
  ELSE IF b[1] # 119 THEN "error"
  ELSE IF Len(b) < 2 THEN "error"
  ELSE IF b[2] # 0 THEN "not_found"
  ELSE IF Len(b) < 12 THEN "error"
  ELSE IF b[5] \notin NodeTypes \/ b[6] # 0 THEN "error"
  ELSE LET nl == (b[11] * 256) + b[12] IN
       IF nl > 255 \/ Len(b) < 14 + nl THEN "error"
       ELSE LET el == (b[13 + nl] * 256) + b[14 + nl] IN
            IF el > 4096 \/ Len(b) < 14 + nl + el THEN "error" ELSE "ok"
RegisterOutcome(b) ==
  IF Len(b) < 2 THEN "error"
  ELSE IF b[1] = 121 THEN (IF b[2] # 0 THEN "refused" ELSE IF Len(b) < 4 THEN "error" ELSE "ok")
  ELSE IF b[1] = 118 THEN (IF b[2] # 0 THEN "refused" ELSE IF Len(b) < 6 THEN "error" ELSE "ok")
  ELSE "error"
=============================================================================
