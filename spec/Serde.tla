------------------------------- MODULE Serde -------------------------------
(***************************************************************************)
(* Typed Rust values for the serde layer (property C15).  The oracle is    *)
(* the identity: from_term(to_term(v)) = v and from_bytes(to_bytes(v)) = v *)
(* (or a serialisation error, never a different value).  What this module  *)
(* contributes is the universe: per concrete type of the harness' family,  *)
(* the boundary values the property names, and their nestings.  Integers   *)
(* are decimal strings (TLC integers are 32-bit), floats are IEEE bytes.   *)
(***************************************************************************)
EXTENDS Integers, Sequences, FiniteSets, TLC
I(s) == [int |-> s]
F64(b) == [f64 |-> b]
F32(b) == [f32 |-> b]
C(cp) == [char |-> cp]
S(b) == [str |-> b]
B(x) == [bool |-> x]
NoneV == [none |-> TRUE]
Some(x) == [some |-> x]
UnitV == [unit |-> TRUE]
Seq_(xs) == [seq |-> xs]
Map_(kvs) == [map |-> kvs]
St(fs) == [struct |-> fs]                       \* sequence of <<field, value>>
Var(n, k, x) == [variant |-> n, kind |-> k, v |-> x]

I8s == {"0", "1", "-1", "127", "-128"}
I16s == {"0", "-1", "255", "256", "32767", "-32768"}
I32s == {"0", "-1", "255", "256", "2147483647", "-2147483648", "65536"}
I64s == {"0", "1", "-1", "255", "256", "2147483647", "2147483648", "-2147483648", "-2147483649", "4294967295", "4294967296", "1099511627776",
         "9007199254740993", "9223372036854775807", "-9223372036854775808", "-9223372036854775807"}
U8s == {"0", "1", "255"}
U16s == {"0", "255", "256", "65535"}
U32s == {"0", "255", "2147483647", "2147483648", "4294967295"}
U64s == {"0", "255", "2147483648", "4294967296", "9223372036854775807", "9223372036854775808", "18446744073709551615"}
F64s == {<<0,0,0,0,0,0,0,0>>, <<128,0,0,0,0,0,0,0>>, <<63,248,0,0,0,0,0,0>>, <<0,0,0,0,0,0,0,1>>, <<127,239,255,255,255,255,255,255>>, <<255,239,255,255,255,255,255,255>>,
         <<67,64,0,0,0,0,0,1>>, <<63,185,153,153,153,153,153,154>>}
\* the infinities (NaN is outside the statement); JSON cannot write them, so the float-carrying types below are materialised from their bits
F64Inf == {<<127,240,0,0,0,0,0,0>>, <<255,240,0,0,0,0,0,0>>}
F32Inf == {<<127,128,0,0>>, <<255,128,0,0>>}
F32s == {<<0,0,0,0>>, <<128,0,0,0>>, <<63,192,0,0>>, <<0,0,0,1>>, <<127,127,255,255>>, <<61,204,204,205>>}
Chars == {97, 0, 233, 8364, 128512, 1114111, 55295}
Strs == {<<>>, <<97>>, <<104, 105>>, <<195, 169>>, <<226, 130, 172, 32, 240, 159, 152, 128>>, <<117, 110, 100, 101, 102, 105, 110, 101, 100>>, <<110, 105, 108>>, <<116, 114, 117, 101>>,
         [i \in 1..300 |-> 97 + (i % 26)]}
AtomLike == {<<116,114,117,101>>, <<102,97,108,115,101>>, <<110,105,108>>, <<117,110,100,101,102,105,110,101,100>>, <<111,107>>, <<69,108,105,120,105,114,46,65>>}
SmallI64 == {"0", "-1", "4294967296", "-9223372036854775808"}
SmallStr == {<<>>, <<104, 105>>, <<195, 169>>}
Seqs(SS, n) == UNION { [1..m -> SS] : m \in 0..n }
Plain(a, b, c, d) == St(<< <<"a", I(a)>>, <<"b", S(b)>>, <<"c", c>>, <<"d", Seq_(d)>> >>)
Plains == { Plain(a, b, c, d) : a \in {"0", "9223372036854775807", "-2147483649"}, b \in {<<>>, <<195, 169>>}, c \in {NoneV, Some(I("255"))},
                               d \in {<<>>, <<I("1"), I("-2147483648")>>} }
Shapes == { Var("Unit", "unit", UnitV) } \cup { Var("Newtype", "newtype", I(x)) : x \in SmallI64 }
          \cup { Var("Tuple", "tuple", Seq_(<<I(x), S(s)>>)) : x \in {"0", "-2147483648"}, s \in SmallStr }
          \cup { Var("Struct", "struct", St(<< <<"x", I(x)>>, <<"y", F64(f)>> >>)) : x \in {"0", "18446744073709551615"}, f \in {<<63,248,0,0,0,0,0,0>>, <<128,0,0,0,0,0,0,0>>} }
\* variants whose payload is itself a tuple-shaped, list-shaped, map-shaped or atom-shaped value: every way a payload can look once serialised,
\* behind every variant shape (the serialised form of a variant is {Tag, Payload...}; what follows the tag must come back as the payload it was)
ShapesFew == { Var("Unit", "unit", UnitV), Var("Newtype", "newtype", I("4294967296")), Var("Tuple", "tuple", Seq_(<<I("-2147483648"), S(<<104, 105>>)>>)),
               Var("Struct", "struct", St(<< <<"x", I("18446744073709551615")>>, <<"y", F64(<<63,248,0,0,0,0,0,0>>)>> >>)) }
PlainFew == { Plain("0", <<>>, NoneV, <<>>), Plain("-2147483649", <<195, 169>>, Some(I("255")), <<I("1"), I("-2147483648")>>) }
Outers0 == { Var("Leaf", "unit", UnitV) }
           \cup { Var("Wrap", "newtype", x) : x \in ShapesFew }
           \cup { Var("Coords", "newtype", Seq_(<<I(a), I(b)>>)) : a \in {"3", "-9223372036854775808"}, b \in {"-4", "4294967296"} }
           \cup { Var("Single", "newtype", Seq_(<<I(a)>>)) : a \in {"0", "-1"} }
           \cup { Var("Maybe", "newtype", x) : x \in {NoneV} \cup {Some(y) : y \in ShapesFew} }
           \cup { Var("Items", "newtype", Seq_(xs)) : xs \in {<<>>, <<I("1")>>, <<I("1"), I("2")>>, <<I("104"), I("105"), I("-1")>>} }
           \cup { Var("Rec", "newtype", x) : x \in PlainFew }
           \cup { Var("Table", "newtype", m) : m \in {Map_(<<>>), Map_(<< <<S(<<107>>), I("0")>> >>), Map_(<< <<S(<<97>>), I("1")>>, <<S(<<98>>), I("-9223372036854775808")>> >>)} }
           \cup { Var("Pair", "tuple", Seq_(<<a, b>>)) : a \in ShapesFew, b \in ShapesFew }
           \cup { Var("Named", "struct", St(<< <<"inner", a>>, <<"next", NoneV>> >>)) : a \in ShapesFew }
Outers == Outers0 \cup { Var("Boxed", "newtype", x) : x \in Outers0 } \cup { Var("Boxed", "newtype", Var("Boxed", "newtype", x)) : x \in {y \in Outers0 : y.variant \in {"Leaf", "Coords", "Wrap"}} }
          \cup { Var("Named", "struct", St(<< <<"inner", Var("Unit", "unit", UnitV)>>, <<"next", Some(x)>> >>)) : x \in {y \in Outers0 : y.variant \in {"Leaf", "Coords", "Wrap", "Pair", "Named"}} }
ByType ==
  [ Outer |-> Outers,
    OptOuter |-> {NoneV} \cup {Some(x) : x \in {y \in Outers0 : y.variant \in {"Leaf", "Coords", "Wrap", "Maybe"}}},
    VecOuter |-> {Seq_(<<a, b>>) : a \in {y \in Outers0 : y.variant \in {"Leaf", "Coords", "Wrap"}}, b \in {y \in Outers0 : y.variant \in {"Leaf", "Single", "Items"}}},
    ResI64Str |-> {Var("Ok", "newtype", I(x)) : x \in SmallI64} \cup {Var("Err", "newtype", S(x)) : x \in SmallStr},
    ResTupShape |-> {Var("Ok", "newtype", Seq_(<<I("1"), I("2")>>)), Var("Ok", "newtype", Seq_(<<I("-9223372036854775808"), I("0")>>))} \cup {Var("Err", "newtype", x) : x \in ShapesFew},
    I8 |-> {I(x) : x \in I8s}, I16 |-> {I(x) : x \in I16s}, I32 |-> {I(x) : x \in I32s}, I64 |-> {I(x) : x \in I64s},
    U8 |-> {I(x) : x \in U8s}, U16 |-> {I(x) : x \in U16s}, U32 |-> {I(x) : x \in U32s}, U64 |-> {I(x) : x \in U64s},
    F32 |-> {F32(b) : b \in F32s}, F64 |-> {F64(b) : b \in F64s}, Bool |-> {B(TRUE), B(FALSE)}, Char |-> {C(c) : c \in Chars}, Str |-> {S(s) : s \in Strs},
    Unit |-> {UnitV},
    OptI64 |-> {NoneV} \cup {Some(I(x)) : x \in I64s}, OptStr |-> {NoneV} \cup {Some(S(s)) : s \in Strs}, OptU8 |-> {NoneV} \cup {Some(I(x)) : x \in U8s},
    OptBool |-> {NoneV, Some(B(TRUE)), Some(B(FALSE))}, OptChar |-> {NoneV} \cup {Some(C(c)) : c \in {97, 128512}},
    VecI64 |-> {Seq_([i \in 1..Len(xs) |-> I(xs[i])]) : xs \in Seqs(SmallI64, 2)} \cup {Seq_([i \in 1..300 |-> I("1")])},
    VecStr |-> {Seq_([i \in 1..Len(xs) |-> S(xs[i])]) : xs \in Seqs(SmallStr, 2)},
    VecU8 |-> {Seq_(<<>>), Seq_(<<I("0"), I("255")>>), Seq_([i \in 1..70 |-> I("104")])},
    VecVecI32 |-> {Seq_(<<>>), Seq_(<<Seq_(<<>>)>>), Seq_(<<Seq_(<<I("1")>>), Seq_(<<>>), Seq_(<<I("-2147483648"), I("2147483647")>>)>>)},
    VecOptI64 |-> {Seq_(<<NoneV, Some(I("4294967296")), NoneV>>), Seq_(<<Some(I("0"))>>)},
    TupI64Str |-> {Seq_(<<I(x), S(s)>>) : x \in SmallI64, s \in SmallStr},
    TupU8BoolF64 |-> {Seq_(<<I("255"), B(b), F64(f)>>) : b \in BOOLEAN, f \in {<<128,0,0,0,0,0,0,0>>, <<63,248,0,0,0,0,0,0>>}},
    MapStrI64 |-> {Map_(<<>>)} \cup {Map_(<< <<S(k), I(x)>> >>) : k \in SmallStr, x \in SmallI64} \cup {Map_(<< <<S(<<97>>), I("1")>>, <<S(<<98>>), I("-9223372036854775808")>> >>)},
    \* keys and values that look like atoms / booleans / nil in Erlang's eyes
    MapAtomish |-> {Map_(<< <<S(k), S(x)>> >>) : k \in AtomLike, x \in AtomLike} \cup {Map_(<< <<S(<<116,114,117,101>>), S(<<>>)>>, <<S(<<110,105,108>>), S(<<110,105,108>>)>>, <<S(<<102,97,108,115,101>>), S(<<116,114,117,101>>)>> >>)},
    VecAtomish |-> {Seq_(<<S(<<116,114,117,101>>), S(<<102,97,108,115,101>>), S(<<110,105,108>>), S(<<117,110,100,101,102,105,110,101,100>>), S(<<111,107>>)>>)},
    UnitStruct |-> {UnitV},
    BigStr |-> {S([i \in 1..n |-> 97 + (i % 26)]) : n \in {255, 256, 65535, 65536, 70000}},
    BigBytes |-> {Seq_([i \in 1..n |-> I("7")]) : n \in {255, 256, 65535, 65536}},
    TupI64I64 |-> {Seq_(<<I(a), I(b)>>) : a \in {"0", "-9223372036854775808"}, b \in {"1", "9223372036854775807"}},
    ArrI64x2 |-> {Seq_(<<I(a), I(b)>>) : a \in {"0", "-9223372036854775808"}, b \in {"1", "9223372036854775807"}},
    MapI64Str |-> {Map_(<<>>)} \cup {Map_(<< <<I(x), S(<<118>>)>> >>) : x \in SmallI64} \cup {Map_(<< <<I("1"), S(<<>>)>>, <<I("4294967296"), S(<<195, 169>>)>> >>)}
                  \* keys that mirror each other around zero, beyond every integer width of the wire format
                  \cup {Map_(<< <<I(x), S(<<112>>)>>, <<I("-" \o x), S(<<109>>)>> >>) : x \in {"1", "255", "2147483647", "2147483648", "3000000000", "4294967296", "1099511627776", "9223372036854775807"}},
    HMapStrU64 |-> {Map_(<< <<S(<<107>>), I(x)>> >>) : x \in U64s},
    Plain |-> Plains,
    Nested |-> {St(<< <<"inner", p>>, <<"list", Seq_(l)>>, <<"tag", t>> >>) : p \in {x \in Plains : x.struct[1][2].int = "0"}, l \in {<<>>, <<Plain("9223372036854775807", <<104>>, NoneV, <<>>)>>}, t \in Shapes},
    Shape |-> Shapes,
    VecShape |-> {Seq_(<<>>)} \cup {Seq_(<<a, b>>) : a \in {Var("Unit", "unit", UnitV), Var("Newtype", "newtype", I("4294967296"))}, b \in {Var("Tuple", "tuple", Seq_(<<I("0"), S(<<>>)>>)), Var("Unit", "unit", UnitV)}},
    \* options around values whose serialised form is empty (empty list, empty string, empty map) or atom-like (unit variant)
    OptVecI64 |-> {NoneV, Some(Seq_(<<>>)), Some(Seq_(<<I("0")>>)), Some(Seq_(<<I("4294967296"), I("-1")>>))},
    OptVecStr |-> {NoneV, Some(Seq_(<<>>)), Some(Seq_(<<S(<<>>)>>)), Some(Seq_(<<S(<<110, 105, 108>>)>>))},
    OptVecU8 |-> {NoneV, Some(Seq_(<<>>)), Some(Seq_(<<I("0")>>)), Some(Seq_(<<I("110"), I("105"), I("108")>>))},
    OptMapStrI64 |-> {NoneV, Some(Map_(<<>>)), Some(Map_(<< <<S(<<107>>), I("0")>> >>))},
    OptShape |-> {NoneV} \cup {Some(x) : x \in Shapes},
    OptTupI64Str |-> {NoneV, Some(Seq_(<<I("0"), S(<<>>)>>)), Some(Seq_(<<I("-9223372036854775808"), S(<<110, 105, 108>>)>>))},
    VecOptVecI64 |-> {Seq_(<<Some(Seq_(<<>>))>>), Seq_(<<NoneV, Some(Seq_(<<>>)), Some(Seq_(<<I("1")>>)), NoneV>>)},
    MapStrOptVecI64 |-> {Map_(<< <<S(<<97>>), Some(Seq_(<<>>))>>, <<S(<<98>>), NoneV>>, <<S(<<99>>), Some(Seq_(<<I("1")>>))>> >>)},
    TupOptVecOptStr |-> {Seq_(<<a, b>>) : a \in {NoneV, Some(Seq_(<<>>)), Some(Seq_(<<I("1")>>))}, b \in {NoneV, Some(S(<<>>)), Some(S(<<110, 105, 108>>))}},
    WithOpts |-> {St(<< <<"list", l>>, <<"text", t>>, <<"map", m>>, <<"tag", g>>, <<"bytes", y>> >>) :
                    l \in {NoneV, Some(Seq_(<<>>)), Some(Seq_(<<I("1")>>))}, t \in {NoneV, Some(S(<<>>)), Some(S(<<110, 105, 108>>))},
                    m \in {NoneV, Some(Map_(<<>>))}, g \in {NoneV, Some(Var("Unit", "unit", UnitV)), Some(Var("Newtype", "newtype", I("0")))}, y \in {NoneV, Some(Seq_(<<>>))}},
    F32B |-> {F32(b) : b \in F32s \cup F32Inf}, F64B |-> {F64(b) : b \in F64s \cup F64Inf},
    OptF32 |-> {NoneV} \cup {Some(F32(b)) : b \in F32Inf \cup {<<0,0,0,0>>, <<128,0,0,0>>, <<127,127,255,255>>}},
    VecF32 |-> {Seq_(<<>>), Seq_(<<F32(<<127,128,0,0>>), F32(<<255,128,0,0>>), F32(<<63,192,0,0>>)>>), Seq_(<<F32(<<0,0,0,1>>)>>)},
    TupF32F64 |-> {Seq_(<<F32(a), F64(b)>>) : a \in F32Inf \cup {<<61,204,204,205>>}, b \in F64Inf \cup {<<63,185,153,153,153,153,153,154>>}},
    FloatPair |-> {St(<< <<"x", F32(a)>>, <<"y", F64(b)>> >>) : a \in F32Inf \cup {<<127,127,255,255>>, <<128,0,0,0>>}, b \in F64Inf \cup {<<127,239,255,255,255,255,255,255>>}},
    OptPlain |-> {NoneV} \cup {Some(p) : p \in {x \in Plains : x.struct[2][2].str = <<>>}},
    MapStrPlain |-> {Map_(<< <<S(<<107>>), p>> >>) : p \in {x \in Plains : x.struct[2][2].str = <<>>}},
    ElixirUser |-> {St(<< <<"name", S(n)>>, <<"age", I(a)>>, <<"active", B(b)>>, <<"score", I(s)>> >>) : n \in SmallStr, a \in {"0", "-2147483648", "2147483647"}, b \in BOOLEAN,
                                                                                                         s \in {"0", "9223372036854775807", "-9223372036854775808"}} ]
TypeNames == DOMAIN ByType
=============================================================================
