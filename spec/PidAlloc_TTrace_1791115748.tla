---- MODULE PidAlloc_TTrace_1791115748 ----
EXTENDS Sequences, TLCExt, PidAlloc_TEConstants, Toolbox, Naturals, TLC, PidAlloc

_expression ==
    LET PidAlloc_TEExpression == INSTANCE PidAlloc_TEExpression
    IN PidAlloc_TEExpression!expression
----

_trace ==
    LET PidAlloc_TETrace == INSTANCE PidAlloc_TETrace
    IN PidAlloc_TETrace!trace
----

_inv ==
    ~(
        TLCGet("level") = Len(_TETrace)
        /\
        rissued = (<<<<3, 4, 5>>, <<3, 4, 5>>>>)
        /\
        ctr = (6)
        /\
        rleft = ((t1 :> 0 @@ t2 :> 1))
        /\
        rpc = ((t1 :> 0 @@ t2 :> 0))
        /\
        lser = (<<>>)
        /\
        lid = (<<>>)
        /\
        origin = (<<1, 0>>)
        /\
        nset = (0)
        /\
        epoch = (0)
        /\
        nextId = (1)
        /\
        nextSerial = (0)
        /\
        pc = (<<>>)
        /\
        left = (<<>>)
        /\
        lock = (0)
        /\
        issued = (<<>>)
        /\
        rwords = ((t1 :> <<>> @@ t2 :> <<>>))
        /\
        creation = (1)
    )
----

_init ==
    /\ epoch = _TETrace[1].epoch
    /\ origin = _TETrace[1].origin
    /\ rissued = _TETrace[1].rissued
    /\ ctr = _TETrace[1].ctr
    /\ nset = _TETrace[1].nset
    /\ pc = _TETrace[1].pc
    /\ nextId = _TETrace[1].nextId
    /\ rpc = _TETrace[1].rpc
    /\ lock = _TETrace[1].lock
    /\ issued = _TETrace[1].issued
    /\ rwords = _TETrace[1].rwords
    /\ left = _TETrace[1].left
    /\ lser = _TETrace[1].lser
    /\ nextSerial = _TETrace[1].nextSerial
    /\ creation = _TETrace[1].creation
    /\ rleft = _TETrace[1].rleft
    /\ lid = _TETrace[1].lid
----

_next ==
    /\ \E i,j \in DOMAIN _TETrace:
        /\ \/ /\ j = i + 1
              /\ i = TLCGet("level")
        /\ epoch  = _TETrace[i].epoch
        /\ epoch' = _TETrace[j].epoch
        /\ origin  = _TETrace[i].origin
        /\ origin' = _TETrace[j].origin
        /\ rissued  = _TETrace[i].rissued
        /\ rissued' = _TETrace[j].rissued
        /\ ctr  = _TETrace[i].ctr
        /\ ctr' = _TETrace[j].ctr
        /\ nset  = _TETrace[i].nset
        /\ nset' = _TETrace[j].nset
        /\ pc  = _TETrace[i].pc
        /\ pc' = _TETrace[j].pc
        /\ nextId  = _TETrace[i].nextId
        /\ nextId' = _TETrace[j].nextId
        /\ rpc  = _TETrace[i].rpc
        /\ rpc' = _TETrace[j].rpc
        /\ lock  = _TETrace[i].lock
        /\ lock' = _TETrace[j].lock
        /\ issued  = _TETrace[i].issued
        /\ issued' = _TETrace[j].issued
        /\ rwords  = _TETrace[i].rwords
        /\ rwords' = _TETrace[j].rwords
        /\ left  = _TETrace[i].left
        /\ left' = _TETrace[j].left
        /\ lser  = _TETrace[i].lser
        /\ lser' = _TETrace[j].lser
        /\ nextSerial  = _TETrace[i].nextSerial
        /\ nextSerial' = _TETrace[j].nextSerial
        /\ creation  = _TETrace[i].creation
        /\ creation' = _TETrace[j].creation
        /\ rleft  = _TETrace[i].rleft
        /\ rleft' = _TETrace[j].rleft
        /\ lid  = _TETrace[i].lid
        /\ lid' = _TETrace[j].lid

\* Uncomment the ASSUME below to write the states of the error trace
\* to the given file in Json format. Note that you can pass any tuple
\* to `JsonSerialize`. For example, a sub-sequence of _TETrace.
    \* ASSUME
    \*     LET J == INSTANCE Json
    \*         IN J!JsonSerialize("PidAlloc_TTrace_1791115748.json", _TETrace)

=============================================================================

 Note that you can extract this module `PidAlloc_TEExpression`
  to a dedicated file to reuse `expression` (the module in the 
  dedicated `PidAlloc_TEExpression.tla` file takes precedence 
  over the module `PidAlloc_TEExpression` below).

---- MODULE PidAlloc_TEExpression ----
EXTENDS Sequences, TLCExt, PidAlloc_TEConstants, Toolbox, Naturals, TLC, PidAlloc

expression == 
    [
        \* To hide variables of the `PidAlloc` spec from the error trace,
        \* remove the variables below.  The trace will be written in the order
        \* of the fields of this record.
        epoch |-> epoch
        ,origin |-> origin
        ,rissued |-> rissued
        ,ctr |-> ctr
        ,nset |-> nset
        ,pc |-> pc
        ,nextId |-> nextId
        ,rpc |-> rpc
        ,lock |-> lock
        ,issued |-> issued
        ,rwords |-> rwords
        ,left |-> left
        ,lser |-> lser
        ,nextSerial |-> nextSerial
        ,creation |-> creation
        ,rleft |-> rleft
        ,lid |-> lid
        
        \* Put additional constant-, state-, and action-level expressions here:
        \* ,_stateNumber |-> _TEPosition
        \* ,_epochUnchanged |-> epoch = epoch'
        
        \* Format the `epoch` variable as Json value.
        \* ,_epochJson |->
        \*     LET J == INSTANCE Json
        \*     IN J!ToJson(epoch)
        
        \* Lastly, you may build expressions over arbitrary sets of states by
        \* leveraging the _TETrace operator.  For example, this is how to
        \* count the number of times a spec variable changed up to the current
        \* state in the trace.
        \* ,_epochModCount |->
        \*     LET F[s \in DOMAIN _TETrace] ==
        \*         IF s = 1 THEN 0
        \*         ELSE IF _TETrace[s].epoch # _TETrace[s-1].epoch
        \*             THEN 1 + F[s-1] ELSE F[s-1]
        \*     IN F[_TEPosition - 1]
    ]

=============================================================================



Parsing and semantic processing can take forever if the trace below is long.
 In this case, it is advised to uncomment the module below to deserialize the
 trace from a generated binary file.

\*
\*---- MODULE PidAlloc_TETrace ----
\*EXTENDS IOUtils, PidAlloc_TEConstants, TLC, PidAlloc
\*
\*trace == IODeserialize("PidAlloc_TTrace_1791115748.bin", TRUE)
\*
\*=============================================================================
\*

---- MODULE PidAlloc_TETrace ----
EXTENDS PidAlloc_TEConstants, TLC, PidAlloc

trace == 
    <<
    ([rissued |-> <<>>,ctr |-> 0,rleft |-> (t1 :> 2 @@ t2 :> 2),rpc |-> (t1 :> 0 @@ t2 :> 0),lser |-> <<>>,lid |-> <<>>,origin |-> <<1, 0>>,nset |-> 0,epoch |-> 0,nextId |-> 1,nextSerial |-> 0,pc |-> <<>>,left |-> <<>>,lock |-> 0,issued |-> <<>>,rwords |-> (t1 :> <<>> @@ t2 :> <<>>),creation |-> 1]),
    ([rissued |-> <<>>,ctr |-> 1,rleft |-> (t1 :> 1 @@ t2 :> 2),rpc |-> (t1 :> 1 @@ t2 :> 0),lser |-> <<>>,lid |-> <<>>,origin |-> <<1, 0>>,nset |-> 0,epoch |-> 0,nextId |-> 1,nextSerial |-> 0,pc |-> <<>>,left |-> <<>>,lock |-> 0,issued |-> <<>>,rwords |-> (t1 :> <<0>> @@ t2 :> <<>>),creation |-> 1]),
    ([rissued |-> <<>>,ctr |-> 2,rleft |-> (t1 :> 1 @@ t2 :> 2),rpc |-> (t1 :> 2 @@ t2 :> 0),lser |-> <<>>,lid |-> <<>>,origin |-> <<1, 0>>,nset |-> 0,epoch |-> 0,nextId |-> 1,nextSerial |-> 0,pc |-> <<>>,left |-> <<>>,lock |-> 0,issued |-> <<>>,rwords |-> (t1 :> <<0, 1>> @@ t2 :> <<>>),creation |-> 1]),
    ([rissued |-> <<>>,ctr |-> 3,rleft |-> (t1 :> 1 @@ t2 :> 2),rpc |-> (t1 :> 3 @@ t2 :> 0),lser |-> <<>>,lid |-> <<>>,origin |-> <<1, 0>>,nset |-> 0,epoch |-> 0,nextId |-> 1,nextSerial |-> 0,pc |-> <<>>,left |-> <<>>,lock |-> 0,issued |-> <<>>,rwords |-> (t1 :> <<0, 1, 2>> @@ t2 :> <<>>),creation |-> 1]),
    ([rissued |-> <<>>,ctr |-> 4,rleft |-> (t1 :> 1 @@ t2 :> 1),rpc |-> (t1 :> 3 @@ t2 :> 1),lser |-> <<>>,lid |-> <<>>,origin |-> <<1, 0>>,nset |-> 0,epoch |-> 0,nextId |-> 1,nextSerial |-> 0,pc |-> <<>>,left |-> <<>>,lock |-> 0,issued |-> <<>>,rwords |-> (t1 :> <<0, 1, 2>> @@ t2 :> <<3>>),creation |-> 1]),
    ([rissued |-> <<>>,ctr |-> 5,rleft |-> (t1 :> 1 @@ t2 :> 1),rpc |-> (t1 :> 3 @@ t2 :> 2),lser |-> <<>>,lid |-> <<>>,origin |-> <<1, 0>>,nset |-> 0,epoch |-> 0,nextId |-> 1,nextSerial |-> 0,pc |-> <<>>,left |-> <<>>,lock |-> 0,issued |-> <<>>,rwords |-> (t1 :> <<0, 1, 2>> @@ t2 :> <<3, 4>>),creation |-> 1]),
    ([rissued |-> <<>>,ctr |-> 6,rleft |-> (t1 :> 1 @@ t2 :> 1),rpc |-> (t1 :> 3 @@ t2 :> 3),lser |-> <<>>,lid |-> <<>>,origin |-> <<1, 0>>,nset |-> 0,epoch |-> 0,nextId |-> 1,nextSerial |-> 0,pc |-> <<>>,left |-> <<>>,lock |-> 0,issued |-> <<>>,rwords |-> (t1 :> <<0, 1, 2>> @@ t2 :> <<3, 4, 5>>),creation |-> 1]),
    ([rissued |-> <<>>,ctr |-> 3,rleft |-> (t1 :> 1 @@ t2 :> 1),rpc |-> (t1 :> 0 @@ t2 :> 3),lser |-> <<>>,lid |-> <<>>,origin |-> <<1, 0>>,nset |-> 0,epoch |-> 0,nextId |-> 1,nextSerial |-> 0,pc |-> <<>>,left |-> <<>>,lock |-> 0,issued |-> <<>>,rwords |-> (t1 :> <<>> @@ t2 :> <<3, 4, 5>>),creation |-> 1]),
    ([rissued |-> <<>>,ctr |-> 4,rleft |-> (t1 :> 0 @@ t2 :> 1),rpc |-> (t1 :> 1 @@ t2 :> 3),lser |-> <<>>,lid |-> <<>>,origin |-> <<1, 0>>,nset |-> 0,epoch |-> 0,nextId |-> 1,nextSerial |-> 0,pc |-> <<>>,left |-> <<>>,lock |-> 0,issued |-> <<>>,rwords |-> (t1 :> <<3>> @@ t2 :> <<3, 4, 5>>),creation |-> 1]),
    ([rissued |-> <<>>,ctr |-> 5,rleft |-> (t1 :> 0 @@ t2 :> 1),rpc |-> (t1 :> 2 @@ t2 :> 3),lser |-> <<>>,lid |-> <<>>,origin |-> <<1, 0>>,nset |-> 0,epoch |-> 0,nextId |-> 1,nextSerial |-> 0,pc |-> <<>>,left |-> <<>>,lock |-> 0,issued |-> <<>>,rwords |-> (t1 :> <<3, 4>> @@ t2 :> <<3, 4, 5>>),creation |-> 1]),
    ([rissued |-> <<>>,ctr |-> 6,rleft |-> (t1 :> 0 @@ t2 :> 1),rpc |-> (t1 :> 3 @@ t2 :> 3),lser |-> <<>>,lid |-> <<>>,origin |-> <<1, 0>>,nset |-> 0,epoch |-> 0,nextId |-> 1,nextSerial |-> 0,pc |-> <<>>,left |-> <<>>,lock |-> 0,issued |-> <<>>,rwords |-> (t1 :> <<3, 4, 5>> @@ t2 :> <<3, 4, 5>>),creation |-> 1]),
    ([rissued |-> <<<<3, 4, 5>>>>,ctr |-> 6,rleft |-> (t1 :> 0 @@ t2 :> 1),rpc |-> (t1 :> 0 @@ t2 :> 3),lser |-> <<>>,lid |-> <<>>,origin |-> <<1, 0>>,nset |-> 0,epoch |-> 0,nextId |-> 1,nextSerial |-> 0,pc |-> <<>>,left |-> <<>>,lock |-> 0,issued |-> <<>>,rwords |-> (t1 :> <<>> @@ t2 :> <<3, 4, 5>>),creation |-> 1]),
    ([rissued |-> <<<<3, 4, 5>>, <<3, 4, 5>>>>,ctr |-> 6,rleft |-> (t1 :> 0 @@ t2 :> 1),rpc |-> (t1 :> 0 @@ t2 :> 0),lser |-> <<>>,lid |-> <<>>,origin |-> <<1, 0>>,nset |-> 0,epoch |-> 0,nextId |-> 1,nextSerial |-> 0,pc |-> <<>>,left |-> <<>>,lock |-> 0,issued |-> <<>>,rwords |-> (t1 :> <<>> @@ t2 :> <<>>),creation |-> 1])
    >>
----


=============================================================================

---- MODULE PidAlloc_TEConstants ----
EXTENDS PidAlloc

CONSTANTS t1, t2

=============================================================================

---- CONFIG PidAlloc_TTrace_1791115748 ----
CONSTANTS
    Creations = { 1 }
    MaxSet = 0
    GivesBackOnFailure = TRUE
    CreationRewinds = FALSE
    Threads = { }
    MaxId = 3
    SerialMod = 4
    NAlloc = 0
    StartId = 1
    StartSerial = 0
    LockEnforced = TRUE
    RefThreads = { t1 , t2 }
    NRef = 2
    StartCtr = 0
    t1 = t1
    t2 = t2

INVARIANT
    _inv

CHECK_DEADLOCK
    \* CHECK_DEADLOCK off because of PROPERTY or INVARIANT above.
    FALSE

INIT
    _init

NEXT
    _next

CONSTANT
    _TETrace <- _trace

ALIAS
    _expression
=============================================================================
\* Generated on Sun Oct 04 12:09:09 UTC 2026