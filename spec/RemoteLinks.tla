----------------------------- MODULE RemoteLinks -----------------------------
(***************************************************************************)
(* Links and monitors that cross the connection (beyond the listed         *)
(* properties; C18 speaks about local processes only).                     *)
(*                                                                         *)
(* One local process L on the node, one remote process R on the peer, one  *)
(* connection.  What the distribution protocol prescribes:                 *)
(*   - a link is symmetric whichever side asked for it (LINK in either     *)
(*     direction);                                                         *)
(*   - when a linked process terminates, the node it lives on sends        *)
(*     EXIT {3, From, To, Reason} to the other side;                       *)
(*   - when a monitored process terminates, its node sends MONITOR_P_EXIT  *)
(*     {21, From, To, Ref, Reason} to the monitoring side;                 *)
(*   - when the connection goes down, every process linked to / monitoring *)
(*     a process on the other node is told (reason noconnection).          *)
(* The switches are the node's side of this, TRUE = as the protocol has    *)
(* it; the cfg "ascoded" carries what the library does.                    *)
(***************************************************************************)
EXTENDS Integers, Sequences, FiniteSets
CONSTANTS RecordsInboundLink,     \* a LINK from the peer is recorded in the local process's link set
          RecordsInboundMonitor,  \* a MONITOR_P from the peer is recorded in the local process's monitor set
          SendsExitToRemote,      \* exit propagation of a local process reaches linked / monitoring processes on other nodes
          NotifiesOnConnDown      \* the end of a connection is turned into exit / down notices for the local side
VARIABLES up,          \* the connection is up
          lAlive,      \* the local process is alive
          lLinks,      \* the local process's link set contains R
          rBelieves,   \* the peer believes R is linked to L (it sent or received LINK)
          lMonitorsR,  \* L monitors R (MONITOR_P sent by the node)
          rMonitorsL,  \* R monitors L (MONITOR_P sent by the peer); recorded locally or not:
          lMonSet,     \* L's monitor set contains R's monitor
          toPeer,      \* control messages the node wrote: sequence of kinds
          lInbox       \* notices handed to L
vars == <<up, lAlive, lLinks, rBelieves, lMonitorsR, rMonitorsL, lMonSet, toPeer, lInbox>>
Init == /\ up = TRUE /\ lAlive = TRUE /\ lLinks = FALSE /\ rBelieves = FALSE /\ lMonitorsR = FALSE /\ rMonitorsL = FALSE /\ lMonSet = FALSE
        /\ toPeer = <<>> /\ lInbox = <<>>
\* Node::link(L, R)
LinkOut == /\ up /\ lAlive /\ ~lLinks /\ lLinks' = TRUE /\ rBelieves' = TRUE /\ toPeer' = Append(toPeer, "LINK")
           /\ UNCHANGED <<up, lAlive, lMonitorsR, rMonitorsL, lMonSet, lInbox>>
\* the peer's LINK {1, R, L} arrives
LinkIn == /\ up /\ lAlive /\ ~rBelieves /\ rBelieves' = TRUE /\ lLinks' = (lLinks \/ RecordsInboundLink)
          /\ UNCHANGED <<up, lAlive, lMonitorsR, rMonitorsL, lMonSet, toPeer, lInbox>>
\* Node::monitor(L, R)
MonitorOut == /\ up /\ lAlive /\ ~lMonitorsR /\ lMonitorsR' = TRUE /\ toPeer' = Append(toPeer, "MONITOR_P")
              /\ UNCHANGED <<up, lAlive, lLinks, rBelieves, rMonitorsL, lMonSet, lInbox>>
\* the peer's MONITOR_P {19, R, L, Ref} arrives
MonitorIn == /\ up /\ lAlive /\ ~rMonitorsL /\ rMonitorsL' = TRUE /\ lMonSet' = RecordsInboundMonitor
             /\ UNCHANGED <<up, lAlive, lLinks, rBelieves, lMonitorsR, toPeer, lInbox>>
\* the local process terminates: exit propagation
LocalExit == /\ lAlive /\ lAlive' = FALSE
             /\ toPeer' = toPeer \o (IF up /\ SendsExitToRemote /\ lLinks THEN <<"EXIT">> ELSE <<>>)
                                 \o (IF up /\ SendsExitToRemote /\ lMonSet THEN <<"MONITOR_P_EXIT">> ELSE <<>>)
             /\ UNCHANGED <<up, lLinks, rBelieves, lMonitorsR, rMonitorsL, lMonSet, lInbox>>
\* the connection goes down
ConnDown == /\ up /\ up' = FALSE
            /\ lInbox' = lInbox \o (IF lAlive /\ NotifiesOnConnDown /\ lLinks THEN <<"exit_noconnection">> ELSE <<>>)
                                \o (IF lAlive /\ NotifiesOnConnDown /\ lMonitorsR THEN <<"down_noconnection">> ELSE <<>>)
            /\ UNCHANGED <<lAlive, lLinks, rBelieves, lMonitorsR, rMonitorsL, lMonSet, toPeer>>
Next == LinkOut \/ LinkIn \/ MonitorOut \/ MonitorIn \/ LocalExit \/ ConnDown
Spec == Init /\ [][Next]_vars
Has(seq, x) == \E i \in 1..Len(seq) : seq[i] = x
\* ---- what the two sides may rely on
\* a process the peer believes linked to L hears of L's termination (while the connection is up)
PeerToldOfExit == (~lAlive /\ rBelieves /\ up) => Has(toPeer, "EXIT")
\* a process of the peer monitoring L hears of L's termination
PeerToldOfDown == (~lAlive /\ rMonitorsL /\ up) => Has(toPeer, "MONITOR_P_EXIT")
\* a live local process linked to R hears when the connection to R's node is gone
LocalToldOfLoss == (~up /\ lAlive /\ lLinks) => Has(lInbox, "exit_noconnection")
LocalMonitorToldOfLoss == (~up /\ lAlive /\ lMonitorsR) => Has(lInbox, "down_noconnection")
=============================================================================
