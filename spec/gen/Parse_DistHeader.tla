------------------------- MODULE Parse_DistHeader -------------------------
(* B1': distribution-header messages produced by the Rust encoder, read by the TLA+ reader. *)
EXTENDS DistHeader, EtfTables, Json, IOUtils
In == ndJsonDeserialize(IOEnv.IN)
Out(r) == LET d == ReadMsg(r.bytes, <<>>, r.nterms) IN [id |-> r.id, ok |-> d[1], terms |-> d[3]]
ASSUME ndJsonSerialize(IOEnv.OUT, [i \in 1..Len(In) |-> Out(In[i])])
ASSUME PrintT(<<"parsed", Len(In)>>)
VARIABLE x
Init == x = 0 /\ HInit
Next == UNCHANGED <<x, hvars>>
=============================================================================
