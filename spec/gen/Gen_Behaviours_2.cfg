SPECIFICATION Spec
CONSTANTS
  Callers = {"k1", "k2"}
  Handlers = {"h1", "h2"}
  ErrorReplyOnMissing = TRUE
  MaxOps = 2
CHECK_DEADLOCK FALSE
ACTION_CONSTRAINT Emit
