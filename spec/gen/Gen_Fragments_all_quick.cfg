SPECIFICATION Spec
CONSTANTS
  SeqIds = {1, 2}
  MaxN = 3
  MaxOps = 5
  ExpireMode = "all"
  AscendingConcat = TRUE
  DupCheck = TRUE
  RangeCheck = TRUE
  RemoveOnComplete = TRUE
CHECK_DEADLOCK FALSE
ACTION_CONSTRAINT Emit
VIEW View
