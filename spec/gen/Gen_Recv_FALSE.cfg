SPECIFICATION GSpec
CONSTANTS
  FloatTexts <- TblFloatTexts
  Deflated <- TblDeflated
  ReaderIgnoresSegment = FALSE
  AtomsInPlay = {}
  SlotsInPlay = {}
  Messages = {}
  MaxMsgs = 0
  MaxFrames = 5
  Targeted = FALSE
  HeaderMode = FALSE
ACTION_CONSTRAINT Emit
CHECK_DEADLOCK FALSE
