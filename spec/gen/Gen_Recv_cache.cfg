SPECIFICATION GSpec
CONSTANTS
  FloatTexts <- TblFloatTexts
  Deflated <- TblDeflated
  ReaderIgnoresSegment = FALSE
  AtomsInPlay = {}
  SlotsInPlay = {}
  Messages = {}
  MaxMsgs = 0
  MaxFrames = 3
  Targeted = TRUE
  HeaderMode = TRUE
ACTION_CONSTRAINT Emit
CHECK_DEADLOCK FALSE
