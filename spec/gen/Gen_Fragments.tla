--------------------------- MODULE Gen_Fragments ---------------------------
(* Edge emitter for binding B2: every transition of Fragments is printed as one JSON record  *)
(* (from-state, action, abstract return, implementation-layer return, to-state).             *)
EXTENDS Fragments, Json, SequencesExt
Sorted(S) == SetToSortSeq(S, <)
Proj(at, ag, it, is, ip, ic, ipr) ==
  [s \in SeqIds |-> [present |-> ipr[s], total |-> it[s], slots |-> Sorted(is[s]), pend |-> Sorted(ip[s]),
                     cnt |-> ic[s], atotal |-> at[s], agot |-> Sorted(ag[s])]]
Emit == PrintT(ToJson([from |-> Proj(aTotal, aGot, iTotal, iSlots, iPendingFr, iCount, iPresent),
                       act  |-> act',
                       retA |-> retA', retI |-> retI',
                       to   |-> Proj(aTotal', aGot', iTotal', iSlots', iPendingFr', iCount', iPresent')]))
=============================================================================
