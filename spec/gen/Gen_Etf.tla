------------------------------ MODULE Gen_Etf ------------------------------
(* B1 vector generator: writes the universe with canonical and alternative encodings. *)
EXTENDS EtfUniverse, EtfTables, Json, IOUtils
U == IF IOEnv.UNIVERSE = "D1" THEN D1 ELSE IF IOEnv.UNIVERSE = "IDS" THEN IdUniverse ELSE D2
Rec(v) == [v |-> v, enc |-> Encode(v),
           alts |-> IF IOEnv.ALTS = "1"
                    THEN SetToSeq({[why |-> a[1], bytes |-> <<131>> \o a[2]] : a \in AltsDeep(v)}
                                  \cup {[why |-> a[1], bytes |-> a[2]] : a \in CompressedAlts(v)})
                    ELSE <<>>]
ASSUME ndJsonSerialize(IOEnv.OUT, SetToSeq({Rec(v) : v \in U}) \o (IF IOEnv.UNIVERSE = "IDS" THEN SetToSeq(LocalAltVectors) ELSE <<>>))
TwinRecs == UNION {{[v |-> i, enc |-> Encode(i), twin |-> t, twin_enc |-> Encode(t), kind |-> "twin", map_enc |-> <<>>] : t \in Twins(i)} : i \in IdPlain \cup IdLocal}
VariantRecs == UNION {{[v |-> i, enc |-> Encode(i), twin |-> t, twin_enc |-> Encode(t), kind |-> "variant",
                        map_enc |-> Encode(VMap(CanonMap(<< <<i, SmallInt(1)>>, <<t, SmallInt(2)>> >>)))] : t \in Variants(i)} : i \in IdPlain \cup IdLocal}
ASSUME ndJsonSerialize(IOEnv.OUT_TWINS, SetToSeq(TwinRecs \cup VariantRecs))
ASSUME ndJsonSerialize(IOEnv.OUT_UNENC, SetToSeq({[v |-> v] : v \in Unencodable}))
ASSUME PrintT(<<"universe", Cardinality(U)>>)
VARIABLE x
Init == x = 0
Next == UNCHANGED x
=============================================================================
