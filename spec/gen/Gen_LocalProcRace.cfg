SPECIFICATION RSpec
CONSTANTS
  Procs = {"p1", "p2", "p3"}
  Names = {}
  Clients = {"c1"}
  MaxOps = 6
  NamesSurviveExit = FALSE
  OpKinds = {"kill", "send", "link", "unlink", "monitor", "demonitor"}
  PreSpawn = TRUE
  Sequential = FALSE
CHECK_DEADLOCK FALSE
ACTION_CONSTRAINT Coarse
ACTION_CONSTRAINT Emit
