SPECIFICATION Spec
CONSTANTS
  MaxFrames = 5



CHECK_DEADLOCK FALSE
ACTION_CONSTRAINT Emit
