------------------------ MODULE Gen_FragmentsTimed ------------------------
(* Edge emitter for binding B2 over the timed model: same record as Gen_Fragments, ages included in the states. *)
EXTENDS FragmentsTimed, Json, SequencesExt
Sorted(S) == SetToSortSeq(S, <)
Proj(at, ag, it, is, ip, ic, ipr, aa, ia) ==
  [s \in SeqIds |-> [present |-> ipr[s], total |-> it[s], slots |-> Sorted(is[s]), pend |-> Sorted(ip[s]),
                     cnt |-> ic[s], atotal |-> at[s], agot |-> Sorted(ag[s]), aage |-> aa[s], iage |-> ia[s]]]
Emit == PrintT(ToJson([from |-> Proj(aTotal, aGot, iTotal, iSlots, iPendingFr, iCount, iPresent, aAge, iAge),
                       act  |-> act',
                       retA |-> retA', retI |-> retI',
                       to   |-> Proj(aTotal', aGot', iTotal', iSlots', iPendingFr', iCount', iPresent', aAge', iAge')]))
=============================================================================
