---------------------------- MODULE Laws_Order ----------------------------
(* C11: the pairwise laws of a total preorder consistent with equality and hashing, evaluated *)
(* by TLC over the relation OBSERVED on the real term types (matrices recorded by the harness). *)
EXTENDS EtfOrder, EtfTables, Json, IOUtils
Obs == ndJsonDeserialize(IOEnv.IN)[1]
C == Obs.C
CB == Obs.CB
E == Obs.E
H == Obs.H
N == Len(C)
AllPairs == (1..N) \X (1..N)
BorrowedDisagrees == { p \in AllPairs : CB[p[1]][p[2]] # C[p[1]][p[2]] }
Report == [antisym |-> SetToSeq(AntisymViolations(C)), eqcmp |-> SetToSeq(EqCmpViolations(C, E)),
           eqhash |-> SetToSeq(EqHashViolations(E, H)), borrowed |-> SetToSeq(BorrowedDisagrees),
           refl |-> SetToSeq({i \in 1..N : C[i][i] # 0 \/ ~E[i][i]}), n |-> N]
ASSUME ndJsonSerialize(IOEnv.OUT, <<Report>>)
ASSUME PrintT(<<"laws evaluated over", N, "entries">>)
VARIABLE x
Init == x = 0
Next == UNCHANGED x
=============================================================================
