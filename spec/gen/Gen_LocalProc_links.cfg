SPECIFICATION Spec
CONSTANTS
  Procs = {"p1", "p2"}
  Names = {}
  Clients = {"c1"}
  MaxOps = 4
  NamesSurviveExit = FALSE
  OpKinds = {"kill", "link", "unlink", "monitor", "demonitor"}
  PreSpawn = TRUE
  Sequential = TRUE
CHECK_DEADLOCK FALSE
ACTION_CONSTRAINT Emit
