INIT Init
NEXT Next
