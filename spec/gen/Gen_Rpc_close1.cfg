SPECIFICATION Spec
CONSTANTS
  Callers = {1}
  ConnStates = {"up", "closing"}
  MaxReplies = 3
  LeakOnSendError = FALSE
  MatchCreation = TRUE
  OtherPeer = FALSE
  ClearOnAnyDisconnect = FALSE
  SeqCallers = FALSE
  GhostCallers = {}
  PeerMayClose = TRUE
  LeakIfGoneAtTimeout = FALSE
  RemoveOnTimeout = TRUE
CHECK_DEADLOCK FALSE
ACTION_CONSTRAINT Emit
