SPECIFICATION Spec
CONSTANTS
  MaxFrames = 2



CHECK_DEADLOCK FALSE
ACTION_CONSTRAINT Emit
