INIT Init
NEXT Next
CONSTANTS
  FloatTexts <- TblFloatTexts
  Deflated <- TblDeflated
  ReaderIgnoresSegment = FALSE
  AtomsInPlay = {}
  SlotsInPlay = {}
  Messages = {}
  MaxMsgs = 0
