---------------------------- MODULE Gen_RecvMany ----------------------------
(* C06: header frames that list as many atoms as a header can (254 / 255): all as new entries, then the same message again referring to   *)
(* them.  Bytes from the spec's writer (DistHeader!MsgBytes); one scenario per count, in the format of Gen_Recv's scenarios.              *)
EXTENDS DistHeader, Control, EtfTables, Json, IOUtils
LocN == VAtom(<<110, 49, 64, 49, 50, 55, 46, 48, 46, 48, 46, 49>>)
LP == VPid(LocN, <<0,0,0,9>>, <<0,0,0,0>>, <<0,0,0,77>>, <<>>)
E0 == VAtom(<<>>)
Msg(n) == <<VTuple(<<SmallInt(2), E0, LP>>), VTuple([i \in 1..(n - 2) |-> VAtom(<<97 + (i \div 26), 97 + (i % 26), 122>>)])>>
AtomSeq(m) == SetToSortSeq(UNION {AtomsIn(m[i]) : i \in 1..Len(m)}, LAMBDA x, y : BytesLess(x, y))
Refs(m, isNew) == LET as == AtomSeq(m) IN [i \in 1..Len(as) |-> [seg |-> 5, idx |-> i - 1, new |-> isNew, atom |-> as[i]]]
Res(m) == [k |-> "msg", kind |-> "hdr_many", control |-> m[1], payload |-> <<m[2]>>]
Scenario(n) == LET m == Msg(n) IN
  [hist |-> << <<"hdr_many", n>>, <<"hdr_many_reuse", n>> >>, header_mode |-> TRUE,
   frames |-> << [bytes |-> MsgBytes(Refs(m, TRUE), m)], [bytes |-> MsgBytes(Refs(m, FALSE), m)] >>, results |-> << Res(m), Res(m) >>]
ASSUME \A n \in {254, 255} : Len(AtomSeq(Msg(n))) = n
ASSUME ndJsonSerialize(IOEnv.OUT, << Scenario(254), Scenario(255) >>)
VARIABLE x
Init == x = 0 /\ HInit
Next == UNCHANGED <<x, hvars>>
=============================================================================
