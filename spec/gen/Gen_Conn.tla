------------------------------ MODULE Gen_Conn ------------------------------
(* C07 single-task universe: every send-side operation with argument classes and the control tuple / *)
(* payload the protocol assigns to it (from Control.tla); C06 receive scenarios are in Gen_Recv.       *)
EXTENDS Control, EtfTables, Json, IOUtils
Node1 == VAtom(<<110, 49, 64, 49, 50, 55, 46, 48, 46, 48, 46, 49>>)     \* 'n1@127.0.0.1'
PeerN == VAtom(<<112, 101, 101, 114, 64, 49, 50, 55, 46, 48, 46, 48, 46, 49>>)  \* 'peer@127.0.0.1'
LocalPid == VPid(Node1, <<0,0,0,9>>, <<0,0,0,0>>, <<0,0,0,77>>, <<>>)
Pids == { VPid(PeerN, <<0,0,0,1>>, <<0,0,0,2>>, <<0,0,0,3>>, <<>>),
          VPid(PeerN, <<255,255,255,255>>, <<0,0,0,0>>, <<1,2,3,4>>, <<>>),
          VPid(PeerN, <<0,0,0,1>>, <<0,0,0,2>>, <<0,0,0,3>>, <<9,8,7,6,5,4,3,2>>) }          \* node-local form as received from the peer
Refs == { VRef(Node1, <<0,0,0,77>>, <<<<0,0,0,1>>, <<0,0,0,2>>, <<0,0,0,3>>>>, <<>>),
          VRef(PeerN, <<0,0,0,1>>, <<<<255,255,255,255>>>>, <<1,1,1,1,1,1,1,1>>) }
\* (two-byte characters: 256 / 400 bytes but 128 / 200 characters -- header atom lengths count bytes)
Wide(n) == VAtom([j \in 1..(2 * n) |-> IF j % 2 = 1 THEN 195 ELSE 169])
NamesU == { VAtom(<<114, 101, 120>>), VAtom(<<>>), VAtom(<<195, 169>>), VAtom([i \in 1..255 |-> 97]), Wide(128) }
Payloads == { VAtom(<<111, 107>>), VNil, Wide(200), VTuple(<<Wide(128), VAtom(<<111, 107>>)>>), SmallInt(0), VInt(FALSE, <<0,0,0,128>>), VInt(TRUE, <<0,0,0,0,0,0,0,128>>), VBin(<<>>), VBin([i \in 1..300 |-> i % 256]),
              VTuple(<<VAtom(<<97>>), VList(<<SmallInt(1), VFloat(<<63,248,0,0,0,0,0,0>>)>>, VNil), VMap(<< <<VAtom(<<107>>), VBits(<<255,128>>, 1)>> >>)>>),
              VList(<<SmallInt(1)>>, SmallInt(2)), LocalPid, VTuple([i \in 1..256 |-> SmallInt(i % 256)]),
              VList([i \in 1..70 |-> VAtom(<<97 + (i % 26), 48 + (i % 10), 65 + (i \div 26)>>)], VNil) }
UnlinkIds == { <<>>, <<1>>, <<255,255,255,127>>, <<0,0,0,128>>, <<255,255,255,255,255,255,255,127>>, <<0,0,0,0,0,0,0,128>>, [i \in 1..8 |-> 255] }
Empty == VAtom(<<>>)
SendOps ==
  { [op |-> "send", a |-> LocalPid, b |-> p, c |-> m, control |-> VTuple(<<SmallInt(2), Empty, p>>), payload |-> <<m>>] : p \in Pids, m \in Payloads }
  \cup { [op |-> "send_to_name", a |-> LocalPid, b |-> n, c |-> m, control |-> VTuple(<<SmallInt(6), LocalPid, Empty, n>>), payload |-> <<m>>] : n \in NamesU, m \in Payloads }
  \cup { [op |-> "link", a |-> LocalPid, b |-> p, c |-> VNil, control |-> VTuple(<<SmallInt(1), LocalPid, p>>), payload |-> <<>>] : p \in Pids }
  \cup { [op |-> "unlink", a |-> LocalPid, b |-> p, c |-> VInt(FALSE, id), control |-> VTuple(<<SmallInt(35), VInt(FALSE, id), LocalPid, p>>), payload |-> <<>>] : p \in Pids, id \in UnlinkIds }
  \cup { [op |-> "monitor", a |-> LocalPid, b |-> p, c |-> r, control |-> VTuple(<<SmallInt(19), LocalPid, p, r>>), payload |-> <<>>] : p \in Pids, r \in Refs }
  \cup { [op |-> "demonitor", a |-> LocalPid, b |-> p, c |-> r, control |-> VTuple(<<SmallInt(20), LocalPid, p, r>>), payload |-> <<>>] : p \in Pids, r \in Refs }
ASSUME ndJsonSerialize(IOEnv.OUT, SetToSeq(SendOps))
ASSUME PrintT(<<"send operations", Cardinality(SendOps)>>)
VARIABLE x
Init == x = 0
Next == UNCHANGED x
=============================================================================
