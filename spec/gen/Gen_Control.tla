---------------------------- MODULE Gen_Control ----------------------------
EXTENDS Control, EtfTables, Json, IOUtils
ASSUME ndJsonSerialize(IOEnv.OUT, SetToSeq({[v |-> t, parses |-> Parses(t), enc |-> Encode(t)] : t \in Universe}))
ASSUME ndJsonSerialize(IOEnv.OUT_TABLE, SetToSeq({TableTuple(o) : o \in Ops}))
ASSUME PrintT(<<"control universe", Cardinality(Universe), Cardinality(Ops)>>)
\* the table itself must be a function of the tag and of the name
ASSUME \A a, b \in Ops : (a.tag = b.tag \/ a.name = b.name) => a = b
VARIABLE x
Init == x = 0
Next == UNCHANGED x
=============================================================================
