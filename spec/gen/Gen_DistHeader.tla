-------------------------- MODULE Gen_DistHeader --------------------------
(* C14: (a) encoder-side cases (values; the library encodes, the TLA+ reader parses);        *)
(*      (b) decoder-side edges of the sender/receiver state machine (bytes from the spec     *)
(*          writer, replayed on decode_with_atom_cache with a persistent cache).             *)
EXTENDS MC_DistHeader, Json, IOUtils
AtomN(i) == VAtom(<<97 + ((i \div 676) % 26), 97 + ((i \div 26) % 26), 97 + (i % 26)>>)
LongAtom(n, c) == VAtom([j \in 1..n |-> c])
\* n two-byte characters (e-acute): 2n bytes but only n characters -- lengths in the format count bytes
WideAtom(n) == VAtom([j \in 1..(2 * n) |-> IF j % 2 = 1 THEN 195 ELSE 169])
Ctl == VTuple(<<SmallInt(5)>>)
PidOf(a) == VPid(a, <<0,0,0,1>>, <<0,0,0,2>>, <<0,0,0,3>>, <<>>)
EncoderCases ==
  { [terms |-> <<Ctl, VTuple([i \in 1..n |-> AtomN(i)])>>, atoms |-> n] : n \in {0, 1, 2, 3, 4, 5, 254, 255, 256, 300} }
  \cup { [terms |-> <<VTuple(<<SmallInt(2), VAtom(<<>>), PidOf(AtomN(1))>>), MkList([i \in 1..n |-> AtomN(i)], VNil)>>, atoms |-> IF n = 0 THEN 2 ELSE n + 1] : n \in {0, 1, 2, 3, 252, 253, 254} }
  \* the limit is on the distinct atoms of control message and payload TOGETHER: a in the control message, b in the payload,
  \* the first `sh` of them shared
  \cup { [terms |-> <<VTuple([i \in 1..x[1] |-> AtomN(i)]), VTuple([i \in 1..x[2] |-> AtomN(x[1] - x[3] + i)])>>, atoms |-> x[1] + x[2] - x[3]] :
            x \in {<<128, 127, 0>>, <<128, 128, 0>>, <<6, 249, 0>>, <<6, 252, 0>>, <<255, 1, 0>>, <<1, 255, 0>>, <<254, 1, 0>>, <<200, 100, 0>>, <<255, 255, 0>>,
                    <<200, 200, 150>>, <<200, 200, 144>>, <<255, 255, 255>>, <<255, 255, 254>>} }
  \cup { [terms |-> <<Ctl, VTuple([i \in 1..n |-> IF i = pos THEN LongAtom(len, 98) ELSE AtomN(i)])>>, atoms |-> n] :
            n \in {1, 2, 3, 4, 5}, pos \in {1, 2, 5}, len \in {0, 1, 255, 256, 300} }
  \cup { [terms |-> <<VTuple(<<SmallInt(1), PidOf(AtomN(1)), PidOf(AtomN(2))>>)>>, atoms |-> 2],
         [terms |-> <<VTuple(<<SmallInt(19), PidOf(AtomN(1)), AtomN(7), VRef(AtomN(1), <<0,0,0,1>>, <<<<0,0,0,9>>>>, <<>>)>>)>>, atoms |-> 2],
         [terms |-> <<VTuple(<<SmallInt(2), VAtom(<<>>), PidOf(AtomN(1))>>),
                      VFun(1, [i \in 1..16 |-> i], <<0,0,0,1>>, AtomN(3), SmallInt(1), SmallInt(2), PidOf(AtomN(4)), <<AtomN(5), VExport(AtomN(6), AtomN(3), 2)>>)>>, atoms |-> 6],
         [terms |-> <<VTuple(<<SmallInt(2), SmallInt(1), SmallInt(2)>>), VBin(<<1, 2, 3>>)>>, atoms |-> 0],
         [terms |-> <<Ctl, VTuple(<<WideAtom(127), AtomN(1)>>)>>, atoms |-> 2],          \* 254 bytes
         [terms |-> <<Ctl, VTuple(<<WideAtom(128), AtomN(1)>>)>>, atoms |-> 2],          \* 256 bytes, 128 characters
         [terms |-> <<Ctl, VTuple(<<AtomN(1), WideAtom(200), AtomN(2)>>)>>, atoms |-> 3], \* 400 bytes, 200 characters
         [terms |-> <<Ctl, VTuple(<<WideAtom(255)>>)>>, atoms |-> 1],                     \* 510 bytes, 255 characters
         [terms |-> <<VTuple(<<SmallInt(2), VAtom(<<195, 169>>), VAtom(<<226, 130, 172>>)>>), VMap(<< <<VAtom(<<195, 169>>), LongAtom(256, 99)>> >>)>>, atoms |-> 3] }
ASSUME IOEnv.MODE # "cases" \/ ndJsonSerialize(IOEnv.OUT, SetToSeq(EncoderCases))
\* C10 across a distribution header: a node-local identifier inside a frame whose header lists atom references (for other atoms
\* of the message) must come out of decode_with_atom_cache with its opaque bytes, so that re-encoding gives the bytes received
LocH == <<9, 8, 7, 6, 5, 4, 3, 2>>
NodeA == VAtom(<<110, 64, 104>>)
LocalIds == { VPid(NodeA, <<0,0,0,1>>, <<0,0,0,2>>, <<0,0,0,3>>, LocH), VPort(NodeA, <<0,0,0,0,0,0,0,5>>, <<0,0,0,1>>, LocH),
              VRef(NodeA, <<0,0,0,1>>, <<<<0,0,0,7>>, <<0,0,0,8>>>>, LocH), VPid(NodeA, <<0,0,0,1>>, <<0,0,0,2>>, <<0,0,0,3>>, <<>>) }
OneRef == << [seg |-> 0, idx |-> 0, new |-> TRUE, atom |-> <<97, 98, 99>>] >>
LocalIdCases == { [bytes |-> MsgBytes(refs, <<Ctl, w>>), payload |-> w, payload_enc |-> Encode(w), header_refs |-> Len(refs)] :
                    refs \in {<<>>, OneRef},
                    w \in UNION { { VTuple(<<VAtom(<<97, 98, 99>>), i>>), VList(<<i, VAtom(<<97, 98, 99>>)>>, VNil), VMap(<< <<VAtom(<<97, 98, 99>>), i>> >>) } : i \in LocalIds } }
ASSUME IOEnv.MODE # "cases" \/ ndJsonSerialize(IOEnv.OUT_LOCAL, SetToSeq(LocalIdCases))
\* a long history of one conforming sender that ends up using every slot of all eight segments (2048 entries): eleven messages of 200 (the
\* last: 48) new entries each, every message also re-using entries of earlier ones, then one that only re-uses an entry of each segment
SlotAtom(k) == <<97 + (k \div 676), 97 + ((k \div 26) % 26), 97 + (k % 26)>>
SlotRef(k, isNew) == [seg |-> k \div 256, idx |-> k % 256, new |-> isNew, atom |-> SlotAtom(k)]
FillNew(m) == [i \in 1..(IF m = 11 THEN 48 ELSE 200) |-> SlotRef(((m - 1) * 200) + i - 1, TRUE)]
FillOld(m) == IF m = 1 THEN <<>> ELSE <<SlotRef(0, FALSE), SlotRef(((m - 1) * 200) - 1, FALSE), SlotRef((m - 2) * 200 + 7, FALSE)>>
FillRefs(m) == IF m = 12 THEN [g \in 1..8 |-> SlotRef(((g - 1) * 256) + 5, FALSE)] ELSE FillOld(m) \o FillNew(m)
FillTerms(m) == <<Ctl, VTuple([i \in 1..Len(FillRefs(m)) |-> VAtom(FillRefs(m)[i].atom)])>>
FillChain == [m \in 1..12 |-> [bytes |-> MsgBytes(FillRefs(m), FillTerms(m)), terms |-> FillTerms(m), n |-> m]]
ASSUME IOEnv.MODE # "cases" \/ ndJsonSerialize(IOEnv.OUT_FILL, FillChain)
Emit == PrintT(ToJson([from |-> [s |-> sCache, r |-> rCache, n |-> sent], act |-> [bytes |-> last'.bytes, nterms |-> Len(last'.terms)],
                       retA |-> last'.terms, retI |-> last'.resolved, to |-> [s |-> sCache', r |-> rCache', n |-> sent']]))
=============================================================================
