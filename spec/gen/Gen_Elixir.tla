----------------------------- MODULE Gen_Elixir -----------------------------
EXTENDS Elixir, EtfTables, Json, IOUtils
ASSUME ndJsonSerialize(IOEnv.OUT_RANGES, SetToSeq(SameBaseRanges \cup HugeStepRanges))
ASSUME ndJsonSerialize(IOEnv.OUT_CROSS, SetToSeq(CrossBaseTable))
ASSUME ndJsonSerialize(IOEnv.OUT_MUT, SetToSeq({[kind |-> m.kind, why |-> m.why, term |-> m.term, enc |-> Encode(m.term)] : m \in Mutations \cup DtMutations}))
ASSUME ndJsonSerialize(IOEnv.OUT_VALID, SetToSeq({[kind |-> m.kind, term |-> m.term, fields |-> m.fields, enc |-> Encode(m.term)] : m \in Valid \cup DtValid}))
ASSUME ndJsonSerialize(IOEnv.OUT_PROPS, SetToSeq(PropCases))
ASSUME ndJsonSerialize(IOEnv.OUT_BUILDERS, SetToSeq(BuilderCases))
ASSUME PrintT(<<"builder call sequences", Cardinality(BuilderCases)>>)
ASSUME PrintT(<<"proplists", Cardinality(PropCases)>>)
ASSUME PrintT(<<"ranges", Cardinality(SameBaseRanges), Cardinality(HugeStepRanges), "mutations", Cardinality(Mutations \cup DtMutations), "valid", Cardinality(Valid \cup DtValid)>>)
VARIABLE x
Init == x = 0
Next == UNCHANGED x
=============================================================================
