------------------------------ MODULE Gen_Rex ------------------------------
EXTENDS Rex, EtfTables, Json, IOUtils
ASSUME ndJsonSerialize(IOEnv.OUT_CALLS, SetToSeq({ [api |-> c.api, m |-> Txt(c.m), f |-> Txt(c.f), args |-> [i \in 1..Len(c.args) |-> Encode(c.args[i])], items |-> IF "items" \in DOMAIN c THEN c.items ELSE <<>>,
                                                    expected |-> Expected(c)] : c \in RawCalls \cup HelperCalls }))
ASSUME ndJsonSerialize(IOEnv.OUT_ANSWERS, SetToSeq({ [bytes |-> Encode(a.term), term |-> a.term, unwrapped |-> a.unwrapped, result |-> a.result] : a \in Answers }))
ASSUME PrintT(<<"calls", Cardinality(RawCalls \cup HelperCalls), "answers", Cardinality(Answers)>>)
VARIABLE x
Init == x = 0
Next == UNCHANGED x
=============================================================================
