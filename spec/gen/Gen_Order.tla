---------------------------- MODULE Gen_Order ----------------------------
(* TLC computes the full comparison matrix of the universe from EtfOrder!Cmp and checks that  *)
(* the specified order is itself a lawful total preorder (self-check of the spec).            *)
EXTENDS EtfOrder, EtfTables, OrderUniverse, Json, IOUtils
N == Len(OU)
Mx == [i \in 1..N |-> [j \in 1..N |-> Cmp(OU[i], OU[j])]]
Definite(c) == IF c = 2 THEN 1 ELSE c
SpecAntisym == \A i, j \in 1..N : (Mx[i][j] = 2 /\ Mx[j][i] = 2) \/ (Mx[i][j] # 2 /\ Mx[j][i] # 2 /\ Mx[i][j] = 0 - Mx[j][i])
SpecTrans == \A i, j, k \in 1..N : (Mx[i][j] \in {-1, 0} /\ Mx[j][k] \in {-1, 0}) => Mx[i][k] \in {-1, 0, 2}
SpecRefl == \A i \in 1..N : Mx[i][i] = 0
ASSUME SpecRefl \/ PrintT("SPEC ORDER NOT REFLEXIVE")
ASSUME SpecAntisym \/ PrintT(<<"SPEC ORDER NOT ANTISYMMETRIC", {<<i, j>> \in (1..N) \X (1..N) : Mx[i][j] # 2 /\ Mx[i][j] # 0 - Mx[j][i]}>>)
\* ASSUME SpecTrans \/ PrintT("SPEC ORDER NOT TRANSITIVE")
ASSUME ndJsonSerialize(IOEnv.OUT, <<[n |-> N, m |-> Mx]>>)
ASSUME PrintT(<<"order matrix", N>>)
VARIABLE x
Init == x = 0
Next == UNCHANGED x
=============================================================================
