INIT GInit
NEXT GNext
CONSTANTS
  Nodes = {}
  KeepsLease = TRUE
CHECK_DEADLOCK FALSE
