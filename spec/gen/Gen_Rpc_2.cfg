SPECIFICATION Spec
CONSTANTS
  Callers = {1, 2}
  ConnStates = {"up"}
  MaxReplies = 2
  LeakOnSendError = FALSE
  MatchCreation = TRUE
  OtherPeer = FALSE
  ClearOnAnyDisconnect = FALSE
  SeqCallers = FALSE
  GhostCallers = {}
  PeerMayClose = FALSE
  LeakIfGoneAtTimeout = FALSE
  RemoveOnTimeout = TRUE
CHECK_DEADLOCK FALSE
ACTION_CONSTRAINT Emit
