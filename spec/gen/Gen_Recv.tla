------------------------------ MODULE Gen_Recv ------------------------------
(***************************************************************************)
(* C06 receive scenarios: sequences of frames a peer may send -- messages  *)
(* in pass-through form, in distribution-header form (new cache entries,   *)
(* or references to entries of an earlier message), fragmented the way the *)
(* protocol prescribes, ticks, and malformed frames -- with the sequence   *)
(* of results the receiving API must surface: each complete message once,  *)
(* in order; one error per undecodable frame; ticks and incomplete         *)
(* fragment sequences never surface.  All bytes come from the spec's own   *)
(* writers (Etf!Encode, DistHeader!MsgBytes), never from the library.      *)
(***************************************************************************)
EXTENDS DistHeader, Control, EtfTables, Json, IOUtils
CONSTANTS MaxFrames, HeaderMode,
          Targeted     \* TRUE: only header frames that define / re-use cache entries in two segments, over three messages (exhaustive)
PeerN == VAtom(<<112, 101, 101, 114, 64, 49, 50, 55, 46, 48, 46, 48, 46, 49>>)
LocN == VAtom(<<110, 49, 64, 49, 50, 55, 46, 48, 46, 48, 46, 49>>)
RP == VPid(PeerN, <<0,0,0,1>>, <<0,0,0,2>>, <<0,0,0,3>>, <<>>)
LP == VPid(LocN, <<0,0,0,9>>, <<0,0,0,0>>, <<0,0,0,77>>, <<>>)
RR == VRef(PeerN, <<0,0,0,1>>, <<<<0,0,0,7>>, <<0,0,0,8>>>>, <<>>)
E0 == VAtom(<<>>)
Msgs == << <<VTuple(<<SmallInt(2), E0, LP>>), VAtom(<<104, 105>>)>>,
           <<VTuple(<<SmallInt(6), RP, E0, VAtom(<<114, 101, 120>>)>>), VTuple(<<VAtom(<<111, 107>>), VList(<<SmallInt(1), VAtom(<<195, 169>>)>>, VNil), VBin([i \in 1..40 |-> i])>>)>>,
           <<VTuple(<<SmallInt(1), RP, LP>>)>>,
           <<VTuple(<<SmallInt(3), RP, LP, VAtom(<<107, 105, 108, 108>>)>>)>>,
           <<VTuple(<<SmallInt(21), RP, LP, RR, VAtom(<<110, 111, 114, 109, 97, 108>>)>>)>>,
           <<VTuple(<<SmallInt(35), VInt(FALSE, <<0,0,0,0,0,0,0,128>>), RP, LP>>)>>,
           <<VTuple(<<SmallInt(22), RP, LP>>), VInt(FALSE, [i \in 1..9 |-> 7])>>,
           <<VTuple(<<SmallInt(77), SmallInt(1), VAtom(<<120>>)>>), VNil>> >>
PT(m) == <<112>> \o Encode(m[1]) \o (IF Len(m) = 2 THEN Encode(m[2]) ELSE <<>>)
\* fixed cache layout: the i-th distinct atom (in byte order) of a message lives in segment 0, index 10 + i
AtomSeq(m) == SetToSortSeq(UNION {AtomsIn(m[i]) : i \in 1..Len(m)}, LAMBDA x, y : BytesLess(x, y))
\* (kinds with suffix _s3: the same internal indices in segment 3 -- entries of different segments never alias)
RefsNewS(m, sg) == LET as == AtomSeq(m) IN [i \in 1..Len(as) |-> [seg |-> sg, idx |-> 10 + i, new |-> TRUE, atom |-> as[i]]]
RefsOldS(m, sg) == LET as == AtomSeq(m) IN [i \in 1..Len(as) |-> [seg |-> sg, idx |-> 10 + i, new |-> FALSE, atom |-> as[i]]]
RefsNew(m) == RefsNewS(m, 0)
RefsOld(m) == RefsOldS(m, 0)
HDR(m) == MsgBytes(RefsNew(m), m)
HDRReuse(m) == MsgBytes(RefsOld(m), m)
SegOf(k) == IF k \in {"hdr_s3", "hdr_reuse_s3"} THEN 3 ELSE 0
U64(n) == <<0, 0, 0, 0>> \o U32(n)
\* fragments of the header-mode message: data = everything after <<131, 68>>, cut into n pieces, ids n .. 1
Frags(m, n, sq) ==
  LET data == SubSeq(HDR(m), 3, Len(HDR(m)))
      c == (Len(data) + n - 1) \div n
      piece(i) == SubSeq(data, ((i - 1) * c) + 1, IF i * c > Len(data) THEN Len(data) ELSE i * c)
  IN [i \in 1..n |-> (IF i = 1 THEN <<131, 69>> ELSE <<131, 70>>) \o U64(sq) \o U64(n + 1 - i) \o piece(i)]
JunkKinds == {"junk_random", "junk_truncated", "junk_marker", "junk_fraghdr", "junk_badcontrol", "junk_empty_tuple", "junk_badheader"}
JunkBytes(k) ==
  CASE k = "junk_random" -> <<1, 2, 3, 4, 5>>
    [] k = "junk_truncated" -> LET b == IF HeaderMode THEN HDR(Msgs[2]) ELSE PT(Msgs[2]) IN SubSeq(b, 1, Len(b) \div 2)
    [] k = "junk_badheader" -> IF HeaderMode THEN <<131, 68, 3, 255>> ELSE <<112, 131, 68, 3, 255>>      \* announces three cache references and stops
    [] k = "junk_marker" -> <<111>> \o Encode(Msgs[1][1])
    [] k = "junk_fraghdr" -> <<131, 69>> \o U64(9) \o U64(2) \o <<5, 1, 2>>
    [] k = "junk_badcontrol" -> IF HeaderMode THEN MsgBytes(<<>>, <<VTuple(<<VBin(<<1>>), SmallInt(1)>>)>>) ELSE <<112>> \o Encode(VTuple(<<VBin(<<1>>), SmallInt(1)>>))
    [] k = "junk_empty_tuple" -> IF HeaderMode THEN MsgBytes(<<>>, <<VTuple(<<>>)>>) ELSE <<112>> \o Encode(VTuple(<<>>))
\* frag2i / frag3i: the frames of the next entry of the history travel between the last two fragments (other traffic between the fragments of a
\* sequence is what fragmentation is for); the message completes at its last fragment, after whatever the frames in between surfaced
FragKinds == {"frag2", "frag3", "frag2i", "frag3i"}
Interleaved == {"frag2i", "frag3i"}
VARIABLES hist, slots, fragSeen, nfr
gvars == <<hist, slots, fragSeen, nfr>>
GInit == hist = <<>> /\ slots = <<>> /\ fragSeen = FALSE /\ nfr = 0 /\ HInit
Kinds == IF Targeted THEN {"hdr", "hdr_reuse", "hdr_s3", "hdr_reuse_s3"}
         ELSE IF HeaderMode THEN {"hdr", "hdr_reuse", "hdr_s3", "hdr_reuse_s3", "frag2", "frag3", "frag2i", "frag3i", "tick"} ELSE {"pt", "tick"}
MsgIdx == IF Targeted THEN {1, 3, 4} ELSE 1..Len(Msgs)
DefKinds == {"hdr", "hdr_s3"}
ReuseKinds == {"hdr_reuse", "hdr_reuse_s3"}
\* the sender's view of the cache after a header frame with new entries
Defines(m, sl, sg) == FoldLeft(LAMBDA c, r : (Slot(r) :> r.atom) @@ c, sl, RefsNewS(m, sg))
Matches(m, sl, sg) == \A j \in 1..Len(RefsOldS(m, sg)) : LET r == RefsOldS(m, sg)[j] IN Slot(r) \in DOMAIN sl /\ sl[Slot(r)] = r.atom
Step(k, i) == /\ nfr < MaxFrames /\ nfr' = nfr + 1 /\ hist' = Append(hist, <<k, i>>)
              \* a reference to earlier entries needs them to be what the sender thinks they are; fragmented messages
              \* (known finding C06-fragments) are kept out of the way of cache re-use
              /\ (k \in ReuseKinds => (i > 0 /\ ~fragSeen /\ Matches(Msgs[i], slots, SegOf(k))))
              \* the header of a frame takes effect as soon as it is complete, also when the rest of the frame cannot be decoded
              \* (a truncated message still defines the cache entries its header carries); a frame without a readable header defines nothing
              /\ slots' = IF k \in DefKinds THEN Defines(Msgs[i], slots, SegOf(k))
                          ELSE IF k \in JunkKinds /\ HeaderMode /\ ReadHeader(JunkBytes(k), slots)[1] THEN ReadHeader(JunkBytes(k), slots)[2]
                          ELSE slots
              /\ fragSeen' = (fragSeen \/ k \in FragKinds)
\* (targeted histories also put an undecodable header frame between definitions and re-use: the cache must survive it)
GNext == ((\E k \in Kinds, i \in MsgIdx : Step(k, i)) \/ (\E k \in (IF Targeted THEN {"junk_truncated", "junk_badheader"} ELSE JunkKinds) : Step(k, 0))) /\ UNCHANGED hvars
GSpec == GInit /\ [][GNext]_<<gvars, hvars>>
\* frames (bytes) and surfaced results of a finished scenario
EntryFrames(h, j) == LET k == h[j][1]  i == h[j][2] IN
                  CASE k = "pt" -> <<PT(Msgs[i])>> [] k \in DefKinds -> <<MsgBytes(RefsNewS(Msgs[i], SegOf(k)), Msgs[i])>> [] k \in ReuseKinds -> <<MsgBytes(RefsOldS(Msgs[i], SegOf(k)), Msgs[i])>>
                    [] k \in {"frag2", "frag2i"} -> Frags(Msgs[i], 2, j) [] k \in {"frag3", "frag3i"} -> Frags(Msgs[i], 3, j) [] k = "tick" -> << <<>> >>
                    [] OTHER -> <<JunkBytes(k)>>
EntryResults(h, j) == LET k == h[j][1]  i == h[j][2] IN
                  IF k = "tick" THEN <<>> ELSE IF k \in JunkKinds THEN << [k |-> "err", kind |-> k] >>
                  ELSE << [k |-> "msg", kind |-> k, control |-> Msgs[i][1], payload |-> IF Len(Msgs[i]) = 2 THEN <<Msgs[i][2]>> ELSE <<>>] >>
\* lay the history out on the wire: `held` is the last fragment (and the result) of an interleaved entry waiting for the next entry's frames to pass
RECURSIVE Lay(_, _, _)
Lay(h, j, held) ==
  IF j > Len(h) THEN held
  ELSE LET own == EntryFrames(h, j)  res == EntryResults(h, j)  n == Len(own) IN
       IF h[j][1] \in Interleaved /\ j < Len(h)
       THEN LET next == Lay(h, j + 1, [frames |-> <<own[n]>>, results |-> res]) IN
            [frames |-> SubSeq(own, 1, n - 1) \o held.frames \o next.frames, results |-> held.results \o next.results]
       ELSE LET next == Lay(h, j + 1, [frames |-> <<>>, results |-> <<>>]) IN
            [frames |-> own \o held.frames \o next.frames, results |-> res \o held.results \o next.results]
FramesOf(h) == Lay(h, 1, [frames |-> <<>>, results |-> <<>>]).frames
ResultsOf(h) == Lay(h, 1, [frames |-> <<>>, results |-> <<>>]).results
Emit == (nfr' # MaxFrames) \/ PrintT(ToJson([hist |-> hist', header_mode |-> HeaderMode,
                                             frames |-> [j \in 1..Len(FramesOf(hist')) |-> [bytes |-> FramesOf(hist')[j]]], results |-> ResultsOf(hist')]))
\* spec self-check: the spec's own reader recovers every message from its pass-through and header forms
ASSUME \A i \in 1..Len(Msgs) : LET d == ReadMsg(HDR(Msgs[i]), <<>>, Len(Msgs[i])) IN d[1] /\ d[3] = Msgs[i]
=============================================================================
