----------------------------- MODULE Parse_Wire -----------------------------
(* C07: frame bodies written by the library, read by the spec: pass-through (112, control, [message]) *)
(* or distribution header mode (131, 68, ...).  One record per frame: [id, bytes].                     *)
EXTENDS DistHeader, EtfTables, Json, IOUtils
In == ndJsonDeserialize(IOEnv.IN)
PassThrough(s) ==
  IF Len(s) < 3 \/ s[1] # 112 THEN [ok |-> FALSE, terms |-> <<>>] ELSE
  LET rest == SubSeq(s, 2, Len(s))
      c == DecodeWithTrailing(rest) IN
  IF ~c[1] THEN [ok |-> FALSE, terms |-> <<>>]
  ELSE IF c[3] = Len(rest) + 1 THEN [ok |-> TRUE, terms |-> <<c[2]>>]
  ELSE LET m == Decode(SubSeq(rest, c[3], Len(rest))) IN
       IF m[1] THEN [ok |-> TRUE, terms |-> <<c[2], m[2]>>] ELSE [ok |-> FALSE, terms |-> <<c[2]>>]
Header(s) == LET d == ReadControlAndPayload(s, <<>>) IN [ok |-> d[1], terms |-> d[3]]
Read(s) == IF s # <<>> /\ s[1] = 112 THEN PassThrough(s) ELSE Header(s)
Out(r) == LET d == Read(r.bytes) IN [id |-> r.id, ok |-> d.ok, terms |-> d.terms]
ASSUME ndJsonSerialize(IOEnv.OUT, [i \in 1..Len(In) |-> Out(In[i])])
ASSUME PrintT(<<"frames read", Len(In)>>)
VARIABLE x
Init == x = 0 /\ HInit
Next == UNCHANGED <<x, hvars>>
=============================================================================
