----------------------------- MODULE Parse_Etf -----------------------------
(* B1': bytes produced by the Rust encoder are parsed by the TLA+ parser. *)
EXTENDS Etf, EtfTables, Json, IOUtils
In == ndJsonDeserialize(IOEnv.IN)
Out(r) == LET d == Decode(r.bytes) IN [id |-> r.id, ok |-> d[1], v |-> d[2]]
ASSUME ndJsonSerialize(IOEnv.OUT, [i \in 1..Len(In) |-> Out(In[i])])
ASSUME PrintT(<<"parsed", Len(In)>>)
VARIABLE x
Init == x = 0
Next == UNCHANGED x
=============================================================================
