---------------------------- MODULE Gen_Attack ----------------------------
EXTENDS EtfAttack, EtfTables, Json, IOUtils
ASSUME ndJsonSerialize(IOEnv.OUT, SetToSeq(TermAttacks \cup HeaderAttacks))
ASSUME ndJsonSerialize(IOEnv.OUT_NEST, SetToSeq(NestPositions))
ASSUME PrintT(<<"attacks", Cardinality(TermAttacks), Cardinality(HeaderAttacks), Cardinality(NestPositions)>>)
VARIABLE x
Init == x = 0
Next == UNCHANGED x
=============================================================================
