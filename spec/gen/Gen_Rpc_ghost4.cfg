SPECIFICATION Spec
CONSTANTS
  Callers = {1, 2, 3, 4}
  ConnStates = {"up"}
  MaxReplies = 1
  LeakOnSendError = FALSE
  MatchCreation = TRUE
  OtherPeer = FALSE
  ClearOnAnyDisconnect = FALSE
  SeqCallers = FALSE
  GhostCallers = {1}
  PeerMayClose = FALSE
  LeakIfGoneAtTimeout = FALSE
  RemoveOnTimeout = TRUE
CHECK_DEADLOCK FALSE
ACTION_CONSTRAINT Emit
CONSTRAINT GhostDirected
