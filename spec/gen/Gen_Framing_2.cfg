SPECIFICATION Spec
CONSTANTS
  Sent <- Sent2
  Prefix = 2
  Cap = 100
  EofYieldsShort = FALSE
  MaxPend = 2
CHECK_DEADLOCK FALSE
ACTION_CONSTRAINT Emit
