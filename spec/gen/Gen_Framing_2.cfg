SPECIFICATION Spec
CONSTANTS
  Sent <- Sent2
  Prefix = 2
  Cap = 100
  MaxGiveUps = 0
  ResumeAfterTimeout = FALSE
  EofYieldsShort = FALSE
  MaxPend = 2
CHECK_DEADLOCK FALSE
ACTION_CONSTRAINT Emit
