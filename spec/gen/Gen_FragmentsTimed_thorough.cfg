SPECIFICATION TSpec
CONSTANTS
  SeqIds = {1, 2}
  MaxN = 3
  MaxOps = 8
  ExpireMode = "none"
  AscendingConcat = TRUE
  DupCheck = TRUE
  RangeCheck = TRUE
  RemoveOnComplete = TRUE
  LateHeaderRefreshes = TRUE
CHECK_DEADLOCK FALSE
ACTION_CONSTRAINT Emit
VIEW TView
