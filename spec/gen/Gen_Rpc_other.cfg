SPECIFICATION Spec
CONSTANTS
  Callers = {1}
  ConnStates = {"up"}
  MaxReplies = 2
  LeakOnSendError = FALSE
  MatchCreation = TRUE
  OtherPeer = TRUE
  ClearOnAnyDisconnect = FALSE
  SeqCallers = FALSE
  GhostCallers = {}
  PeerMayClose = FALSE
  LeakIfGoneAtTimeout = FALSE
  RemoveOnTimeout = TRUE
CHECK_DEADLOCK FALSE
ACTION_CONSTRAINT Emit
