SPECIFICATION Spec
CONSTANTS
  Sent <- SentShort
  Prefix = 4
  Cap = 100
  MaxGiveUps = 0
  ResumeAfterTimeout = FALSE
  EofYieldsShort = FALSE
  MaxPend = 0
CHECK_DEADLOCK FALSE
ACTION_CONSTRAINT Emit
