SPECIFICATION Spec
CONSTANTS
  Sent <- SentShort
  Prefix = 4
  Cap = 100
  EofYieldsShort = FALSE
  MaxPend = 0
CHECK_DEADLOCK FALSE
ACTION_CONSTRAINT Emit
