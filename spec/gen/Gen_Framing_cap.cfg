SPECIFICATION Spec
CONSTANTS
  Sent <- SentCap
  Prefix = 2
  Cap = 3
  MaxGiveUps = 0
  ResumeAfterTimeout = FALSE
  EofYieldsShort = FALSE
  MaxPend = 1
CHECK_DEADLOCK FALSE
ACTION_CONSTRAINT Emit
