SPECIFICATION ASpec
CONSTANTS
  MaxCalls = 100
  ClearOnDisconnect = TRUE
CHECK_DEADLOCK FALSE
ACTION_CONSTRAINT Emit
VIEW PView
