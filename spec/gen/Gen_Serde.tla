----------------------------- MODULE Gen_Serde -----------------------------
EXTENDS Serde, Json, IOUtils, SequencesExt
All == UNION { {[ty |-> t, val |-> x] : x \in ByType[t]} : t \in TypeNames }
ASSUME ndJsonSerialize(IOEnv.OUT, SetToSeq(All))
ASSUME PrintT(<<"typed values", Cardinality(All), "types", Cardinality(TypeNames)>>)
VARIABLE x
Init == x = 0
Next == UNCHANGED x
=============================================================================
