SPECIFICATION Spec
CONSTANTS
  SeqIds = {1, 2}
  MaxN = 4
  MaxOps = 7
  ExpireMode = "all"
  AscendingConcat = TRUE
  DupCheck = TRUE
  RangeCheck = TRUE
  RemoveOnComplete = TRUE
CHECK_DEADLOCK FALSE
ACTION_CONSTRAINT Emit
VIEW View
