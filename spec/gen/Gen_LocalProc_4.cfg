SPECIFICATION Spec
CONSTANTS
  Procs = {"p1", "p2"}
  Names = {"n1"}
  Clients = {"c1"}
  MaxOps = 4
  NamesSurviveExit = FALSE
  Sequential = TRUE
CHECK_DEADLOCK FALSE
ACTION_CONSTRAINT Emit
