SPECIFICATION Spec
CONSTANTS
  Callers = {1}
  ConnStates = {"up", "absent", "broken"}
  MaxReplies = 3
  LeakOnSendError = FALSE
  MatchCreation = TRUE
  OtherPeer = FALSE
  ClearOnAnyDisconnect = FALSE
  SeqCallers = FALSE
  GhostCallers = {}
  PeerMayClose = FALSE
  LeakIfGoneAtTimeout = FALSE
  RemoveOnTimeout = TRUE
CHECK_DEADLOCK FALSE
ACTION_CONSTRAINT Emit
