INIT Init
NEXT Next
CONSTANTS
  FloatTexts <- TblFloatTexts
  Deflated <- TblDeflated
