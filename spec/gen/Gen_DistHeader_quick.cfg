SPECIFICATION HSpec
CONSTANTS
  FloatTexts <- TblFloatTexts
  Deflated <- TblDeflated
  AtomsInPlay <- MCAtoms
  SlotsInPlay <- MCSlots
  Messages <- MCMessages
  MaxMsgs = 3
  ReaderIgnoresSegment = FALSE


VIEW HView
ACTION_CONSTRAINT Emit
CHECK_DEADLOCK FALSE
