------------------------------ MODULE Gen_Epmd ------------------------------
(* Daemon answers for lookup_node / register_node: well-formed ones with boundary field values, every truncation of  *)
(* them, wrong tags, unknown node types / protocols, over-long name and extra lengths, refusals -- each with the      *)
(* outcome class the client must report -- and the requests the client must have written (read back by ReadReq).     *)
EXTENDS Epmd, Json, IOUtils, SequencesExt
Name1 == <<110, 49, 64, 104>>                       \* "n1@h"
NameU == <<195, 169, 64, 104>>                      \* "é@h"
Good == { Port2Ok(p, t, 0, hi, lo, nm, ex) : p \in {0, 1, 4369, 65535}, t \in NodeTypes, hi \in {6}, lo \in {5, 6}, nm \in {Name1, NameU, <<>>}, ex \in {<<>>, <<1, 2, 3>>} }
Odd == { Port2Ok(4369, 78, 0, 6, 5, Name1, <<>>), Port2Ok(4369, 77, 1, 6, 5, Name1, <<>>),
         <<119, 0>> \o U16(1) \o <<77, 0>> \o U16(6) \o U16(5) \o U16(256) \o [i \in 1..256 |-> 97] \o U16(0),
         <<119, 0>> \o U16(1) \o <<77, 0>> \o U16(6) \o U16(5) \o U16(4) \o Name1 \o U16(4097) \o [i \in 1..4097 |-> 0],
         <<119, 0>> \o U16(1) \o <<77, 0>> \o U16(6) \o U16(5) \o U16(2) \o <<255, 254>> \o U16(0),
         Port2Err(1), Port2Err(255), <<118, 0, 0, 0, 0, 1>>, <<0>>, <<>>, <<119>> }
OneGood == Port2Ok(4369, 77, 0, 6, 5, Name1, <<1, 2, 3>>)
Truncs == { SubSeq(OneGood, 1, k) : k \in 0..(Len(OneGood) - 1) }
LookupCases == { [answer |-> b, outcome |-> IF b = <<119, 0>> \o U16(1) \o <<77, 0>> \o U16(6) \o U16(5) \o U16(2) \o <<255, 254>> \o U16(0) THEN "error" ELSE LookupOutcome(b)] : b \in Good \cup Odd \cup Truncs }
RegAnswers == { AliveResp(0, 1), AliveResp(0, 65535), AliveResp(1, 0), AliveXResp(0, <<0, 0, 0, 1>>), AliveXResp(0, <<255, 255, 255, 255>>), AliveXResp(0, <<0, 1, 0, 0>>),
                AliveXResp(7, <<0, 0, 0, 0>>), <<119, 0>>, <<>>, <<121>>, <<121, 0>>, <<121, 0, 0>>, <<118, 0, 0, 0, 1>>, <<118, 0>> }
RegCases == { [answer |-> b, outcome |-> RegisterOutcome(b)] : b \in RegAnswers }
\* the requests the client is expected to write, for the parameters the harness uses
ExpectedReqs == [ port |-> PortReq(Name1), names |-> NamesReq, alive |-> AliveReq(4242, 77, 6, 5, Name1, <<9, 8>>) ]
ASSUME ReadReq(ExpectedReqs.alive)[1] /\ ReadReq(ExpectedReqs.alive)[2].name = Name1 /\ ReadReq(ExpectedReqs.alive)[2].extra = <<9, 8>> /\ ReadReq(ExpectedReqs.alive)[2].port = 4242
ASSUME ReadReq(ExpectedReqs.port)[1] /\ ReadReq(ExpectedReqs.port)[2].name = Name1
ASSUME ndJsonSerialize(IOEnv.OUT_LOOKUP, SetToSeq(LookupCases))
ASSUME ndJsonSerialize(IOEnv.OUT_REG, SetToSeq(RegCases))
ASSUME ndJsonSerialize(IOEnv.OUT_REQ, <<ExpectedReqs>>)
ASSUME PrintT(<<"lookup cases", Cardinality(LookupCases), "register cases", Cardinality(RegCases)>>)
VARIABLE x
GInit == x = 0 /\ Init
GNext == UNCHANGED <<x, vars>>
=============================================================================
