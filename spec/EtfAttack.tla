----------------------------- MODULE EtfAttack -----------------------------
(***************************************************************************)
(* Adversarial input grammar for property C02, derived from the format:    *)
(* every tag with every boundary value in its length / arity / count field *)
(* and little or no data behind it; nest templates prefix^n leaf suffix^n  *)
(* for every position through which terms nest; distribution / fragment    *)
(* headers that promise more than they carry.                              *)
(* The resource contract of C02 is stated here as well (Contract).         *)
(***************************************************************************)
EXTENDS Etf

Len4 == { <<0,0,0,0>>, <<0,0,0,1>>, <<0,0,0,255>>, <<0,0,1,0>>, <<0,0,255,255>>, <<0,1,0,0>>,
          <<0,15,66,64>>,        \* 10^6
          <<0,15,66,65>>,        \* 10^6 + 1  (map limit + 1)
          <<0,152,150,128>>,     \* 10^7
          <<0,152,150,129>>,     \* 10^7 + 1
          <<5,245,225,0>>,       \* 10^8
          <<5,245,225,1>>,       \* 10^8 + 1
          <<127,255,255,255>>, <<128,0,0,0>>, <<255,255,255,255>> }
Len2 == { <<0,0>>, <<0,1>>, <<0,255>>, <<1,0>>, <<255,255>> }
Len1 == { <<0>>, <<1>>, <<2>>, <<255>> }
\* what follows the header: nothing, one byte, one term, a few terms
Tails == { <<>>, <<0>>, <<106>>, <<97,1>>, <<97,1,97,1,97,1,106>>, <<119,1,97,97,1,97,2,106>> }
PidBytes == <<88, 119, 1, 110>> \o [i \in 1..12 |-> 0]
FunHead(size, numfree) == <<112>> \o size \o <<2>> \o [i \in 1..16 |-> i] \o <<0,0,0,1>> \o numfree \o <<119,1,109, 97,0, 97,0>> \o PidBytes

Fields ==
  { [why |-> "LARGE_TUPLE_EXT arity", b |-> <<105>> \o l \o t] : l \in Len4, t \in Tails }
  \cup { [why |-> "LIST_EXT length", b |-> <<108>> \o l \o t] : l \in Len4, t \in Tails }
  \cup { [why |-> "MAP_EXT arity", b |-> <<116>> \o l \o t] : l \in Len4, t \in Tails }
  \cup { [why |-> "BINARY_EXT length", b |-> <<109>> \o l \o t] : l \in Len4, t \in Tails }
  \cup { [why |-> "BIT_BINARY_EXT length/bits", b |-> <<77>> \o l \o <<bits>> \o t] : l \in Len4, bits \in {0, 1, 8, 9, 255}, t \in {<<>>, <<0>>, <<255, 255>>} }
  \cup { [why |-> "LARGE_BIG_EXT length", b |-> <<111>> \o l \o <<s>> \o t] : l \in Len4, s \in {0, 1, 2}, t \in {<<>>, <<0>>, <<1, 2, 3>>} }
  \cup { [why |-> "SMALL_BIG_EXT length", b |-> <<110>> \o l \o <<s>> \o t] : l \in Len1, s \in {0, 1, 255}, t \in {<<>>, <<0>>, <<1, 2, 3>>} }
  \cup { [why |-> "NEW_FUN_EXT size/numfree", b |-> FunHead(sz, nf) \o t] : sz \in Len4, nf \in Len4, t \in {<<>>, <<97, 1>>, <<106>>} }
  \cup { [why |-> "COMPRESSED declared size", b |-> <<80>> \o l \o t] : l \in Len4, t \in {<<>>, <<120, 156>>, <<120, 156, 75, 100, 0, 0>>} }
  \cup { [why |-> "STRING_EXT length", b |-> <<107>> \o l \o t] : l \in Len2, t \in Tails }
  \cup { [why |-> "ATOM_UTF8_EXT length", b |-> <<118>> \o l \o t] : l \in Len2, t \in {<<>>, <<97>>, <<255>>, <<195>>} }
  \cup { [why |-> "ATOM_EXT length", b |-> <<100>> \o l \o t] : l \in Len2, t \in {<<>>, <<97>>, <<255>>} }
  \cup { [why |-> "SMALL_ATOM_UTF8_EXT length", b |-> <<119>> \o l \o t] : l \in Len1, t \in {<<>>, <<97>>, <<255>>, <<237, 160, 128>>} }
  \cup { [why |-> "SMALL_ATOM_EXT length", b |-> <<115>> \o l \o t] : l \in Len1, t \in {<<>>, <<97>>, <<255>>} }
  \cup { [why |-> "SMALL_TUPLE_EXT arity", b |-> <<104>> \o l \o t] : l \in Len1, t \in Tails }
  \cup { [why |-> "NEWER_REFERENCE_EXT length", b |-> <<90>> \o l \o <<119, 1, 110>> \o t] : l \in Len2, t \in {<<>>, <<0,0,0,1>>, <<0,0,0,1,0,0,0,2>>} }
  \cup { [why |-> "NEW_REFERENCE_EXT length", b |-> <<114>> \o l \o <<119, 1, 110>> \o t] : l \in Len2, t \in {<<>>, <<1>>, <<1,0,0,0,2>>} }
  \cup { [why |-> "identifier with non-atom node", b |-> <<tag>> \o t] : tag \in {88, 89, 120, 102, 103, 101}, t \in {<<>>, <<97, 1>>, <<106>>, <<104, 0>>} }
  \cup { [why |-> "EXPORT_EXT with bad parts", b |-> <<113>> \o t] : t \in {<<>>, <<97, 1>>, <<119,1,109>>, <<119,1,109,119,1,102>>, <<119,1,109,119,1,102,98,0,0,1,0>>, <<119,1,109,119,1,102,110,1,0,5>>} }
  \cup { [why |-> "ATOM_CACHE_REF without header", b |-> <<82, i>>] : i \in {0, 1, 255} }
  \cup { [why |-> "FLOAT_EXT text", b |-> <<99>> \o t] : t \in {<<>>, [i \in 1..31 |-> 0], [i \in 1..31 |-> 255], [i \in 1..31 |-> 57], <<105,110,102>> \o [i \in 1..28 |-> 0], <<110,97,110>> \o [i \in 1..28 |-> 0]} }
  \cup { [why |-> "unknown tag", b |-> <<tag>> \o t] : tag \in {0, 1, 68, 69, 71, 78, 79, 81, 83, 117, 122, 130, 131, 255}, t \in {<<>>, <<0>>} }
\* the same field attacks one level down (inside a tuple and as a list tail)
Nested(f) == { [why |-> f.why \o " (in tuple)", b |-> <<104, 2, 97, 1>> \o f.b], [why |-> f.why \o " (as list tail)", b |-> <<108, 0, 0, 0, 1, 97, 1>> \o f.b],
               [why |-> f.why \o " (as map value)", b |-> <<116, 0, 0, 0, 1, 97, 1>> \o f.b] }
TermAttacks == { [why |-> f.why, bytes |-> <<131>> \o f.b] : f \in Fields }
                \cup { [why |-> g.why, bytes |-> <<131>> \o g.b] : g \in UNION { Nested(f) : f \in {x \in Fields : Len(x.b) <= 12} } }

\* distribution header / fragment header attacks: counts that promise more than follows
Seq8 == { [i \in 1..8 |-> 0], [i \in 1..8 |-> 255], <<0,0,0,0,0,0,0,1>> }
HeaderAttacks ==
  { [why |-> "DIST_HEADER refs > data", bytes |-> <<131, 68, n>> \o t] : n \in {0, 1, 2, 3, 255}, t \in {<<>>, <<0>>, <<8, 0, 1, 97>>, <<8, 0, 255>>, <<9, 0, 0, 200>>, <<136, 8, 0, 1, 97, 1, 1, 98, 104, 2, 82, 0, 82, 1>>} }
  \cup { [why |-> "DIST_FRAG_HEADER refs > data", bytes |-> <<131, 69>> \o s \o f \o <<n>> \o t] : s \in Seq8, f \in Seq8, n \in {0, 1, 2, 255}, t \in {<<>>, <<0>>, <<8, 0, 1, 97>>} }
  \cup { [why |-> "DIST_FRAG_CONT short", bytes |-> <<131, 70>> \o t] : t \in {<<>>, [i \in 1..8 |-> 0], [i \in 1..15 |-> 1], [i \in 1..16 |-> 255], [i \in 1..17 |-> 0]} }
  \cup { [why |-> "fragment header truncated", bytes |-> Take(<<131, 69>> \o [i \in 1..17 |-> i], k)] : k \in 0..19 }

\* nest templates: prefix^times \o leaf \o suffix^times  (expanded by the harness)
NestPositions ==
  { [why |-> "list element", prefix |-> <<108,0,0,0,1>>, leaf |-> <<106>>, suffix |-> <<106>>],
    [why |-> "list tail", prefix |-> <<108,0,0,0,1,97,1>>, leaf |-> <<106>>, suffix |-> <<>>],
    [why |-> "small tuple", prefix |-> <<104,1>>, leaf |-> <<104,0>>, suffix |-> <<>>],
    [why |-> "large tuple", prefix |-> <<105,0,0,0,1>>, leaf |-> <<106>>, suffix |-> <<>>],
    [why |-> "map key", prefix |-> <<116,0,0,0,1>>, leaf |-> <<106>>, suffix |-> <<97,1>>],
    [why |-> "map value", prefix |-> <<116,0,0,0,1,97,1>>, leaf |-> <<106>>, suffix |-> <<>>],
    [why |-> "LOCAL_EXT", prefix |-> <<121,1,2,3,4,5,6,7,8>>, leaf |-> <<106>>, suffix |-> <<>>],
    [why |-> "fun environment", prefix |-> FunHead(<<0,0,0,0>>, <<0,0,0,1>>), leaf |-> <<106>>, suffix |-> <<>>],
    [why |-> "pid node", prefix |-> <<88>>, leaf |-> <<119,1,110>>, suffix |-> [i \in 1..12 |-> 0]],
    [why |-> "port node", prefix |-> <<120>>, leaf |-> <<119,1,110>>, suffix |-> [i \in 1..12 |-> 0]],
    [why |-> "reference node", prefix |-> <<90,0,0>>, leaf |-> <<119,1,110>>, suffix |-> <<0,0,0,1>>],
    [why |-> "legacy pid node", prefix |-> <<103>>, leaf |-> <<119,1,110>>, suffix |-> [i \in 1..9 |-> 0]],
    [why |-> "export module", prefix |-> <<113>>, leaf |-> <<119,1,109>>, suffix |-> <<119,1,102,97,0>>],
    [why |-> "fun module", prefix |-> Take(FunHead(<<0,0,0,0>>, <<0,0,0,0>>), 30), leaf |-> <<119,1,109>>, suffix |-> <<97,0,97,0>> \o PidBytes] }

\* ---- the contract of C02 as the check evaluates it on every observation
\* kind \in {"ok","err"}: never "panic", never a crashed process; the largest single allocation
\* request is proportionate to the input plus what compressed sections really inflate to, and
\* inflation never exceeds what the input declares.
Contract(kind, largest, len, inflated, declared) ==
  /\ kind \in {"ok", "err"}
  /\ largest <= (256 * (len + inflated)) + 65536
  /\ inflated <= declared
=============================================================================
