SPECIFICATION TraceSpec
CONSTANTS
  Creations = {1}
  MaxSet = 1000000
  GivesBackOnFailure = FALSE
  CreationRewinds = FALSE
  Threads = {1, 2, 3, 4}
  RefThreads = {1, 2, 3, 4}
  MaxId = 1048576
  SerialMod = 1073741824
  NAlloc = 1000000
  NRef = 1000000
  StartId = 1
  StartSerial = 0
  StartCtr = 0
  Observed = FALSE
  StaleReads = FALSE
  LockEnforced = TRUE
INVARIANT Unique
INVARIANT NoReissue
INVARIANT IssuedIsSequence
INVARIANT CreationInForce
INVARIANT RefUnique
POSTCONDITION TraceAccepted
CHECK_DEADLOCK FALSE
