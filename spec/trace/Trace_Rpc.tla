------------------------------ MODULE Trace_Rpc ------------------------------
(* B3 for C17: executions of free-running concurrent remote calls on a real Node (no forced schedule), recorded at the guarded     *)
(* points of rpc_call_raw_with_timeout and of the receiver task plus the scripted peer's writes and the callers' returns, are       *)
(* behaviours of Rpc; OwnReplyOnly, AtMostOnce and NothingLeft hold in every state of them.                                         *)
(* The receiver's routing is not atomic with either of its two log points (frame read / routed), so it is an internal step of the   *)
(* trace spec that may happen anywhere between them.                                                                                *)
EXTENDS Rpc, Json, IOUtils, TLCExt
Rec == ndJsonDeserialize(IOEnv.TRACE)
VARIABLES l,        \* next trace line
          routing   \* 0: receiver between frames; 1: a frame has been read, not routed yet; 2: routed, "routed" not logged yet
tvars == <<vars, l, routing>>
TraceInit == Init /\ l = 1 /\ routing = 0
IsEvent(e) == l <= Len(Rec) /\ Rec[l].ev = e /\ l' = l + 1
C == Rec[l].c
TAlloc == IsEvent("allocated") /\ Alloc(C) /\ rid'[C] = Rec[l].rid /\ UNCHANGED routing
TInsert == IsEvent("inserted") /\ Insert(C) /\ UNCHANGED routing
TSend == IsEvent("sent") /\ SendOk(C) /\ UNCHANGED routing
TTimeout == IsEvent("timed_out") /\ Timeout(C) /\ UNCHANGED routing
TReturn == /\ IsEvent("return") /\ UNCHANGED routing
           /\ CASE Rec[l].kind = "ok" -> GotReply(C) /\ result[C].k = "reply" /\ result[C].r = Rec[l].got
                [] Rec[l].kind = "timeout" -> Cleanup(C)
                [] OTHER -> FALSE
TPeerReply == IsEvent("peer_reply") /\ PeerReply(Rec[l].to) /\ UNCHANGED routing
TFrame == IsEvent("rx_frame") /\ routing = 0 /\ routing' = 1 /\ inbox # <<>> /\ UNCHANGED vars
SilentRoute == routing = 1 /\ Route /\ routing' = 2 /\ UNCHANGED l
TRouted == IsEvent("rx_routed") /\ routing = 2 /\ routing' = 0 /\ UNCHANGED vars
TraceNext == (TAlloc \/ TInsert \/ TSend \/ TTimeout \/ TReturn \/ TPeerReply \/ TFrame \/ SilentRoute \/ TRouted) /\ UNCHANGED otherUp
TraceSpec == TraceInit /\ [][TraceNext]_tvars
\* reaching the end of the trace is reported by TLC as a violation of this "invariant": that is the acceptance signal
NotFinished == l <= Len(Rec)
\* for the report when the trace is rejected: the furthest line explained (register 1; single worker)
ASSUME TLCSet(1, 0)
Progress == TLCSet(1, IF TLCGet(1) < l THEN l ELSE TLCGet(1))
Furthest == PrintT(<<"FURTHEST LINE EXPLAINED", TLCGet(1) - 1, IF TLCGet(1) <= Len(Rec) THEN Rec[TLCGet(1)] ELSE "end">>)
=============================================================================
