SPECIFICATION TraceSpec
CONSTANTS
  Callers = {1, 2, 3, 4, 5, 6, 7, 8, 9, 10, 11, 12, 13, 14, 15, 16}
  ConnStates = {"up"}
  MaxReplies = 1000
  LeakOnSendError = FALSE
  MatchCreation = TRUE
  OtherPeer = FALSE
  ClearOnAnyDisconnect = FALSE
  SeqCallers = FALSE
  GhostCallers = {}
  PeerMayClose = FALSE
  LeakIfGoneAtTimeout = FALSE
  RemoveOnTimeout = TRUE
INVARIANT OwnReplyOnly
INVARIANT AtMostOnce
INVARIANT NothingLeft
INVARIANT NotFinished
CONSTRAINT Progress
POSTCONDITION Furthest
CHECK_DEADLOCK FALSE
