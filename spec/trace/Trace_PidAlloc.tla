--------------------------- MODULE Trace_PidAlloc ---------------------------
(* B3: a trace recorded from the real PidAllocator / Node::make_reference under the thread     *)
(* scheduler is a behaviour of PidAlloc (one spec action per recorded event, logged values     *)
(* bound to the spec's variables), and C16's invariants hold in every state of it.             *)
EXTENDS PidAlloc, Json, IOUtils, TLCExt
CONSTANT Observed     \* TRUE: nothing but the calls and what they returned is bound (the weakest reading of a trace: the invariants then speak about the observed results only)
CONSTANT StaleReads   \* TRUE: the named deviation "a thread may work with a value of the counters that is not the current one" (values taken from the log)
Rec == ndJsonDeserialize(IOEnv.TRACE)
VARIABLE l
tvars == <<vars, l>>
TraceInit == Init /\ l = 1
IsEvent(e) == l <= Len(Rec) /\ Rec[l].ev = e /\ l' = l + 1
T == Rec[l].t
Reset == /\ IsEvent("reset")
         /\ nextId' = Rec[l].id /\ nextSerial' = Rec[l].serial /\ creation' = Rec[l].creation /\ lock' = None
         /\ pc' = [t \in Threads |-> "idle"] /\ lid' = [t \in Threads |-> 0] /\ lser' = [t \in Threads |-> 0]
         /\ left' = [t \in Threads |-> NAlloc] /\ issued' = <<>>
         /\ ctr' = Rec[l].ctr /\ rpc' = [t \in RefThreads |-> 0] /\ rwords' = [t \in RefThreads |-> <<>>]
         /\ rleft' = [t \in RefThreads |-> NRef] /\ rissued' = <<>>
         /\ origin' = <<Rec[l].id, Rec[l].serial>> /\ nset' = 0 /\ epoch' = 0
TCall == IsEvent("call") /\ Call(T)
TLocked == IsEvent("locked") /\ Acquire(T)
TLoadId == /\ IsEvent("loaded_id")
           /\ IF StaleReads THEN /\ Go(T, "locked", "loaded_id") /\ lid' = [lid EXCEPT ![T] = Rec[l].id]
                                 /\ UNCHANGED <<nextId, nextSerial, creation, lock, lser, left, issued, rvars>>
                            ELSE LoadId(T) /\ lid'[T] = Rec[l].id
TLoadSer == /\ IsEvent("loaded_serial")
            /\ IF StaleReads THEN /\ Go(T, "loaded_id", "loaded_ser") /\ lser' = [lser EXCEPT ![T] = Rec[l].serial]
                                  /\ UNCHANGED <<nextId, nextSerial, creation, lock, lid, left, issued, rvars>>
                             ELSE LoadSer(T) /\ lser'[T] = Rec[l].serial
TStoreOne == IsEvent("stored_one") /\ StoreOne(T)
TFetchAdd == IsEvent("bumped_serial") /\ FetchAdd(T) /\ nextSerial' % SerialMod = Rec[l].serial
TStoreNext == IsEvent("stored_next") /\ StoreNext(T) /\ nextId' = Rec[l].next
TReturn == IsEvent("return") /\ Return(T) /\ issued'[Len(issued')] = <<Rec[l].id, Rec[l].serial, Rec[l].creation>>
\* the thread found the mutex taken: the spec agrees that somebody else holds it
TBlocked == IsEvent("blocked") /\ pc[T] = "probe" /\ (LockEnforced => lock \notin {None, T}) /\ UNCHANGED vars
\* set_creation (made by the driver while no allocation is in progress); the counters read back after the call are logged
TSetCreation == IsEvent("set_creation") /\ SetCreation(Rec[l].creation) /\ nextId' = Rec[l].id /\ nextSerial' = Rec[l].serial
OSetCreation == /\ IsEvent("set_creation") /\ creation' = Rec[l].creation /\ nset' = nset + 1 /\ epoch' = Len(issued)
                /\ nextId' = Rec[l].id /\ nextSerial' = Rec[l].serial /\ origin' = <<Rec[l].id, Rec[l].serial>>
                /\ UNCHANGED <<lock, pc, lid, lser, left, issued, rvars>>
TRefCall == IsEvent("ref_call") /\ UNCHANGED vars
TRefWord == IsEvent("ref_word") /\ RefWord(T) /\ ctr = Rec[l].w
TRefReturn == IsEvent("ref_return") /\ RefReturn(T)
\* observed level: a call makes the thread busy, a return appends what was returned; every other event is accepted as it is
OCall == IsEvent("call") /\ pc' = [pc EXCEPT ![T] = "probe"] /\ UNCHANGED <<nextId, nextSerial, creation, lock, lid, lser, left, issued, rvars>>
OReturn == IsEvent("return") /\ pc' = [pc EXCEPT ![T] = "idle"] /\ issued' = Append(issued, <<Rec[l].id, Rec[l].serial, Rec[l].creation>>)
           /\ UNCHANGED <<nextId, nextSerial, creation, lock, lid, lser, left, rvars>>
OOther == l <= Len(Rec) /\ Rec[l].ev \notin {"reset", "call", "return", "set_creation"} /\ l' = l + 1 /\ UNCHANGED vars
ObservedNext == Reset \/ OSetCreation \/ ((OCall \/ OReturn \/ OOther) /\ UNCHANGED <<origin, nset, epoch>>)
StrictNext == Reset \/ TSetCreation \/ ((TCall \/ TLocked \/ TLoadId \/ TLoadSer \/ TStoreOne \/ TFetchAdd \/ TStoreNext \/ TReturn \/ TBlocked
                         \/ TRefCall \/ TRefWord \/ TRefReturn) /\ UNCHANGED <<origin, nset, epoch>>)
TraceNext == IF Observed THEN ObservedNext ELSE StrictNext
TraceSpec == TraceInit /\ [][TraceNext]_tvars
TraceAccepted == LET d == TLCGet("stats").diameter IN
                 IF d - 1 = Len(Rec) THEN TRUE
                 ELSE Print(<<"TRACE REJECTED at event", d, IF d <= Len(Rec) THEN Rec[d] ELSE "end">>, FALSE)
=============================================================================
