---------------------------- MODULE PidAllocInd ----------------------------
(***************************************************************************)
(* Unbounded safety of the pid allocator (property C16) by an inductive    *)
(* invariant, discharged by Apalache: for any number of allocations, any   *)
(* MaxId >= 2 and any interleaving of the Threads, no two issued           *)
(* identifiers coincide.  Same actions as spec/PidAlloc.tla (one per       *)
(* atomic step, mutex enforced), with `issued` as a set, the serial as an  *)
(* unbounded counter (the 32-bit reduction is outside this argument:       *)
(* PidAlloc!Bounded) and the origin fixed at <<1, 0>>.                     *)
(*                                                                         *)
(* Idea of the invariant.  Give an identifier <<id, ser>> its trip         *)
(* cyc = ser (ser - 1 for id = MaxId, which already carries the next       *)
(* count).  Everything issued lies strictly before the frontier            *)
(* <<nextSerial, nextId>> in the order (trip, number); the identifier a    *)
(* thread is about to return sits exactly at the position just before the  *)
(* frontier and is not yet in `issued`.                                    *)
(***************************************************************************)
EXTENDS Integers, FiniteSets, Apalache
CONSTANTS
  \* @type: Int;
  MaxId
VARIABLES
  \* @type: Int;
  nextId,
  \* @type: Int;
  nextSerial,
  \* @type: Int;
  lock,
  \* @type: Int -> Str;
  pc,
  \* @type: Int -> Int;
  lid,
  \* @type: Int -> Int;
  lser,
  \* @type: Set(<<Int, Int>>);
  issued
Threads == {1, 2, 3}
None == 0
ConstInit == MaxId \in 2..1048576
Init == /\ nextId = 1 /\ nextSerial = 0 /\ lock = None
        /\ pc = [t \in Threads |-> "idle"] /\ lid = [t \in Threads |-> 0] /\ lser = [t \in Threads |-> 0]
        /\ issued = {}
Go(t, from, to) == pc[t] = from /\ pc' = [pc EXCEPT ![t] = to]
Acquire(t) == Go(t, "idle", "locked") /\ lock = None /\ lock' = t /\ UNCHANGED <<nextId, nextSerial, lid, lser, issued>>
LoadId(t) == Go(t, "locked", "loaded_id") /\ lid' = [lid EXCEPT ![t] = nextId] /\ UNCHANGED <<nextId, nextSerial, lock, lser, issued>>
LoadSer(t) == Go(t, "loaded_id", "loaded_ser") /\ lser' = [lser EXCEPT ![t] = nextSerial] /\ UNCHANGED <<nextId, nextSerial, lock, lid, issued>>
StoreOne(t) == Go(t, "loaded_ser", "stored_one") /\ lid[t] >= MaxId /\ nextId' = 1 /\ UNCHANGED <<nextSerial, lock, lid, lser, issued>>
FetchAdd(t) == Go(t, "stored_one", "ret") /\ nextSerial' = nextSerial + 1 /\ lser' = [lser EXCEPT ![t] = nextSerial + 1] /\ UNCHANGED <<nextId, lock, lid, issued>>
StoreNext(t) == Go(t, "loaded_ser", "ret") /\ lid[t] < MaxId /\ nextId' = lid[t] + 1 /\ UNCHANGED <<nextSerial, lock, lid, lser, issued>>
Return(t) == Go(t, "ret", "idle") /\ issued' = issued \union {<<lid[t], lser[t]>>} /\ lock' = None /\ UNCHANGED <<nextId, nextSerial, lid, lser>>
Next == \E t \in Threads : Acquire(t) \/ LoadId(t) \/ LoadSer(t) \/ StoreOne(t) \/ FetchAdd(t) \/ StoreNext(t) \/ Return(t)

\* ---- the property
Unique == \A p \in issued : \A q \in issued : (p[1] = q[1] /\ p[2] = q[2]) => p = q      \* trivially true for a set of pairs; the content is NoReturnOfIssued:
\* what a thread is about to return has not been issued before (so Return never re-issues)
NoReturnOfIssued == \A t \in Threads : pc[t] = "ret" => <<lid[t], lser[t]>> \notin issued

\* ---- inductive invariant
Pcs == {"idle", "locked", "loaded_id", "loaded_ser", "stored_one", "ret"}
Cyc(id, ser) == IF id = MaxId THEN ser - 1 ELSE ser
\* <<c, i>> strictly before <<fc, fi>> in (trip, number) order
Before(c, i, fc, fi) == c < fc \/ (c = fc /\ i < fi)
Holder == lock
InFlight(t) == pc[t] # "idle"
\* the frontier: position of the next identifier to be handed out, as the counters will show it once the in-flight stores are done
FSer == IF \E t \in Threads : pc[t] = "stored_one" THEN nextSerial + 1 ELSE nextSerial
FId == nextId
IndInv ==
  /\ MaxId >= 2
  /\ nextId \in 1..MaxId /\ nextSerial >= 0 /\ lock \in Threads \union {None}
  /\ \A t \in Threads : pc[t] \in Pcs
  \* mutual exclusion: exactly the lock holder is in flight
  /\ \A t \in Threads : InFlight(t) <=> lock = t
  \* what the in-flight thread has loaded
  /\ \A t \in Threads :
       /\ pc[t] \in {"loaded_id", "loaded_ser"} => lid[t] = nextId
       /\ pc[t] = "loaded_ser" => lser[t] = nextSerial
       /\ pc[t] = "stored_one" => (lid[t] = MaxId /\ lser[t] = nextSerial /\ nextId = 1)
       /\ pc[t] = "ret" => /\ lid[t] \in 1..MaxId /\ Cyc(lid[t], lser[t]) >= 0
                           /\ (lid[t] < MaxId => (nextId = lid[t] + 1 /\ lser[t] = nextSerial))
                           /\ (lid[t] = MaxId => (nextId = 1 /\ lser[t] = nextSerial))
  \* everything issued is a well-formed identifier strictly before the frontier ...
  /\ \A p \in issued : /\ p[1] \in 1..MaxId /\ Cyc(p[1], p[2]) >= 0
                       /\ Before(Cyc(p[1], p[2]), p[1], FSer, FId)
  \* ... and, between the two stores of a wrap, strictly before the wrapping identifier <<MaxId, nextSerial + 1>>
  /\ \A t \in Threads : pc[t] = "stored_one" =>
        \A p \in issued : Before(Cyc(p[1], p[2]), p[1], nextSerial, MaxId)
  \* ... and, while a thread is about to return, strictly before that thread's identifier too
  /\ \A t \in Threads : pc[t] = "ret" =>
        \A p \in issued : Before(Cyc(p[1], p[2]), p[1], Cyc(lid[t], lser[t]), lid[t])
\* initial condition for the inductive step: an arbitrary state satisfying IndInv
IndInit ==
  /\ nextId = Gen(1) /\ nextSerial = Gen(1) /\ lock = Gen(1)
  /\ pc = Gen(3) /\ lid = Gen(3) /\ lser = Gen(3) /\ issued = Gen(4)
  /\ DOMAIN pc = Threads /\ DOMAIN lid = Threads /\ DOMAIN lser = Threads
  /\ IndInv
=============================================================================
